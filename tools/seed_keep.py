#!/usr/bin/env python3
"""Copy a confirmed seeded regression into /verif/seeded/<ID>-<variant>/ with patch.diff, the
demonstration and meta.json (which property it breaks, what it needs to manifest, what was run,
which checks report it). usage: seed_keep.py <seed_dir> <confirm.json> <detect.json>"""
import sys, os, json, shutil, glob
seed, cj, dj = sys.argv[1].rstrip('/'), json.load(open(sys.argv[2])), json.load(open(sys.argv[3]))
pid, var = seed.split('/')[-2], seed.split('/')[-1]
dst = f'/verif/seeded/{pid}-{var}'
os.makedirs(dst, exist_ok=True)
shutil.copy(os.path.join(seed, 'patch.diff'), dst)
for f in glob.glob(os.path.join(seed, '*_test.go')) + [os.path.join(seed, 'demo_path.txt')]:
    if os.path.exists(f): shutil.copy(f, dst)
am = json.load(open(os.path.join(seed, 'meta.json')))
old = {}
if os.path.exists(os.path.join(dst, 'meta.json')):
    old = json.load(open(os.path.join(dst, 'meta.json')))
meta = {
  'id': f'{pid}-{var}', 'property': am.get('property', pid),
  'summary': am.get('summary'), 'needs_to_manifest': am.get('needs_to_manifest'),
  'author': 'independent sub-agent given only the property text and a scratch worktree',
  'author_ran': am.get('ran'),
  'confirmed_by_me': {
     'tree': 'scratch worktree of /repo HEAD (with the fix: commits)',
     'demo_files': cj.get('demo_files'), 'demo_cmds': cj.get('demo_cmds'),
     'demo_passes_without_patch': cj.get('demo_passes_without_patch'),
     'patch_applies': cj.get('patch_applies'), 'builds_with_patch': cj.get('builds'),
     'demo_fails_with_patch': cj.get('demo_fails_with_patch'),
     'stable_suite_with_patch': cj.get('stable_with_patch') or old.get('confirmed_by_me', {}).get('stable_suite_with_patch'),
  },
  'detection': {'properties_raising_VIOLATION': dj.get('violation_properties'), 'rules': dj.get('fired')},
}
json.dump(meta, open(os.path.join(dst, 'meta.json'), 'w'), indent=1)
print(dst, meta['detection'])
