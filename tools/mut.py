#!/usr/bin/env python3
"""dev helper: run sdbcheck on an in-memory variant of /repo (overlay; nothing written to /repo).
usage: mut.py <property> <repo-relative file> <old> <new> [<file> <old> <new> ...]"""
import sys, json, subprocess, tempfile, os
prop = sys.argv[1]; args = sys.argv[2:]
ov = {}
while args:
    f, old, new = args[:3]; args = args[3:]
    p = os.path.join('/repo', f)
    s = ov.get(p) or open(p).read()
    if s.count(old) != 1:
        print(f'pattern occurs {s.count(old)} times in {f}', file=sys.stderr); sys.exit(3)
    ov[p] = s.replace(old, new)
with tempfile.NamedTemporaryFile('w', suffix='.json', delete=False, dir='/var/tmp') as t:
    json.dump(ov, t); name = t.name
try:
    r = subprocess.run(['/verif/bin/sdbcheck', '-property', prop, '-overlay', name, '-no-evidence', '-verif', '/verif'], cwd='/verif')
    sys.exit(r.returncode)
finally:
    os.unlink(name)
