#!/bin/bash
# Negative fixtures: behaviour-preserving patches must not raise any alarm.
# Uses a scratch worktree of /repo's HEAD (never /repo itself); removes it afterwards.
cd /verif
WT=/var/tmp/wt_benign
git -C /repo worktree remove --force $WT 2>/dev/null; rm -rf $WT
git -C /repo worktree add -q --detach $WT HEAD || exit 2
bad=0
for d in seeded/_benign/*/; do
  out=$(SEED_EVAL_REPO=$WT python3 tools/seed_eval.py detect /verif/$d)
  echo "$out" | python3 -c "
import json,sys
d=json.load(sys.stdin)
n='$d'
if not d.get('applies'): print('SKIP (does not apply on this tree)', n)
elif d.get('violation_properties') or d.get('fired'): print('FALSE ALARM', n, d.get('violation_properties'), d.get('fired')); sys.exit(1)
else: print('silent', n)
" || bad=1
done
git -C /repo worktree remove --force $WT; rm -rf $WT
exit $bad
