#!/usr/bin/env python3
"""Source of /verif/mutants/mutants.json: in-memory variants used by the thorough tier's self-test.
Each entry breaks exactly one rule instance and must still type-check."""
import json, os
M = []
def m(id, props, file, old, new, expect, note=''):
    M.append(dict(id=id, properties=props, file=file, old=old, new=new, expect=expect, note=note))

TM = 'lib/storage/access/transaction_manager.go'
TP = 'lib/storage/access/table_page.go'
TH = 'lib/storage/access/table_heap.go'
LM = 'lib/recovery/log_manager.go'
LR = 'lib/recovery/log_recovery/log_recovery.go'
BPM = 'lib/storage/buffer/buffer_pool_manager.go'
LK = 'lib/storage/access/lock_manager.go'
SD = 'lib/samehada/samehada.go'
SI = 'lib/samehada/samehada_instance.go'
CAT = 'lib/catalog/table_catalog.go'
OPT = 'lib/planner/optimizer/selinger_optimizer.go'

m('commit-flush-inverted', ['C01', 'C08'], TM, '''		if !isReadOnlyTxn {
			transactionManager.logManager.Flush()
		}''', '''		if isReadOnlyTxn {
			transactionManager.logManager.Flush()
		}''', ['C01-R1 [Commit:flush-after-COMMIT]'])
m('commit-release-before-flush', ['C01', 'C05'], TM, '''		if !isReadOnlyTxn {
			transactionManager.logManager.Flush()
		}
	}

	// Release all the locks.
	transactionManager.mutex.Lock()
	transactionManager.releaseLocks(txn)
	transactionManager.mutex.Unlock()''', '''	}

	// Release all the locks.
	transactionManager.mutex.Lock()
	transactionManager.releaseLocks(txn)
	transactionManager.mutex.Unlock()
	if !isReadOnlyTxn {
		transactionManager.logManager.Flush()
	}''', ['C01-R1 [Commit:flush-before-release]', 'C01-R1 [Commit:flush-after-COMMIT]'])
m('markdelete-no-setlsn', ['C01'], TP, '''		lsn := logManager.AppendLogRecord(logRecord)
		tp.SetLSN(lsn)
		txn.SetPrevLSN(lsn)
	}

	// Mark the tuple1 as deleted.''', '''		lsn := logManager.AppendLogRecord(logRecord)
		txn.SetPrevLSN(lsn)
	}

	// Mark the tuple1 as deleted.''', ['C01-R2 [TablePage.MarkDelete:SetLSN-after-append'])
m('rollbackdelete-not-logged', ['C01', 'C02'], TP, '''	// Log the rollback.
	if logManager.IsEnabledLogging() {
		dummyTuple := new(tuple.Tuple)
		logRecord := recovery.NewLogRecordInsertDelete(txn.GetTransactionID(), txn.GetPrevLSN(), recovery.ROLLBACKDELETE, *rid, dummyTuple)
		lsn := logManager.AppendLogRecord(logRecord)
		tp.SetLSN(lsn)
		txn.SetPrevLSN(lsn)
	}

	slotNum := rid.GetSlotNum()
	common.SHAssert(slotNum < tp.GetTupleCount(), "We can't have more slots than tuples.")''', '''	slotNum := rid.GetSlotNum()
	common.SHAssert(slotNum < tp.GetTupleCount(), "We can't have more slots than tuples.")''', ['C01-R2', 'C01-R3', 'C02-R2'])
m('redo-abort-case-removed', ['C02', 'C01'], LR, '''			} else if logRecord.LogRecordType == recovery.ABORT {
				// rollback was completed before the crash and its compensating operations
				// are in the log (and were redone above), so there is nothing left to undo
				delete(logRecov.activeTxn, logRecord.TxnID)
			} else if''', '''			} else if''', ['C02-R1 [Redo:terminal-record-ends-txn:ABORT]', 'C01-R3 [redo-case:ABORT]'])
m('redo-insert-no-lsn-guard', ['C20'], LR, '''				if pg.GetLSN() < logRecord.GetLSN() {
					logRecord.InsertTuple.SetRID(&logRecord.InsertRID)
					pg.InsertTuple(&logRecord.InsertTuple, logRecov.logManager, nil, txn)
					pg.SetLSN(logRecord.GetLSN())
				}''', '''				{
					logRecord.InsertTuple.SetRID(&logRecord.InsertRID)
					pg.InsertTuple(&logRecord.InsertTuple, logRecov.logManager, nil, txn)
					pg.SetLSN(logRecord.GetLSN())
				}''', ['C20-R1 [Redo:INSERT:LSN-guard]'])
m('redo-update-unpin-inside-guard', ['C14', 'C01'], LR, '''					pg.SetLSN(logRecord.GetLSN())
				}
				logRecov.bufferPoolManager.UnpinPage(logRecord.UpdateRID.GetPageID(), true)''', '''					pg.SetLSN(logRecord.GetLSN())
					logRecov.bufferPoolManager.UnpinPage(logRecord.UpdateRID.GetPageID(), true)
				}''', ['[(*recovery/log_recovery.LogRecovery).Redo:pin-leak]'])
m('undo-markdelete-wrong-inverse', ['C02'], LR, '''				pg.RollbackDelete(&logRecord.DeleteRID, txn, logRecov.logManager)
				logRecov.bufferPoolManager.UnpinPage(logRecord.DeleteRID.GetPageID(), true)
				isUndoOccured = true
			} else if logRecord.LogRecordType == recovery.ROLLBACKDELETE {''', '''				pg.ApplyDelete(&logRecord.DeleteRID, txn, logRecov.logManager)
				logRecov.bufferPoolManager.UnpinPage(logRecord.DeleteRID.GetPageID(), true)
				isUndoOccured = true
			} else if logRecord.LogRecordType == recovery.ROLLBACKDELETE {''', ['C02-R2 [Undo:MARKDELETE->RollbackDelete]'])
m('startup-gc-before-flush', ['C20'], SD, '''		shi.bpm.FlushAllPages()

		dman := shi.GetDiskManager()
		dman.GCLogFile()''', '''		dman := shi.GetDiskManager()
		dman.GCLogFile()''', ['C20-R2 [NewSamehadaDB:flush-pages-before-GCLogFile]'])
m('startup-undo-before-redo', ['C01'], SD, '''		greatestLSN, isUndoNeeded, isGracefulShutdown := logRecov.Redo(txn)
		if isUndoNeeded {
			logRecov.Undo(txn)
		}''', '''		logRecov.Undo(txn)
		greatestLSN, isUndoNeeded, isGracefulShutdown := logRecov.Redo(txn)
		_ = isUndoNeeded''', ['C01-R5 [NewSamehadaDB:Redo-before-Undo]'])
m('startup-activate-before-commit', ['C01'], SD, '''	shi.bpm.FlushAllPages()
	shi.transactionManager.Commit(c, txn)

	shi.GetLogManager().ActivateLogging()''', '''	shi.bpm.FlushAllPages()
	shi.GetLogManager().ActivateLogging()
	shi.transactionManager.Commit(c, txn)
''', ['C01-R5 [NewSamehadaDB:commit-recovery-txn-before-ActivateLogging]'])
m('newpage-victim-no-log-flush', ['C08', 'C01'], BPM, '''				b.logManager.Flush()
				currentPage.WLatch()
				currentPage.AddWLatchRecord(int32(-2))''', '''				currentPage.WLatch()
				currentPage.AddWLatchRecord(int32(-2))''', ['C08-R1 [buffer:NewPage:victim-write-self-flushing]'])
m('checkpoint-pages-before-log', ['C08'], 'lib/concurrency/checkpoint_manager.go', '''	cm.logManager.Flush()
	isSuccess := cm.bufferPoolManager.FlushAllDirtyPages()''', '''	isSuccess := cm.bufferPoolManager.FlushAllDirtyPages()
	cm.logManager.Flush()''', ['C08-R1 [(*concurrency.CheckpointManager).BeginCheckpoint->FlushAllDirtyPages'])
m('append-no-header-rewrite', ['C08'], LM, '''		logMgr.latch.WLock()
		copy(logMgr.logBuffer[logMgr.offset:], logRecord.GetLogHeaderData())
	}''', '''		logMgr.latch.WLock()
	}''', ['C08-R3 [AppendLogRecord:header-after-relatch'])
m('fetchpage-error-keeps-mutex', ['C13', 'C01'], BPM, '''		fmt.Println(err)
		b.mutex.Unlock()
		return nil''', '''		fmt.Println(err)
		return nil''', ['C01-R7 [BPM.FetchPage:mutex-released-on-all-exits]'])
m('flushall-unlocked-pagetable', ['C13', 'C19'], BPM, '''	pageIDs := make([]types.PageID, 0)
	b.mutex.Lock()
	for pageID := range b.pageTable {
		pageIDs = append(pageIDs, pageID)
	}
	b.mutex.Unlock()''', '''	pageIDs := make([]types.PageID, 0)
	for pageID := range b.pageTable {
		pageIDs = append(pageIDs, pageID)
	}''', ['C13-R1 [BPM.FlushAllPages:metadata-under-mutex]'])
m('fetchpage-victim-not-unmapped', ['C13'], BPM, '''			delete(b.pageTable, currentPage.GetPageID())
			b.ReturnBuffer(currentPage)
		}
	}

	//data := make([]byte, common.PageSize)''', '''			b.ReturnBuffer(currentPage)
		}
	}

	//data := make([]byte, common.PageSize)''', ['C13-R2 [BPM.FetchPage:victim-mapping-deleted]'])
m('dealloc-nowait-recycles-resident', ['C13'], BPM, '''		if frameID, ok := b.pageTable[pageID]; ok && frameID != DeallocatedFrame {
			b.pages[frameID].SetIsDeallocated(true)
		}''', '''		if _, ok := b.pageTable[pageID]; ok {
			delete(b.pageTable, pageID)
			b.reUsablePageList = append(b.reUsablePageList, pageID)
		}''', ['C13-R3 [BPM.DeallocatePage:retire-only-with-frame-in-hand]'])
m('gettuple-no-lock', ['C04', 'C05'], TP, '''	// check having appropriate lock or gettable at least a shared access.
	if !txn.IsRecoveryPhase() {
		if !txn.IsSharedLocked(rid) && !txn.IsExclusiveLocked(rid) && !lockManager.LockShared(txn, rid) {
			txn.SetState(ABORTED)
			return nil, ErrGeneral
		}
	}

	// If somehow we have more slots than tuples, abort transaction''', '''	// If somehow we have more slots than tuples, abort transaction''', ['C04-R1 [TablePage.GetTuple:read-needs-lock]'])
m('markdelete-no-x-lock', ['C04', 'C05'], TP, '''		} else if !txn.IsExclusiveLocked(rid) && !lockManager.LockExclusive(txn, rid) {
			txn.SetState(ABORTED)
			return false, nil
		}''', '''		}''', ['C04-R2 [TablePage.MarkDelete:write-needs-X-lock]'])
m('lockexclusive-ignores-shared', ['C16', 'C05'], LK, '''		if arr, ok_ := lockManager.sharedLockTable[*rid]; ok_ {
			if !(arr == nil || len(arr) == 0 || (len(arr) == 1 && arr[0] == txn.GetTransactionID())) {
				// not only this txn has shared lock
				return false
			}
		}
''', '', ['C16-R1 [LockExclusive:grant-depends-on:sharedLockTable]'])
m('lockupgrade-no-mutex', ['C16', 'C19'], LK, '''	//fmt.Printf("called LockUpgrade %v\\n", rid1)
	lockManager.mutex.Lock()
	defer lockManager.mutex.Unlock()
''', '', ['C16-R3 [LockManager.LockUpgrade:fields-under-mutex]'])
m('lockshared-grant-not-recorded', ['C16'], LK, '''			lockManager.sharedLockTable[*rid] = newArr
			slockSet = append(slockSet, *rid)
			txn.SetSharedLockSet(slockSet)
			return true''', '''			lockManager.sharedLockTable[*rid] = newArr
			return true''', ['C16-R2 [LockShared:table-update-recorded-in-lock-set]'])
m('insert-executor-unlocks-early', ['C05'], 'lib/execution/executors/insert_executor.go', '''		colNum := e.tableMetadata.GetColumnNum()''', '''		e.context.GetLockManagerForVerif().Unlock(e.context.txn, nil)
		colNum := e.tableMetadata.GetColumnNum()''', ['C05-R1'], 'requires helper below')
m('applydelete-no-fsp-update', ['C15'], TP, '''	tp.SetFreeSpacePointer(freeSpacePointer + tupleSize)
''', '', ['C15-R2 [(*storage/access.TablePage).ApplyDelete:shift-then-SetFreeSpacePointer]'])
m('insert-no-space-check', ['C15'], TP, '''	if tp.getFreeSpaceRemaining() < tuple.Size()+sizeTuple {
		return nil, ErrNotEnoughSpace
	}
''', '', ['C15-R1 [InsertTuple:write-after-space-check]'])
m('range-update-unrecorded', ['C06'], OPT, '''		if span.updateCnt > 1 {''', '''		if len(relatedOps) > 100 {''', ['C06-R2 [Range.Update:store-'])
m('create-executor-missing-case', ['C06', 'C11'], 'lib/execution/executors/execution_engine.go', '''	case *plans.SelectionPlanNode:
		return NewSelectionExecutor(context, p, e.CreateExecutor(plan.GetChildAt(0), context))
''', '', ['C06-R1 [CreateExecutor:case:SelectionPlanNode]'])
m('reload-nexttableid-constant', ['C10'], CAT, '''	return &Catalog{bpm, tableIDs, tableNames, nextTableID, access.InitTableHeap''', '''	_ = nextTableID
	return &Catalog{bpm, tableIDs, tableNames, 1, access.InitTableHeap''', ['C10-R1 [RecoveryCatalogFromCatalogPage:nextTableID-from-catalog]'])
m('createtable-plain-read', ['C10', 'C19'], CAT, '''	oid := atomic.AddUint32(&c.nextTableID, 1) - 1''', '''	oid := c.nextTableID
	atomic.AddUint32(&c.nextTableID, 1)''', ['C10-R2 [CreateTable:no-plain-read-of-nextTableID]', 'C19-R1/catalog [atomic-only:nextTableID'])
m('inserttable-skips-flush', ['C10'], CAT, '''	// flush a page having columns definitions on table
	c.bpm.FlushPage(ColumnsCatalogPageID)''', '''	// flush a page having columns definitions on table''', ['C10-R3'])
m('shutdown-early-graceful-record', ['C09'], SD, '''	sdb.shi.Shutdown(ShutdownPatternCloseFiles)
}''', '''	sdb.shi.logManager.AppendLogRecord(recovery.NewLogRecordGracefulShutdown())
	sdb.shi.Shutdown(ShutdownPatternCloseFiles)
}''', ['C09-R1 [SamehadaDB.Shutdown:no-early-graceful-record]'])
m('instance-shutdown-record-before-pages', ['C09'], SI, '''		si.bpm.FlushAllDirtyPages()
		logRecord := recovery.NewLogRecordGracefulShutdown()
		si.logManager.AppendLogRecord(logRecord)''', '''		logRecord := recovery.NewLogRecordGracefulShutdown()
		si.logManager.AppendLogRecord(logRecord)
		si.bpm.FlushAllDirtyPages()''', ['C09-R1 [SamehadaInstance.Shutdown:pages-before-graceful-record]'])
m('skiplist-not-rebuilt-on-clean-start', ['C07', 'C09'], SD, '''	case index_constants.IndexKindSkipList, index_constants.IndexKindUniqSkipList:
		// SkipList index always starts''', '''	case index_constants.IndexKindSkipList:
		// SkipList index always starts''', ['C07-R3 [restart:IndexKindUniqSkipList]'])
m('insert-executor-skips-index', ['C07'], 'lib/execution/executors/insert_executor.go', '''				idx := ret
				idx.InsertEntry(tpl, *rid, e.context.txn)''', '''				idx := ret
				if ii > 0 {
					idx.InsertEntry(tpl, *rid, e.context.txn)
				}''', ['C07-R1 [InsertExecutor.Next:entry-for-every-index]'])
m('abort-index-rollback-only-on-key-change', ['C03', 'C07'], TM, '''					if !bfRlbkKeyVal.CompareEquals(*rlbkKeyVal) || *item.rid1 != *item.rid2 {''', '''					if !bfRlbkKeyVal.CompareEquals(*rlbkKeyVal) {''', ['C03-R5 [Abort:UPDATE-index-entry-restored-when-row-moved]'])
m('heap-markdelete-always-unrecorded', ['C03'], TH, '''	if isMarked && !isForUpdate {
		// Update the transaction's write set.
		txn.AddIntoWriteSet(NewWriteRecord(rid, nil, DELETE, markedTuple, nil, t, oid))
	}''', '''	if isMarked && !isForUpdate && oid != 0 {
		// Update the transaction's write set.
		txn.AddIntoWriteSet(NewWriteRecord(rid, nil, DELETE, markedTuple, nil, t, oid))
	}''', ['C03-R2 [TableHeap.MarkDelete:write-set]'])
m('abort-no-abort-record', ['C02', 'C03'], TM, '''		logRecord := recovery.NewLogRecordTxn(txn.GetTransactionID(), txn.GetPrevLSN(), recovery.ABORT)
		lsn := transactionManager.logManager.AppendLogRecord(logRecord)
		txn.SetPrevLSN(lsn)''', '''		logRecord := recovery.NewLogRecordTxn(txn.GetTransactionID(), txn.GetPrevLSN(), recovery.ABORT)
		_ = logRecord''', ['C02-R3'])
m('run-answers-and-requeues', ['C12'], 'lib/samehada/request_manager.go', '''					reqManager.handleAbortedByCCTxn(recvVal)
					reqManager.queMutex.Unlock()''', '''					reqManager.handleAbortedByCCTxn(recvVal)
					reqManager.queMutex.Unlock()
					*recvVal.callerCh <- recvVal''', ['C12-R1 [Run:at-most-one-answer]'])
m('aborted-reported-without-rollback', ['C12'], SD, '''	if txn.GetState() == access.ABORTED {
		sdb.shi.GetTransactionManager().Abort(sdb.cat, txn)
		// temporal impl
		return QueryAbortedErr, nil''', '''	if txn.GetState() == access.ABORTED {
		// temporal impl
		return QueryAbortedErr, nil''', ['C12-R2 [ExecuteSQLRetValues:abort-before-QueryAbortedErr]', 'C12-R3'])
m('appendrequest-unlocked-queue', ['C12', 'C19'], 'lib/samehada/request_manager.go', '''	reqManager.execQue = append(reqManager.execQue, qr)
	reqManager.queMutex.Unlock()

	// wake up execution thread''', '''	reqManager.queMutex.Unlock()
	reqManager.execQue = append(reqManager.execQue, qr)

	// wake up execution thread''', ['C12-R4 [RequestManager.AppendRequest:fields-under-queMutex]'])
m('hashjoin-last-page-not-unpinned', ['C14', 'C11'], 'lib/execution/executors/hash_join_executor.go', '''	// unpin the last tmp page (it is fetched again when its tuples are read)
	if tmpPageID != common.InvalidPageID {
		e.context.GetBufferPoolManager().UnpinPage(tmpPageID, true)
	}
}''', '''}''', ['[(*execution/executors.HashJoinExecutor).Init:pin-leak]'])
m('heap-gettuple-conditional-unpin', ['C14'], TH, '''	page.RUnlatch()
	t.bpm.UnpinPage(page.GetPageID(), false)

	return ret, err''', '''	page.RUnlatch()
	if err == nil {
		t.bpm.UnpinPage(page.GetPageID(), false)
	}

	return ret, err''', ['C14-R1 [(*storage/access.TableHeap).GetTuple:pin-leak]'])
m('scankey-without-wrapper-lock', ['C17', 'C19'], 'lib/storage/index/skip_list_index.go', '''	slidx.updateMtx.RLock()
	// Attention: returned itr\'s containing keys''', '''	// Attention: returned itr\'s containing keys''', ['C17-R2 [SkipListIndex.ScanKey:container-under-updateMtx]'])
m('heap-markdelete-latch-leak', ['C19', 'C17'], TH, '''	if pg == nil {
		txn.SetState(ABORTED)
		return false
	}
	// Otherwise, mark the tuple1 as deleted.
	pg.WLatch()''', '''	pg.WLatch()
	if pg == nil {
		txn.SetState(ABORTED)
		return false
	}
	// Otherwise, mark the tuple1 as deleted.''', ['C17-R3 [(*storage/access.TableHeap).MarkDelete:latch-pairing]'])
m('heap-applydelete-no-latch', ['C19'], TH, '''	// Delete the tuple1 from the page.
	pg.WLatch()
	pg.AddWLatchRecord(int32(txn.txnID))
	pg.ApplyDelete(rid, txn, t.logManager)''', '''	// Delete the tuple1 from the page.
	pg.AddWLatchRecord(int32(txn.txnID))
	pg.ApplyDelete(rid, txn, t.logManager)''', ['C19-R2 [(*storage/access.TableHeap).ApplyDelete:page-methods-under-latch]'])
m('lastpageid-plain-write', ['C19'], TH, '''	atomic.StoreInt32((*int32)(&t.lastPageID), int32(pageID))''', '''	t.lastPageID = pageID''', ['C19-R3 [atomic-only:lastPageID'])
m('begin-id-outside-mutex', ['C19', 'C16'], TM, '''		transactionManager.nextTxnID += 1
		txnRet = NewTransaction(transactionManager.nextTxnID)
		transactionManager.mutex.Unlock()''', '''		transactionManager.nextTxnID += 1
		transactionManager.mutex.Unlock()
		txnRet = NewTransaction(transactionManager.nextTxnID)''', ['C19-R1/txnid [TransactionManager.Begin:fields-under-mutex]'])
m('pointscan-no-key-recheck', ['C04'], 'lib/execution/executors/point_scan_with_index_executor.go', '''		if !tpl.GetValue(sch, colIdxOfPred).CompareEquals(*scanKey) {
			// found record is updated and commited case
			e.foundTuples = make([]*tuple.Tuple, 0)
			e.txn.SetState(access.ABORTED)
			return
		}
''', '', ['C04-R4 [PointScan.Init:keep-after-key-recheck]'])
m('hashjoin-no-predicate-recheck', ['C11'], 'lib/execution/executors/hash_join_executor.go', '''		for !e.IsValidCombination(&leftTuple, &e.rightTuple) {''', '''		for len(e.tmpTuples) == 0 {''', ['C11-R2 [HashJoin.Next:emit-after-predicate-recheck]'])
m('lockexclusive-membership-instead-of-sole-holder', ['C16', 'C05'], LK, '''			if !(arr == nil || len(arr) == 0 || (len(arr) == 1 && arr[0] == txn.GetTransactionID())) {''', '''			if !(arr == nil || len(arr) == 0 || isContainTxnID(arr, txn.GetTransactionID())) {''', ['C16-R4 [LockExclusive:no-exclusive-grant-with-several-shared-holders]'])
m('lockupgrade-any-holder-count', ['C16'], LK, '''			if len(txnIds) != 1 {''', '''			if len(txnIds) == 0 {''', ['C16-R4 [LockUpgrade:no-exclusive-grant-with-several-shared-holders]'])
m('update-fixup-skips-marked-rows', ['C15', 'C03'], TP, '''		if tp.GetTupleSize(uint32(ii)) > 0 && tupleOffsetI < tupleOffset+tupleSize {''', '''		if !IsDeleted(tp.GetTupleSize(uint32(ii))) && tupleOffsetI < tupleOffset+tupleSize {''', ['C15-R4 [TablePage.UpdateTuple:fixup-covers-delete-marked-rows]'])
m('rangescan-emits-own-deleted-row', ['C04'], 'lib/execution/executors/range_scan_with_index_executor.go', '''			tpl = nil
			continue''', '''			continue''', ['C04-R7 [RangeScan.Next:own-deleted-row-not-emitted]'])
m('final-projection-by-count-only', ['C06', 'C11'], OPT, '''	if !isSameColumnsWithSelectList(solution.OutputSchema(), so.qi.SelectFields) {''', '''	if int(solution.OutputSchema().GetColumnCount()) > len(so.qi.SelectFields) {''', ['C06-R3 [findBestJoin:projection-omitted-only-after-comparing-names]'])
m('unpin-overwrites-dirty-flag', ['C13'], BPM, '''		if pg.IsDirty() || isDirty {
			pg.SetIsDirty(true)
		} else {
			pg.SetIsDirty(false)
		}''', '''		pg.SetIsDirty(isDirty)''', ['C13-R6 [UnpinPage:dirty-page-stays-dirty'])
m('run-forgets-to-free-worker-slot', ['C12'], 'lib/samehada/request_manager.go', '''			reqManager.queMutex.Lock()
			reqManager.curExectingReqNum--
''', '''			reqManager.queMutex.Lock()
''', ['C12-R5 [Run:result-frees-a-worker-slot]'])
m('commit-skips-index-delete-for-first-index', ['C07'], TM, '''				indexes := cat.GetRollbackNeededIndexes(indexMap, item.oid)
				for _, idx := range indexes {
					if idx != nil {
						idx.DeleteEntry(item.tuple1, *item.rid1, txn)
					}
				}
			}
		} else if item.wtype == UPDATE {
			if common.EnableDebug && common.ActiveLogKindSetting&common.CommitAbortHandleInfo > 0 {
				fmt.Printf("TransactionManager::Commit handle UPDATE''', '''				indexes := cat.GetRollbackNeededIndexes(indexMap, item.oid)
				for ii, idx := range indexes {
					if idx != nil {
						if ii > 0 {
							idx.DeleteEntry(item.tuple1, *item.rid1, txn)
						}
					}
				}
			}
		} else if item.wtype == UPDATE {
			if common.EnableDebug && common.ActiveLogKindSetting&common.CommitAbortHandleInfo > 0 {
				fmt.Printf("TransactionManager::Commit handle UPDATE''', ['C07-R5 [Commit:DELETE:DeleteEntry-for-every-index]'])
m('lockshared-ignores-foreign-x', ['C16', 'C04'], LK, '''	slockSet := txn.GetSharedLockSet()
	if txnID, ok := lockManager.exclusiveLockTable[*rid]; ok {
		if txnID == txn.GetTransactionID() {
			return true
		} else {
			return false
		}
	} else {''', '''	slockSet := txn.GetSharedLockSet()
	if txnID, ok := lockManager.exclusiveLockTable[*rid]; ok && txnID != txn.GetTransactionID() && len(slockSet) > 100 {
		return false
	} else {''', ['C16-R5 [LockShared:'])
m('flushpage-clears-dirty-after-write', ['C13'], BPM, """		pg.SetIsDirty(false)
		b.mutex.Unlock()

		// content of the page must not be changed while it is written out
		// ATTENTION: caller must not have latch of the page
		pg.RLatch()
		data := pg.Data()
		err := b.diskManager.WritePage(pageID, data[:])
		pg.RUnlatch()
""", """		b.mutex.Unlock()

		// content of the page must not be changed while it is written out
		// ATTENTION: caller must not have latch of the page
		pg.RLatch()
		data := pg.Data()
		err := b.diskManager.WritePage(pageID, data[:])
		pg.RUnlatch()
		pg.SetIsDirty(false)
""", ['C13-R6 [FlushPage:dirty-cleared-before-write]', 'C13-R6 [FlushPage:no-clear-after-write]'])
m('disk-offset-32bit-product', ['C13'], 'lib/storage/disk/disk_manager_impl.go', '''	offset := int64(pageID) * int64(common.PageSize)
	_, errSeek := d.db.Seek(offset, io.SeekStart)''', '''	offset := int64(pageID * common.PageSize)
	_, errSeek := d.db.Seek(offset, io.SeekStart)''', ['C13-R7 [offset-64bit:(*storage/disk.DiskManagerImpl).WritePage'])
m('slot-advance-skips-marked-rows', ['C04'], TP, '''	for ii := initVal; ii < tupleCount; ii++ {
		if tp.GetTupleSize(ii) > 0 {''', '''	for ii := initVal; ii < tupleCount; ii++ {
		if !IsDeleted(tp.GetTupleSize(ii)) {''', ['C04-R8 [TablePage.GetNextTupleRID:marked-rows-are-visited]'])
m('startup-flush-before-undo', ['C20', 'C02'], SD, '''		if isUndoNeeded {
			logRecov.Undo(txn)
		}

		// recovered pages must reach the data file before the log which describes them is discarded
		// (otherwise a crash between the two loses every change which lived only in the log)
		shi.bpm.FlushAllPages()
''', '''		// recovered pages must reach the data file before the log which describes them is discarded
		// (otherwise a crash between the two loses every change which lived only in the log)
		shi.bpm.FlushAllPages()
		if isUndoNeeded {
			logRecov.Undo(txn)
		}
''', ['C20-R4 [NewSamehadaDB:flush-between-Undo-and-GCLogFile]'])
m('reload-counter-from-last-row', ['C10'], CAT, '''		if uint32(oid)+1 > nextTableID {
			nextTableID = uint32(oid) + 1
		}''', '''		nextTableID = uint32(oid) + 1''', ['C10-R1 [RecoveryCatalogFromCatalogPage:nextTableID-is-a-running-maximum]'])
m('heap-insert-link-page-unpinned-clean', ['C13', 'C09'], TH, '''			newPage.Init(p.GetPageID(), currentPageID, t.logManager, t.lockManager, txn, false)
			t.bpm.UnpinPage(currentPage.GetPageID(), true)''', '''			newPage.Init(p.GetPageID(), currentPageID, t.logManager, t.lockManager, txn, false)
			t.bpm.UnpinPage(currentPage.GetPageID(), false)''', ['C13-R8 [(*storage/access.TableHeap).InsertTuple:modified-page-unpinned-clean]', 'C13-R8/heap [(*storage/access.TableHeap).InsertTuple:modified-page-unpinned-clean]'])
m('hash-iterator-unpins-clean', ['C13', 'C07'], 'lib/container/hash/linear_probe_hash_table_iterator.go', '''		itr.bpm.UnpinPage(itr.blockID, true)''', '''		itr.bpm.UnpinPage(itr.blockID, false)''', ['C13-R8 [(*container/hash.LinearProbeHashTable).Remove:modified-page-unpinned-clean]', 'C13-R8/index [(*container/hash.LinearProbeHashTable).Remove:modified-page-unpinned-clean]'])
SL = 'lib/container/skip_list/skip_list.go'
SLB = 'lib/storage/page/skip_list_page/skip_list_block_page.go'
SLI = 'lib/container/skip_list/skip_list_iterator.go'
m('lsn-keep-record-not-appended', ['C01', 'C20'], SD, """		shi.logManager.AppendLogRecord(lsnKeepRecord)
""", """		_ = lsnKeepRecord
""", ['C01-R8 [NewSamehadaDB:numbered-record-after-GC]'])
m('skiplist-getvalue-keeps-rlatch', ['C17'], SL, """	sl.bpm.UnpinPage(node.GetPageID(), false)
	node.RemoveRLatchRecord(key.ToInteger())
	node.RUnlatch()
""", """	sl.bpm.UnpinPage(node.GetPageID(), false)
	node.RemoveRLatchRecord(key.ToInteger())
""", ['C17-R4 [(*container/skip_list.SkipList).GetValue:hand-over-latches]'])
m('skiplist-getvalue-keeps-pin', ['C17', 'C14'], SL, """	sl.bpm.UnpinPage(node.GetPageID(), false)
	node.RemoveRLatchRecord(key.ToInteger())
	node.RUnlatch()
""", """	node.RemoveRLatchRecord(key.ToInteger())
	node.RUnlatch()
""", ['C17-R4/pins [(*container/skip_list.SkipList).GetValue:hand-over-pins]'])
m('skiplist-insert-nosplit-keeps-wlatch', ['C17'], SLB, """			bpm.UnpinPage(node.GetPageID(), true)
			node.WUnlatch()
			if common.EnableDebug {
				common.ShPrintf(common.DebugInfo, "SkipListBlockPage::Insert: finish (no split). key=%v\\n", key.ToIFValue())""", """			bpm.UnpinPage(node.GetPageID(), true)
			if common.EnableDebug {
				common.ShPrintf(common.DebugInfo, "SkipListBlockPage::Insert: finish (no split). key=%v\\n", key.ToIFValue())""", ['C17-R4 [(*storage/page/skip_list_page.SkipListBlockPage).Insert:hand-over-latches]'])
m('skiplist-iterator-end-key-keeps-rlatch', ['C17'], SLI, """			itr.bpm.UnpinPage(itr.curNode.GetPageID(), false)
			itr.curNode.RemoveRLatchRecord(-10000)
			itr.curNode.RUnlatch()
			break""", """			itr.bpm.UnpinPage(itr.curNode.GetPageID(), false)
			itr.curNode.RemoveRLatchRecord(-10000)
			break""", ['C17-R4 [(*container/skip_list.SkipListIterator).initRIDList:hand-over-latches]'])
m('skiplist-iterator-hop-keeps-prev-rlatch', ['C17'], SLI, """			prevNode.RemoveRLatchRecord(-10000)
			prevNode.RUnlatch()""", """			prevNode.RemoveRLatchRecord(-10000)""", ['C17-R4 [(*container/skip_list.SkipListIterator).initRIDList:hand-over-latches]'])
m('skiplist-iterator-found-skips-start-key', ['C17'], SLI, """			curPageSlotIdx = slotIdx - 1
""", """			curPageSlotIdx = slotIdx
""", ['C17-R5 [initRIDList:first-entry-read:found]'])
m('skiplist-iterator-notfound-includes-smaller-key', ['C17'], SLI, """			// because slotIdx is nearest smaller key of rangeStartKey
			curPageSlotIdx = slotIdx
""", """			// because slotIdx is nearest smaller key of rangeStartKey
			curPageSlotIdx = slotIdx - 1
""", ['C17-R5 [initRIDList:first-entry-read:not-found]'])
m('skiplist-find-entry-returns-other-index', ['C17'], SLB, """				return true, node.GetEntry(int(midIdx), key.ValueType()), midIdx
""", """				return true, node.GetEntry(int(midIdx), key.ValueType()), lowIdx
""", ['C17-R5 [FindEntryByKey:found-index-is-the-equal-slot'])
DM = 'lib/storage/disk/disk_manager_impl.go'
m('redo-newpage-missing-page-not-materialised', ['C01', 'C20'], LR, """				if fetchedPage == nil {
""", """				if fetchedPage == nil && logRecord.PageID < 0 {
""", ['C01-R9 [Redo:NewTablePage:missing-page-is-materialised]'])
m('redo-newpage-always-redo-mode', ['C01', 'C20'], LR, """				newPage.Init(pageID, logRecord.PrevPageID, logRecov.logManager, nil, txn, !isFormatNeeded)
""", """				newPage.Init(pageID, logRecord.PrevPageID, logRecov.logManager, nil, txn, true)
""", ['C20-R1 [Redo:NewTablePage:older-page-is-formatted]'])
m('redo-newpage-always-formats', ['C20', 'C02'], LR, """				newPage.Init(pageID, logRecord.PrevPageID, logRecov.logManager, nil, txn, !isFormatNeeded)
""", """				newPage.Init(pageID, logRecord.PrevPageID, logRecov.logManager, nil, txn, false)
""", ['C20-R1 [Redo:NewTablePage:Init-in-redo-mode]'])
m('redo-newpage-format-not-stamped', ['C20'], LR, """				if isFormatNeeded {
					newPage.SetLSN(logRecord.GetLSN())
				}
""", """""", ['C20-R1 [Redo:NewTablePage:stamp-LSN]'])
m('redo-newpage-no-relink', ['C01', 'C20'], LR, """					prevPage.SetNextPageID(pageID)
""", """					_ = prevPage
""", ['C01-R9 [Redo:NewTablePage:previous-page-relinked]'])
m('writepage-keeps-nextpageid', ['C01', 'C10'], DM, """		d.nextPageID = pageID + 1
""", """		_ = pageID
""", ['C01-R9 [DiskManagerImpl.WritePage:advances-nextPageID]'])
m('reply-channel-unbuffered', ['C12'], 'lib/samehada/request_manager.go', """	retCh := make(chan *reqResult, 1)
""", """	retCh := make(chan *reqResult)
""", ['C12-R6 [(*samehada.RequestManager).AppendRequest:callerCh-origin#1]'])
UE = 'lib/execution/executors/update_executor.go'
DE = 'lib/execution/executors/delete_executor.go'
HJE = 'lib/execution/executors/hash_join_executor.go'
SO = 'lib/planner/optimizer/selinger_optimizer.go'
m('delete-executor-writes-for-aborted-txn', ['C05', 'C03'], DE, """		if e.txn.GetState() == access.ABORTED {
			return nil, true, err
		}

		rid := t.GetRID()
		tableMetadata""", """		rid := t.GetRID()
		tableMetadata""", ['C05-R3 [DeleteExecutor.Next:no-write-for-aborted-txn]'])
m('hash-join-keys-resolved-in-wrong-child', ['C11'], SO, """plans.NewHashJoinPlanNodeWithChilds(left, parser.ConvColumnStrsToExpIfOnes(so.c, left, leftCols, true), right, parser.ConvColumnStrsToExpIfOnes(so.c, right, rightCols, false))""", """plans.NewHashJoinPlanNodeWithChilds(left, parser.ConvColumnStrsToExpIfOnes(so.c, left, leftCols, true), right, parser.ConvColumnStrsToExpIfOnes(so.c, nil, rightCols, false))""", ['C11-R5 [(*planner/optimizer.SelingerOptimizer).findBestJoinInner:hash-join#1:right-keys]'])
m('applydelete-fsp-off-by-size', ['C15'], TP, """	tp.SetFreeSpacePointer(freeSpacePointer + tupleSize)
	tp.SetTupleSize(slotNum, 0)""", """	tp.SetFreeSpacePointer(freeSpacePointer + tupleSize - 1)
	tp.SetTupleSize(slotNum, 0)""", ['C15-R5 [TablePage.ApplyDelete:free-space-pointer-moves-with-the-bytes'])
m('applydelete-shift-by-other-distance', ['C15'], TP, """			tp.SetTupleOffsetAtSlot(uint32(ii), tupleOffsetII+tupleSize)""", """			tp.SetTupleOffsetAtSlot(uint32(ii), tupleOffsetII+tupleSize+1)""", ['C15-R5 [TablePage.ApplyDelete:offset-shift-equals-move-distance'])
m('updatetuple-threshold-excludes-neighbours', ['C15', 'C03'], TP, """tupleOffsetI < tupleOffset+tupleSize {""", """tupleOffsetI < tupleOffset+tupleSize-updateTuple.Size() {""", ['C15-R5 [TablePage.UpdateTuple:fix-up-selects-the-moved-rows'])
m('skiplist-remove-no-counter-bump', ['C17'], SLB, """		node.RemoveInner(int(foundIdx))

		node.SetLSN(node.GetLSN() + 1)
""", """		node.RemoveInner(int(foundIdx))

""", ['C17-R6 [SkipListBlockPage.Remove:counter-bumped-with-RemoveInner'])
m('deserialize-record-crossing-buffer-end', ['C01', 'C20', 'C09'], LR, """	if uint32(len(data)) < logRecord.Size {
""", """	if uint32(len(data)) < logRecord.Size && logRecord.Size == 0 {
""", ['C01-R10 [DeserializeLogRecord:payload-decoded-only-from-a-complete-record]'])
m('redo-spins-on-torn-tail', ['C01', 'C20'], LR, """		if bufferOffset == 0 {
			// no complete record at fileOffset (incomplete record at tail of the log file)
			break
		}
""", """""", ['C01-R10 [Redo:chunk-loop-progresses-or-stops]'])
m('index-join-over-filtered-right-plan', ['C11', 'C06'], SO, """		if seqScan, ok := rightScan.(*plans.SeqScanPlanNode); ok && seqScan.GetPredicate() == nil {
			isRightPlainScan = true
		}
""", """		isRightPlainScan = rightScan != nil
""", ['C11-R6 [(*planner/optimizer.SelingerOptimizer).findBestJoinInner:index-join-only-over-an-unfiltered-right-scan]'])
m('tmp-tuple-page-free-space-check-wraps', ['C11', 'C15'], 'lib/materialization/tmp_tuple_page.go', """	if freeOffset < needSize+uint32(offsetFreeSpace+4) {
""", """	if freeOffset-needSize < uint32(offsetFreeSpace+4) {
""", ['C15-R6 [(*materialization.TmpTuplePage).Insert:unsigned-difference-compared'])
ST = 'lib/catalog/statistics.go'
m('statistics-output-without-latch', ['C19'], ST, """	// o is referenced by threads which make plans
	o.latch.WLock()
	defer o.latch.WUnlock()
""", """""", ['C19-R1/statistics [columnStats-field:max:outsider:(*catalog.distinctCounter).Output]'])
m('statistics-copy-without-latch', ['C19'], ST, """	// cs can be updated by statistics updater thread
	cs.latch.RLock()
	defer cs.latch.RUnlock()
""", """""", ['C19-R1/statistics [columnStats.GetDeepCopy:fields-under-latch]'])
m('cross-side-non-equality-conditions-dropped', ['C11'], SO, """			if samehada_util.IsColumnName(here.Left) && samehada_util.IsColumnName(here.Right) {
				isEqual := here.ComparisonOperationType == expression.Equal""", """			if here.ComparisonOperationType == expression.Equal && samehada_util.IsColumnName(here.Left) && samehada_util.IsColumnName(here.Right) {
				isEqual := here.ComparisonOperationType == expression.Equal""", ['C11-R7 [findBestJoinInner:non-equality-cross-conditions-are-collected]'])
CMP = 'lib/execution/expression/comparison.go'
BOV = 'lib/parser/binary_op_visitor.go'
m('comparison-ge-evaluated-as-gt', ['C06', 'C11'], CMP, """	case GreaterThanOrEqual:
		return lhs.CompareGreaterThanOrEqual(rhs)""", """	case GreaterThanOrEqual:
		return lhs.CompareGreaterThan(rhs)""", ['C06-R4 [performComparison:GreaterThanOrEqual]'])
m('comparison-operands-swapped', ['C06'], CMP, """	case LessThan:
		return lhs.CompareLessThan(rhs)""", """	case LessThan:
		return rhs.CompareLessThan(lhs)""", ['C06-R4 [performComparison:LessThan]'])
m('front-end-le-parsed-as-lt', ['C06'], BOV, """	case opcode.LE:
		return -1, expression.LessThanOrEqual""", """	case opcode.LE:
		return -1, expression.LessThan""", ['C06-R4 [front-end:LE->LessThanOrEqual]'])
m('range-lt-treated-inclusive', ['C06'], SO, """				r.Max = rhs.GetDeepCopy()
				r.MaxInclusive = false""", """				r.Max = rhs.GetDeepCopy()
				r.MaxInclusive = true""", ['C06-R4 [Range.Update:LessThan:DirRight]', 'C06-R4 [Range.Update:GreaterThan:DirLeft]'])
m('range-direction-confused', ['C06'], SO, """		if (dir == DirRight && op == expression.LessThanOrEqual) ||
			(dir == DirLeft && op == expression.GreaterThanOrEqual) {""", """		if (dir == DirRight && op == expression.LessThanOrEqual) ||
			(dir == DirRight && op == expression.GreaterThanOrEqual) {""", ['C06-R4 [Range.Update:GreaterThanOrEqual:DirRight]', 'C06-R4 [Range.Update:GreaterThanOrEqual:DirLeft]'])
m('undo-stops-after-latest-record', ['C02', 'C20'], LR, """			lsn = logRecord.PrevLSN
""", """			lsn = common.InvalidLSN
""", ['C02-R5 [Undo:chain-advances-to-PrevLSN]'])
m('redo-lsnmapping-ignores-offset-in-chunk', ['C02'], LR, """			logRecov.lsnMapping[logRecord.Lsn] = int(fileOffset + bufferOffset)
""", """			logRecov.lsnMapping[logRecord.Lsn] = int(fileOffset)
""", ['C02-R5 [Redo:lsnMapping-is-record-start'])
m('redo-activetxn-only-at-begin', ['C02'], LR, """			logRecov.activeTxn[logRecord.TxnID] = logRecord.Lsn
			logRecov.lsnMapping""", """			logRecov.lsnMapping""", ['C02-R5 [Redo:activeTxn-registered-for-every-record]'])
m('changed-index-header-id-not-stored', ['C07', 'C09'], CAT, """				columnsCatalogHeap.UpdateTuple(tuple.NewTupleFromSchema(row, ColumnsCatalogSchema()), nil, nil, ColumnsCatalogOID, *columnRows[ii].GetRID(), txn, false)
""", """				_ = row
""", ['C07-R6 [RecoveryCatalogFromCatalogPage:changed-header-id-is-stored]'])
m('hash-index-update-entry-unimplemented', ['C17', 'C07'], 'lib/storage/index/linear_probe_hash_table_index.go', """	htidx.updateMtx.Lock()
	defer htidx.updateMtx.Unlock()
	htidx.deleteEntryInner(oldKey, oldRID, transaction, true)
	htidx.insertEntryInner(newKey, newRID, transaction, true)
""", """	panic("not implemented yet")
""", ['C17-R1 [LinearProbeHashTableIndex.UpdateEntry:implemented]'])
m('flushpage-without-page-latch', ['C19'], BPM, """		pg.RLatch()
		data := pg.Data()
		err := b.diskManager.WritePage(pageID, data[:])
		pg.RUnlatch()
""", """		data := pg.Data()
		err := b.diskManager.WritePage(pageID, data[:])
""", ['C19-R2 [BPM.FlushPage:page-bytes-under-latch-or-mutex]'])
m('new-table-heap-flushes-under-its-write-latch', ['C19', 'C12'], TH, """	firstPage.RemoveWLatchRecord(int32(txn.txnID))
	firstPage.WUnlatch()
	bpm.FlushPage(p.GetPageID())
	bpm.UnpinPage(p.GetPageID(), true)
""", """	bpm.FlushPage(p.GetPageID())
	bpm.UnpinPage(p.GetPageID(), true)
	firstPage.RemoveWLatchRecord(int32(txn.txnID))
	firstPage.WUnlatch()
""", ['C19-R4 [storage/access.NewTableHeap:no-page-latch-held-at-flush]'])
m('failed-fetch-offers-stale-frame-for-eviction', ['C13'], BPM, """	err := b.diskManager.ReadPage(pageID, data)
	if err != nil {
""", """	err := b.diskManager.ReadPage(pageID, data)
	if err != nil {
		if !isFromFreeList {
			(*b.replacer).Unpin(*frameID)
		}
""", ['C13-R9 [ClockReplacer.Unpin:caller:(*storage/buffer.BufferPoolManager).FetchPage]'])
m('flush-all-dirty-skips-deallocated', ['C09', 'C01'], BPM, """			if pg.IsDirty() {
				pageIDs = append(pageIDs, pageID)""", """			if pg.IsDirty() && !pg.IsDeallocated() {
				pageIDs = append(pageIDs, pageID)""", ['C09-R5 [FlushAllDirtyPages:every-dirty-page-is-collected]'])
m('cache-hit-does-not-tell-replacer', ['C13', 'C14'], BPM, """		pg.IncPinCount()
		(*b.replacer).Pin(frameID)
		b.mutex.Unlock()""", """		pg.IncPinCount()
		b.mutex.Unlock()""", ['C13-R11 [FetchPage:cache-hit:replacer-told]'])
m('unpin-offers-frame-while-pinned', ['C13', 'C14'], BPM, """		if pg.PinCount() <= 0 {
			(*b.replacer).Unpin(frameID)
		}""", """		(*b.replacer).Unpin(frameID)""", ['C13-R11 [UnpinPage:offered-only-when-unpinned]'])
m('unlock-deletes-foreign-exclusive-entry', ['C16', 'C05'], LK, """			if lockManager.exclusiveLockTable[lockedRID] == txn.GetTransactionID() {
				// fmt.Println("delete exclusiveLockTable entry")
				// fmt.Println(lockedRID)
				delete(lockManager.exclusiveLockTable, lockedRID)
			}""", """			delete(lockManager.exclusiveLockTable, lockedRID)""", ['C16-R6 [Unlock:exclusive-entry-deleted-only-for-its-owner]'])
m('unlock-clears-all-shared-holders', ['C16', 'C05'], LK, """				lockManager.sharedLockTable[lockedRID] = removeTxnID(arr, txn.GetTransactionID())""", """				lockManager.sharedLockTable[lockedRID] = arr[:0]""", ['C16-R6 [Unlock:shared-list-loses-only-the-caller'])
m('remove-txnid-drops-first-element', ['C16'], LK, """	for i, t := range list {
		if t == txnID {
			lst = append(list[:i], list[i+1:]...)
			break
		}
	}
	return lst
}

func isContainTxnID""", """	for i := range list {
		lst = append(list[:i], list[i+1:]...)
		break
	}
	return lst
}

func isContainTxnID""", ['C16-R6 [removeTxnID:drops-only-the-given-id]'])
PSE = 'lib/execution/executors/point_scan_with_index_executor.go'
THI = 'lib/storage/access/table_heap_iterator.go'
CKP = 'lib/concurrency/checkpoint_manager.go'
m('readpage-keeps-head-of-torn-page', ['C01', 'C20'], DM, """		for i := 0; i < common.PageSize; i++ {
			pageData[i] = 0""", """		for i := bytesRead; i < common.PageSize; i++ {
			pageData[i] = 0""", ['C01-R11 [ReadPage:short-read-yields-an-empty-page]'])
m('point-scan-stops-at-own-deleted-row', ['C04'], PSE, """		if err == access.ErrSelfDeletedCase {
			continue
		}""", """		if err == access.ErrSelfDeletedCase {
			break
		}""", ['C04-R9 [PointScan.Init:self-deleted-entry-does-not-end-the-scan]'])
m('point-scan-returns-own-deleted-row', ['C04'], PSE, """		if err == access.ErrSelfDeletedCase {
			continue
		}""", """""", ['C04-R9 [PointScan.Init:self-deleted-row-is-not-returned]'])
m('checkpoint-forces-log-before-blocking', ['C08', 'C01'], CKP, """	cm.transactionManager.BlockAllTransactions()
	// write-ahead rule: the log must be on disk before the pages which it describes
	cm.logManager.Flush()""", """	// write-ahead rule: the log must be on disk before the pages which it describes
	cm.logManager.Flush()
	cm.transactionManager.BlockAllTransactions()""", ['C08-R4 [BeginCheckpoint:log-forced-after-blocking]'])
m('range-bound-aliases-where-constant', ['C06', 'C11'], SO, """			r.Min = rhs.GetDeepCopy()
			r.MinInclusive = true
		}
	default:""", """			r.Min = rhs
			r.MinInclusive = true
		}
	default:""", ['C06-R7 [(*planner/optimizer.Range).Update:range-bound-is-a-private-copy:Min'])
m('lock-shared-records-holder-twice', ['C16'], LK, """			if isContainTxnID(arr, txn.GetTransactionID()) {
				return true
			} else {""", """			if len(arr) < 0 {
				return true
			} else {""", ['C16-R7 [LockShared:holder-added-only-when-absent]', 'C16-R7 [floor:`already a holder` tests in LockShared]'])
m('hash-join-tmp-page-unpinned-clean', ['C11', 'C13'], HJE, """	// unpin the last tmp page (it is fetched again when its tuples are read)
	if tmpPageID != common.InvalidPageID {
		e.context.GetBufferPoolManager().UnpinPage(tmpPageID, true)""", """	// unpin the last tmp page (it is fetched again when its tuples are read)
	if tmpPageID != common.InvalidPageID {
		e.context.GetBufferPoolManager().UnpinPage(tmpPageID, false)""", ['C13-R8/join [(*execution/executors.HashJoinExecutor).Init:modified-page-unpinned-clean]', 'C13-R8 [(*execution/executors.HashJoinExecutor).Init:modified-page-unpinned-clean]'])
m('free-space-formula-forgets-slot-directory', ['C15'], TP, """	ret := tp.GetFreeSpacePointer() - sizeTablePageHeader - sizeTuple*tp.GetTupleCount()""", """	ret := tp.GetFreeSpacePointer() - sizeTablePageHeader - 4*tp.GetTupleCount()""", ['C15-R7 [TablePage.getFreeSpaceRemaining:formula]'])
m('tuple-size-read-from-offset-field', ['C15'], TP, """	return uint32(types.NewUInt32FromBytes(tp.Data()[offsetTupleSize+sizeTuple*slotNum:]))""", """	return uint32(types.NewUInt32FromBytes(tp.Data()[offsetTupleOffset+sizeTuple*slotNum:]))""", ['C15-R7 [TablePage:GetTupleSize/SetTupleSize:same-address]'])
m('insert-lowers-free-space-pointer-too-little', ['C15'], TP, """	tp.SetFreeSpacePointer(tp.GetFreeSpacePointer() - tuple.Size())
	tp.setTuple(slot, tuple)""", """	tp.SetFreeSpacePointer(tp.GetFreeSpacePointer() - tuple.Size() + 1)
	tp.setTuple(slot, tuple)""", ['C15-R7 [TablePage.InsertTuple:free-space-pointer-lowered-by-tuple-size'])
m('settuple-stores-size-as-offset', ['C15'], TP, """	tp.Copy(offsetTupleOffset+sizeTuple*slot, types.UInt32(fsp).Serialize())        // set tuple1 offset at slot""", """	tp.Copy(offsetTupleOffset+sizeTuple*slot, types.UInt32(tuple.Size()).Serialize())        // set tuple1 offset at slot""", ['C15-R7 [TablePage.setTuple:slot-describes-the-bytes]'])
m('empty-log-restarts-lsn-counter', ['C20', 'C01'], SD, """			if lsnOnPages := greatestLSNOfTablePages(c, shi.bpm); lsnOnPages > 0 {
				shi.GetLogManager().SetNextLSN(lsnOnPages + 1)""", """			if lsnOnPages := greatestLSNOfTablePages(c, shi.bpm); lsnOnPages > 0 {
				shi.GetLogManager().SetNextLSN(greatestLSN + 1)""", ['C20-R5 [NewSamehadaDB:lsn-restored-from-pages-when-log-is-empty'])
m('undo-of-insert-not-guarded', ['C20', 'C02'], LR, """				if slotNum := logRecord.InsertRID.GetSlotNum(); slotNum < pg.GetTupleCount() && pg.GetTupleSize(slotNum) != 0 {
					pg.ApplyDelete(&logRecord.InsertRID, txn, logRecov.logManager)
				}""", """				pg.ApplyDelete(&logRecord.InsertRID, txn, logRecov.logManager)""", ['C20-R6 [Undo:INSERT:removed-only-while-present]'])
m('undo-of-applied-delete-not-guarded', ['C20', 'C02'], LR, """				if slotNum >= pg.GetTupleCount() || pg.GetTupleSize(slotNum) == 0 {
					logRecord.DeleteTuple.SetRID(&logRecord.DeleteRID)
					pg.InsertTuple(&logRecord.DeleteTuple, logRecov.logManager, nil, txn)
				}""", """				_ = slotNum
				logRecord.DeleteTuple.SetRID(&logRecord.DeleteRID)
				pg.InsertTuple(&logRecord.DeleteTuple, logRecov.logManager, nil, txn)""", ['C20-R6 [Undo:APPLYDELETE:restored-only-while-absent]'])
m('recovery-insert-ignores-recorded-slot', ['C20'], TP, """		if recordedSlot == tp.GetTupleCount() || (recordedSlot < tp.GetTupleCount() && tp.GetTupleSize(recordedSlot) == 0) {
			slot = recordedSlot
		}""", """		_ = recordedSlot""", ['C20-R6 [TablePage.InsertTuple:recorded-slot-honoured-in-recovery]'])
m('catalog-pages-flushed-ahead-of-log', ['C02', 'C10'], CAT, """	if c.LogManager.IsEnabledLogging() {
		c.LogManager.Flush()
	}
	// flush a page having table definitions""", """	// flush a page having table definitions""", ['C02-R6 [Catalog.insertTable:log-forced-before-catalog-pages]'])
m('table-name-stored-as-typed', ['C10'], CAT, """	tableMetadata := NewTableMetadata(sc, lowerName, tableHeap, oid, c.LogManager, true)""", """	tableMetadata := NewTableMetadata(sc, name, tableHeap, oid, c.LogManager, true)""", ['C10-R5 [CreateTable:stored-name-is-the-lookup-key]'])
m('column-scan-stops-at-first-foreign-row', ['C10', 'C09'], CAT, """			if tableOid != oid {
				continue
			}""", """			if tableOid != oid {
				if len(columns) > 0 {
					break
				}
				continue
			}""", ['C10-R6 [RecoveryCatalogFromCatalogPage:catalog-scan-runs-to-the-end'])
m('unlock-stops-after-first-exclusive-row', ['C05', 'C03'], LK, """				delete(lockManager.exclusiveLockTable, lockedRID)
			}""", """				delete(lockManager.exclusiveLockTable, lockedRID)
				break
			}""", ['C03-R7 [LockManager.Unlock:loops-run-to-completion]'])
m('undo-gives-up-after-first-loser', ['C02', 'C03'], LR, """			lsn = logRecord.PrevLSN
			// fmt.Printf("lsn at Undo loop bottom: %d\\n", lsn)
		}""", """			lsn = logRecord.PrevLSN
			// fmt.Printf("lsn at Undo loop bottom: %d\\n", lsn)
		}
		if isUndoOccured {
			break
		}""", ['C03-R7 [LogRecovery.Undo:loops-run-to-completion]'])
m('unpin-sets-dirty-after-unlock', ['C13', 'C19'], BPM, """		if pg.IsDirty() || isDirty {
			pg.SetIsDirty(true)
		} else {
			pg.SetIsDirty(false)
		}
		b.mutex.Unlock()
""", """		dirtyNow := pg.IsDirty() || isDirty
		b.mutex.Unlock()
		pg.SetIsDirty(dirtyNow)
""", ['C13-R1 [BPM.UnpinPage:metadata-under-mutex]'])
m('hash-update-inserts-before-delete', ['C07', 'C17'], 'lib/storage/index/linear_probe_hash_table_index.go', """	htidx.deleteEntryInner(oldKey, oldRID, transaction, true)
	htidx.insertEntryInner(newKey, newRID, transaction, true)
}""", """	htidx.insertEntryInner(newKey, newRID, transaction, true)
	htidx.deleteEntryInner(oldKey, oldRID, transaction, true)
}""", ['C17-R1 [LinearProbeHashTableIndex.UpdateEntry:delete-before-insert]'])
m('skiplist-update-inserts-before-delete', ['C07', 'C17'], 'lib/storage/index/skip_list_index.go', """	slidx.deleteEntryInner(oldKey, oldRID, txn, true)
	slidx.insertEntryInner(newKey, newRID, txn, true)""", """	slidx.insertEntryInner(newKey, newRID, txn, true)
	slidx.deleteEntryInner(oldKey, oldRID, txn, true)""", ['C17-R1 [SkipListIndex.UpdateEntry:delete-before-insert]'])
m('float-key-from-sign-bit', ['C07', 'C17'], 'lib/samehada/samehada_util/samehada_util.go', """		if f >= 0 {
			u |= SignMaskBig""", """		if u&SignMaskBig == 0 && f == f {
			u |= SignMaskBig""", ['C07-R8 [encodeToDicOrderComparableBytes:float-key-not-from-bits-alone'])
m('hash-insert-keeps-old-block-page', ['C07', 'C17'], 'lib/container/hash/linear_probe_hash_table.go', """		iterator.next()

		blockPage, bucket, offset = iterator.blockPage, iterator.bucket, iterator.offset""", """		iterator.next()

		bucket, offset = iterator.bucket, iterator.offset""", ['C17-R7 [(*container/hash.LinearProbeHashTable).Insert:cursor-copy-fresh:field blockPage]'])
m('update-image-before-shift', ['C15'], TP, """	copy(tp.GetData()[freeSpacePointer+tupleSize-updateTuple.Size():], tp.GetData()[freeSpacePointer:tupleOffset])
	tp.SetFreeSpacePointer(freeSpacePointer + tupleSize - updateTuple.Size())
	copy(tp.GetData()[tupleOffset+tupleSize-updateTuple.Size():], updateTuple.Data()[:updateTuple.Size()])
	tp.SetTupleSize(slotNum, updateTuple.Size())
""", """	copy(tp.GetData()[tupleOffset+tupleSize-updateTuple.Size():], updateTuple.Data()[:updateTuple.Size()])
	tp.SetTupleSize(slotNum, updateTuple.Size())
	copy(tp.GetData()[freeSpacePointer+tupleSize-updateTuple.Size():], tp.GetData()[freeSpacePointer:tupleOffset])
	tp.SetFreeSpacePointer(freeSpacePointer + tupleSize - updateTuple.Size())
""", ['C15-R8 [UpdateTuple:shift-before-image]'])
m('update-space-check-on-value-list', ['C15'], TP, """	if tp.getFreeSpaceRemaining()+tupleSize < updateTuple.Size() {""", """	if tp.getFreeSpaceRemaining()+tupleSize < newTuple.Size() {""", ['C15-R8 [UpdateTuple:space-check-measures-written-tuple#1]'])
m('insert-space-check-ignores-row-size', ['C15'], TP, """	if tp.getFreeSpaceRemaining() < tuple.Size()+sizeTuple {
		return nil, ErrNotEnoughSpace""", """	if tp.getFreeSpaceRemaining() < sizeTuple {
		return nil, ErrNotEnoughSpace""", ['C15-R8 [InsertTuple:space-check-measures-written-tuple#1]'])
m('hash-update-entry-two-steps', ['C04', 'C17', 'C07'], 'lib/storage/index/linear_probe_hash_table_index.go', """	htidx.updateMtx.Lock()
	defer htidx.updateMtx.Unlock()
	htidx.deleteEntryInner(oldKey, oldRID, transaction, true)
	htidx.insertEntryInner(newKey, newRID, transaction, true)""", """	htidx.deleteEntryInner(oldKey, oldRID, transaction, false)
	htidx.insertEntryInner(newKey, newRID, transaction, false)""", ['C17-R2 [LinearProbeHashTableIndex.UpdateEntry:container-under-updateMtx]'])
m('skiplist-update-entry-reader-gap', ['C04', 'C17'], 'lib/storage/index/skip_list_index.go', """	slidx.updateMtx.Lock()
	defer slidx.updateMtx.Unlock()
	slidx.deleteEntryInner(oldKey, oldRID, txn, true)
	slidx.insertEntryInner(newKey, newRID, txn, true)""", """	slidx.updateMtx.Lock()
	slidx.deleteEntryInner(oldKey, oldRID, txn, true)
	slidx.updateMtx.Unlock()
	slidx.updateMtx.Lock()
	slidx.insertEntryInner(newKey, newRID, txn, true)
	slidx.updateMtx.Unlock()""", ['C17-R2 [SkipListIndex.UpdateEntry:container-under-updateMtx]'])
m('applydelete-image-after-compaction', ['C02', 'C03', 'C15'], TP, '\tif logManager.IsEnabledLogging() {\n\t\t// We need to copy out the deleted tuple1 for undo purposes.\n\t\tvar deleteTuple = new(tuple.Tuple)\n\t\tdeleteTuple.SetSize(tupleSize)\n\t\tdeleteTuple.SetData(make([]byte, deleteTuple.Size()))\n\t\tcopy(deleteTuple.Data(), tp.Data()[tupleOffset:tupleOffset+deleteTuple.Size()])\n\t\tdeleteTuple.SetRID(rid)\n\n\t\tlogRecord := recovery.NewLogRecordInsertDelete(txn.GetTransactionID(), txn.GetPrevLSN(), recovery.APPLYDELETE, *rid, deleteTuple)\n\t\tlsn := logManager.AppendLogRecord(logRecord)\n\t\ttp.SetLSN(lsn)\n\t\ttxn.SetPrevLSN(lsn)\n\t}\n\n\tfreeSpacePointer := tp.GetFreeSpacePointer()\n\tcommon.SHAssert(tupleOffset >= freeSpacePointer, "Free space appears before tuples.")\n\tcopy(tp.Data()[freeSpacePointer+tupleSize:], tp.Data()[freeSpacePointer:tupleOffset])\n', '\tfreeSpacePointer := tp.GetFreeSpacePointer()\n\tcommon.SHAssert(tupleOffset >= freeSpacePointer, "Free space appears before tuples.")\n\tcopy(tp.Data()[freeSpacePointer+tupleSize:], tp.Data()[freeSpacePointer:tupleOffset])\n\tif logManager.IsEnabledLogging() {\n\t\t// We need to copy out the deleted tuple1 for undo purposes.\n\t\tvar deleteTuple = new(tuple.Tuple)\n\t\tdeleteTuple.SetSize(tupleSize)\n\t\tdeleteTuple.SetData(make([]byte, deleteTuple.Size()))\n\t\tcopy(deleteTuple.Data(), tp.Data()[tupleOffset:tupleOffset+deleteTuple.Size()])\n\t\tdeleteTuple.SetRID(rid)\n\n\t\tlogRecord := recovery.NewLogRecordInsertDelete(txn.GetTransactionID(), txn.GetPrevLSN(), recovery.APPLYDELETE, *rid, deleteTuple)\n\t\tlsn := logManager.AppendLogRecord(logRecord)\n\t\ttp.SetLSN(lsn)\n\t\ttxn.SetPrevLSN(lsn)\n\t}\n\n', ['C02-R8 [TablePage.ApplyDelete:copy-out-before-page-write]'])
m('lockexclusive-over-one-foreign-reader', ['C05', 'C16'], LK, """			if !(arr == nil || len(arr) == 0 || (len(arr) == 1 && arr[0] == txn.GetTransactionID())) {""", """			if !(arr == nil || len(arr) == 0 || len(arr) == 1) {""", ['C16-R4 [LockExclusive:no-exclusive-grant-over-one-foreign-reader]'])
m('tmp-page-entry-may-end-in-header', ['C11'], 'lib/materialization/tmp_tuple_page.go', """	if freeOffset < needSize+uint32(offsetFreeSpace+4) {""", """	if freeOffset < needSize+offsetFreeSpace {""", ['C11-R8 [TmpTuplePage.Insert:new-pointer-stays-behind-the-header#1]'])
m('bare-key-join-kept-with-two-conditions', ['C11'], OPT, """			if candidates[ii].GetType() == plans.NestedLoopJoin || relatedExpCnt > 1 {""", """			if candidates[ii].GetType() == plans.NestedLoopJoin || relatedExpCnt > 2 {""", ['C11-R9 [findBestJoinInner:bare-join-not-a-candidate[E=1,R=2]'])
m('bare-nested-loop-join-kept', ['C11'], OPT, """			if candidates[ii].GetType() == plans.NestedLoopJoin || relatedExpCnt > 1 {""", """			if relatedExpCnt > 1 {""", ['C11-R9 [findBestJoinInner:bare-join-not-a-candidate[E=0,R=1]'])
m('abort-relocated-update-on-old-page', ['C03', 'C12', 'C02'], TM, """				pageID := item.rid2.GetPageID()
				tpage := CastPageAsTablePage(table.bpm.FetchPage(pageID))
				tpage.WLatch()
				tpage.ApplyDelete(item.rid2, txn, transactionManager.logManager)""", """				pageID := item.rid1.GetPageID()
				tpage := CastPageAsTablePage(table.bpm.FetchPage(pageID))
				tpage.WLatch()
				tpage.ApplyDelete(item.rid2, txn, transactionManager.logManager)""", ['C03-R8 [(*storage/access.TransactionManager).Abort:page-of-the-rid:ApplyDelete]'])
m('redo-empty-log-reports-invalid-lsn', ['C20', 'C01'], LR, """	greatestLSN := 0
""", """	greatestLSN := int(common.InvalidLSN)
""", ['C20-R5 [Redo:empty-log-yields-the-tested-value]'])
m('undo-reads-records-into-one-page', ['C02', 'C01', 'C20'], LR, """			logRecov.diskManager.ReadLog(logRecov.logBuffer, int32(fileOffset), &readBytes)
			logRecov.DeserializeLogRecord(logRecov.logBuffer[:readBytes], &logRecord)""", """			logRecov.diskManager.ReadLog(logRecov.logBuffer[:common.PageSize], int32(fileOffset), &readBytes)
			logRecov.DeserializeLogRecord(logRecov.logBuffer[:readBytes], &logRecord)""", ['C02-R7 [(*recovery/log_recovery.LogRecovery).Undo:ReadLog-gets-the-whole-buffer#1]'])
m('redo-refuses-shrinking-update-records', ['C03', 'C02', 'C01', 'C20'], LR, """&logRecord.OldTuple, &logRecord.UpdateRID, txn, nil, logRecov.logManager, true)
					pg.SetLSN(logRecord.GetLSN())""", """&logRecord.OldTuple, &logRecord.UpdateRID, txn, nil, logRecov.logManager, false)
					pg.SetLSN(logRecord.GetLSN())""", ['C03-R9 [Redo:update-record-applied-in-both-directions#1]'])
m('join-visitor-keeps-last-on-clause', ['C11'], 'lib/parser/join_visitor.go', """			v.QueryInfo.OnExpressions = v.QueryInfo.OnExpressions.AppendBinaryOpExpWithAnd(bv.BinaryOpExpression)""", """			v.QueryInfo.OnExpressions = bv.BinaryOpExpression""", ['C11-R10 [JoinVisitor.Enter:on-conditions-are-combined]'])
# drop the one that needs a helper that does not exist
M = [x for x in M if x['id'] != 'insert-executor-unlocks-early']
os.chdir(os.path.dirname(os.path.abspath(__file__)) + '/..')
bad = 0
for x in M:
    s = open('/repo/' + x['file']).read()
    if s.count(x['old']) != 1:
        print('ANCHOR PROBLEM', x['id'], s.count(x['old'])); bad += 1
json.dump(M, open('mutants/mutants.json', 'w'), indent=1)
print(len(M), 'mutants,', bad, 'anchor problems')
