#!/usr/bin/env python3
"""Regenerate DESIGN.md section 8 (seeded regressions and the checks that catch them) from seeded/*/meta.json."""
import json, glob, os, re
os.chdir(os.path.dirname(os.path.abspath(__file__)) + '/..')
rows = []
for d in sorted(glob.glob('seeded/[A-Z]*/')):
    m = json.load(open(d + 'meta.json'))
    c = m['confirmed_by_me']; det = m['detection']
    ok = all([c.get('demo_passes_without_patch'), c.get('patch_applies'), c.get('builds_with_patch'), c.get('demo_fails_with_patch')])
    st = c.get('stable_suite_with_patch') or 'pending'
    rules = sorted({r.split(' [')[0] for r in det.get('rules') or []})
    summ = re.sub(r'\s+', ' ', (m.get('summary') or ''))[:170]
    props = det.get('properties_raising_VIOLATION') or []
    own = m['property'] in props
    verdict = ('caught' if own else ('caught by sibling property only' if props else '**missed**'))
    rows.append(f"| {m['id']} | {summ}… | {'yes' if ok else 'NO'} / {st.replace('stable tests: ', '')} | {verdict} | {', '.join(rules) or '—'} | {', '.join(props) or '—'} |")
n = len(rows); caught = sum('| caught |' in r for r in rows)
txt = f"""## 8. Seeded regressions and which checks catch them

Each change below was written by an independent sub-agent that was given only the text of one
property and a scratch worktree (nothing from /verif). It compiles, keeps the pinned stable suite
green, and breaks the property only under a specific interleaving / crash point / sequence; its
demonstration (kept next to the patch under `seeded/<id>/`) fails with the change and passes without.
"confirmed" = I re-ran that in a scratch worktree of /repo HEAD (demo passes without / patch applies /
builds / demo fails with), then the stable suite with the patch. Detection = `seed_eval.py detect`:
patch applied to /repo, every check run, patch undone. {caught} of {n} are reported by the check of
the property they were written against.

| id | change | confirmed / stable suite | verdict | rules that fire | properties raising VIOLATION |
|---|---|---|---|---|---|
""" + "\n".join(rows) + "\n"
s = open('DESIGN.md').read()
if '<!-- SEEDS-BEGIN -->' in s:
    s = re.sub(r'<!-- SEEDS-BEGIN -->.*<!-- SEEDS-END -->', '<!-- SEEDS-BEGIN -->\n' + txt.replace('\\', '\\\\') + '<!-- SEEDS-END -->', s, flags=re.S)
else:
    s = s.replace('## 6b. Build order', '<!-- SEEDS-BEGIN -->\n' + txt + '<!-- SEEDS-END -->\n\n## 6b. Build order')
open('DESIGN.md', 'w').write(s)
print(n, 'seeds,', caught, 'caught')
