#!/bin/bash
# re-run the checks against every kept seed (seeded/<ID>-<v>/patch.diff) and refresh the `detection` block of its meta.json.
# Run it alone: it uses the scratch worktree named by SEED_EVAL_REPO (default /var/tmp/wt_detect).
cd /verif
export SEED_EVAL_REPO=${SEED_EVAL_REPO:-/var/tmp/wt_detect}
[ -d "$SEED_EVAL_REPO" ] || git -C /repo worktree add -q --detach "$SEED_EVAL_REPO" HEAD || exit 2   # scratch worktree; remove it afterwards with: git -C /repo worktree remove --force $SEED_EVAL_REPO
for d in seeded/[A-Z]*/; do
  n=$(basename $d)
  python3 tools/seed_eval.py detect /verif/${d%/} > /var/tmp/redetect_$n.json 2>/dev/null
  python3 - "$d" "/var/tmp/redetect_$n.json" <<'PY'
import json,sys
d,j=sys.argv[1],sys.argv[2]
m=json.load(open(d+'meta.json')); r=json.load(open(j))
if not r.get('applies'):
    print(d,'DOES NOT APPLY'); sys.exit()
old=m.get('detection',{})
m['detection']={'properties_raising_VIOLATION': r.get('violation_properties'), 'rules': r.get('fired')}
json.dump(m,open(d+'meta.json','w'),indent=1)
own=m['property'] in (r.get('violation_properties') or [])
lost=sorted(set(old.get('properties_raising_VIOLATION') or [])-set(r.get('violation_properties') or []))
print(d, 'own' if own else 'NOT-OWN', r.get('violation_properties'), ('LOST '+str(lost)) if lost else '')
PY
done
python3 tools/seed_table.py > /dev/null
