#!/usr/bin/env python3
"""Evaluate seeded regressions (patch + demonstration produced by independent sub-agents).
  seed_eval.py detect  <seed_dir>            apply patch to /repo, run every check, undo; report which rules fire
  seed_eval.py confirm <seed_dir> [--stable] confirm in a scratch worktree: demo passes without / fails with the
                                             patch, tree builds, (optionally) stable suite 82/82 with the patch
Results are printed as JSON."""
import sys, os, re, json, subprocess, shutil, glob
ENV = dict(os.environ, GOFLAGS='-mod=mod', GOPROXY='off', GOSUMDB='off', GOTOOLCHAIN='local'); ENV.pop('GOWORK', None)
def sh(cmd, cwd=None, timeout=3600):
    r = subprocess.run(cmd, shell=True, cwd=cwd, env=ENV, capture_output=True, text=True, errors='replace', timeout=timeout)
    return r.returncode, r.stdout + r.stderr
def parse_demo(seed):
    txt = open(os.path.join(seed, 'demo_path.txt')).read()
    files = []
    for m in re.finditer(r'([\w\-.]+_test\.go)\s*(?:->|:|=>|goes to|to)\s*`?((?:lib|server)/[\w/\-.]+)`?', txt):
        dst = m.group(2)
        if not dst.endswith('.go'): dst = os.path.join(dst, m.group(1))
        files.append((m.group(1), dst))
    if not files:
        for f in glob.glob(os.path.join(seed, '*_test.go')):
            m = re.search(r'((?:lib|server)/[\w/\-.]*)', txt)
            d = m.group(1) if m else None
            if d and not d.endswith('.go'): d = os.path.join(d, os.path.basename(f))
            files.append((os.path.basename(f), d))
    cmds = [l.strip().lstrip('$ ').strip('`') for l in txt.splitlines() if re.search(r'go test', l) and '-run' in l]
    cmds = [re.sub(r'^.*?(go test)', r'\1', c) for c in cmds]
    cmds = [re.sub(r'^cd lib && ', '', c) for c in cmds]
    return files, cmds
REPO = '/repo'
def detect(seed):
    # SEED_EVAL_REPO=<scratch worktree of /repo at HEAD>: used while something else (the stable suite) runs in /repo
    R = os.environ.get('SEED_EVAL_REPO', REPO)
    if R != REPO:  # keep the scratch worktree at /repo's HEAD
        head = sh('git -C /repo rev-parse HEAD')[1].strip()
        sh(f'git -C {R} reset -q --hard ; git -C {R} checkout -q --detach {head}')
    rc, out = sh(f'git -C {R} apply --check {seed}/patch.diff')
    mode = ''
    if rc != 0:
        rc, out = sh(f'git -C {R} apply --3way --check {seed}/patch.diff')
        mode = '--3way'
        if rc != 0:
            return {'seed': seed, 'applies': False, 'why': out[-400:]}
    rc, out = sh(f'git -C {R} apply {mode} {seed}/patch.diff')
    unmerged = sh(f'git -C {R} diff --name-only --diff-filter=U')[1].strip()
    if rc != 0 or unmerged:
        sh(f'git -C {R} reset -q --hard')
        return {'seed': seed, 'applies': False, 'why': 'conflicts with the current tree: ' + (unmerged or out[-300:])}
    try:
        rc, out = sh(f'bin/sdbcheck -property all -no-evidence -verif /verif -repo {R}', cwd='/verif', timeout=1200)
    finally:
        sh(f'git -C {R} reset -q HEAD -- . ; git -C {R} checkout -- .')
    fired = sorted(set(re.findall(r'^(?:violated|UNDECIDED) (\S+) \[([^\]]+)\]', out, re.M)))
    props = sorted(set(re.findall(r'^VIOLATION property=(\S+)', out, re.M)))
    return {'seed': seed, 'applies': True, 'violation_properties': props, 'fired': [f'{a} [{b}]' for a, b in fired]}
def confirm(seed, stable):
    wt = '/tmp/confirm_wt_' + re.sub(r'\W', '_', seed)
    sh(f'git -C /repo worktree remove --force {wt}'); shutil.rmtree(wt, ignore_errors=True)
    rc, out = sh(f'git -C /repo worktree add -q --detach {wt} HEAD')
    res = {'seed': seed}
    try:
        files, cmds = parse_demo(seed)
        res['demo_files'] = files; res['demo_cmds'] = cmds
        for src, dst in files:
            os.makedirs(os.path.dirname(os.path.join(wt, dst)), exist_ok=True)
            shutil.copy(os.path.join(seed, src), os.path.join(wt, dst))
        def run_demo():
            outs = []; ok = True
            for c in cmds:
                rc, out = sh(c, cwd=os.path.join(wt, 'lib'), timeout=2400)
                outs.append((rc, out[-600:])); ok = ok and rc == 0
            return ok, outs
        ok0, o0 = run_demo(); res['demo_passes_without_patch'] = ok0
        if not ok0: res['without_patch_output'] = o0
        rc, out = sh(f'git -C {wt} apply {seed}/patch.diff')
        if rc != 0: rc, out = sh(f'git -C {wt} apply --3way {seed}/patch.diff')
        res['patch_applies'] = rc == 0
        if rc != 0: res['apply_output'] = out[-400:]; return res
        rc, out = sh('go build ./... && go test -vet=off -count=1 -run "^$" ./... > /dev/null', cwd=os.path.join(wt, 'lib'), timeout=2400)
        res['builds'] = rc == 0
        ok1, o1 = run_demo(); res['demo_fails_with_patch'] = not ok1
        res['with_patch_output'] = [o[1][-300:] for o in o1]
        if stable:
            rc, out = sh(f'python3 /verif/tools/run_stable.py {wt}', timeout=7200)
            res['stable_with_patch'] = out.strip().splitlines()[-1] if out.strip() else ''
        return res
    finally:
        sh(f'git -C /repo worktree remove --force {wt}'); shutil.rmtree(wt, ignore_errors=True)
if __name__ == '__main__':
    mode, seed = sys.argv[1], sys.argv[2].rstrip('/')
    r = detect(seed) if mode == 'detect' else confirm(seed, '--stable' in sys.argv)
    print(json.dumps(r, indent=1))
