#!/usr/bin/env python3
"""Run exactly the pinned stable tests (BASELINE.json stable_pass) of a SamehadaDB tree.
usage: run_stable.py [repo_root]   (default /repo). exit 0 iff all stable tests pass."""
import json, collections, subprocess, sys, os, concurrent.futures, fcntl
# one suite at a time on this machine (the suite is CPU-hungry and has timing-sensitive tests)
_lock = open('/tmp/stable_suite.inner.lock', 'w'); fcntl.flock(_lock, fcntl.LOCK_EX)
root = sys.argv[1] if len(sys.argv) > 1 else '/repo'
b = json.load(open('/root/.vp/BASELINE.json'))
d = collections.defaultdict(list)
for t in b['stable_pass']:
    p, n = t.split('::'); d[p].append(n)
env = dict(os.environ, GOFLAGS='-mod=mod', GOPROXY='off', GOSUMDB='off', GOTOOLCHAIN='local')
env.pop('GOWORK', None)
prefix = 'github.com/ryogrid/SamehadaDB/'
def run(item):
    p, ns = item
    rel = p[len(prefix):]              # lib/...
    mod, sub = rel.split('/', 1)
    tops = sorted({n.split('/')[0] for n in ns})
    cmd = ['go', 'test', '-vet=off', '-count=1', '-timeout', '25m', '-json', '-run', '^(' + '|'.join(tops) + ')$', './' + sub]
    r = subprocess.run(cmd, cwd=os.path.join(root, mod), env=env, capture_output=True, text=True)
    res = {}
    for line in r.stdout.splitlines():
        try: ev = json.loads(line)
        except Exception: continue
        if ev.get('Test') and ev.get('Action') in ('pass', 'fail', 'skip'):
            res[ev['Test']] = ev['Action']
    bad = [n for n in ns if res.get(n) != 'pass']
    return p, ns, bad, r.stdout[-3000:] if bad else ''
fails = 0; total = 0
with concurrent.futures.ThreadPoolExecutor(max_workers=6) as ex:
    for p, ns, bad, out in ex.map(run, sorted(d.items())):
        total += len(ns)
        if bad:
            fails += len(bad); print('FAIL', p, bad); print(out)
print(f'stable tests: {total - fails}/{total} passed')
sys.exit(1 if fails else 0)
