#!/bin/bash
# quick-confirm (demo pass/fail + build), detect and keep every delivered seed not yet under /verif/seeded
cd /verif
for d in /tmp/seeds/C*/; do id=$(basename $d); for v in a b c d e f g h; do
  s=$d$v
  [ -f $s/patch.diff ] && [ -f $s/meta.json ] && [ -f $s/demo_path.txt ] || continue
  [ -d /verif/seeded/$id-$v ] && [ "$1" != "--all" ] && continue
  n=${id}_$v
  python3 tools/seed_eval.py confirm $s > /var/tmp/qconfirm_$n.json 2>/dev/null
  python3 tools/seed_eval.py detect $s > /var/tmp/detect_$n.json 2>/dev/null
  python3 - "$s" "$n" <<'PY'
import json,sys
s,n=sys.argv[1],sys.argv[2]
c=json.load(open(f'/var/tmp/qconfirm_{n}.json')); d=json.load(open(f'/var/tmp/detect_{n}.json'))
ok=all(c.get(k) for k in ('demo_passes_without_patch','patch_applies','builds')) and c.get('demo_fails_with_patch')
print(s, 'CONFIRMED' if ok else 'NOT-CONFIRMED '+str({k:c.get(k) for k in ('demo_passes_without_patch','patch_applies','builds','demo_fails_with_patch')}), d.get('violation_properties'), d.get('fired'))
open(f'/var/tmp/confirm_ok_{n}','w').write('1' if ok else '0')
PY
  if [ "$(cat /var/tmp/confirm_ok_$n)" = "1" ]; then python3 tools/seed_keep.py $s /var/tmp/qconfirm_$n.json /var/tmp/detect_$n.json > /dev/null; fi
done; done
python3 tools/seed_table.py
