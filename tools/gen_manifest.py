#!/usr/bin/env python3
"""Regenerate /verif/MANIFEST.json from the rule registry of the built checker (bin/sdbcheck -list)
and the per-property texts below. Run after adding/removing rules."""
import json, subprocess, re, os
os.chdir(os.path.dirname(os.path.abspath(__file__)) + '/..')
out = subprocess.run(['bin/sdbcheck', '-list'], capture_output=True, text=True, check=True).stdout
rules = {}; cur = None
for line in out.splitlines():
    if re.match(r'^C\d\d$', line.strip()) and not line.startswith(' '):
        cur = line.strip(); rules[cur] = []
    elif cur and line.strip():
        rules[cur].append(line.strip().split()[0])
ENV = 'GOFLAGS=-mod=mod GOPROXY=off GOSUMDB=off GOTOOLCHAIN=local GOWORK=off'
TECH = {
 'ORD': 'must-pass-through on SSA CFG', 'GRD': 'guard-cut reachability on SSA CFG', 'WMC': 'who-may-call/write over VTA call graph',
 'EXH': 'exhaustiveness over go/types', 'SIB': 'sibling agreement', 'DEP': 'backward data-dependence slice', 'MH': 'must-hold lockset dataflow', 'TS': 'typestate pairing',
}
NA = json.load(open('tools/not_applicable.json'))
texts = json.load(open('tools/property_texts.json'))
checks = []
for p in sorted(rules):
    t = texts.get(p, {})
    checks.append({
        'property_id': p,
        'quick_cmd': f'{ENV} bin/sdbcheck -property {p} -tier quick',
        'thorough_cmd': f'{ENV} bin/sdbcheck -property {p} -tier thorough',
        'evidence_file': f'/verif/evidence/{p}.json',
        'replay_cmd_template': f'{ENV} bin/sdbcheck -property {p} -replay {{path}}',
        'engine': 'sdbcheck',
        'level_claimed': {'category': 'other',
                          'text': t.get('level', 'Structural necessary conditions of the property, decided exhaustively over every instance in the current tree by static analysis (rules ' + ', '.join(rules[p]) + '); a green run does not establish the behaviour.'),
                          'design_ref': f'DESIGN.md section 3 ({p})'},
        'level_note': t.get('note', 'Trusted: go/types + go/ssa (x/tools v0.29.0), VTA call graph, the frozen tables in checker/rules_*.go. Not covered: see DESIGN.md section 3.'),
        'technique': t.get('technique', 'static analysis: custom SSA/CFG/call-graph rules (' + ', '.join(rules[p]) + ')'),
    })
m = {
 'version': 1,
 'setup_cmd': f'cd checker && {ENV} go build -o ../bin/sdbcheck . && cd .. && bin/sdbcheck -list >/dev/null',
 'hooks': {'guard': 'verif', 'enable': 'none needed: the checks analyse source only; no hook commits exist', 'baseline_off_cmd': 'python3 tools/run_stable.py /repo', 'source_commits': [], 'add_only': True},
 'engines': [{'name': 'sdbcheck', 'path': 'checker/', 'serves_properties': sorted(rules), 'kind_free_text': 'repository-specific static analyser: go/packages + go/types + go/ssa + VTA call graph; engines ORD/GRD (CFG path queries), WMC (who-may-call), EXH/SIB (exhaustiveness / sibling agreement), DEP (data-dependence slice), MH (lockset), TS (typestate)'}],
 'checks': checks,
 'not_applicable': [x for x in NA if x['property_id'] not in rules],
 'notes': 'All checks are static: they load /repo\'s current working tree on every run and never execute it. Known genuine defects are listed in known_findings.json (KNOWN-FINDING lines); see DESIGN.md.',
}
json.dump(m, open('MANIFEST.json', 'w'), indent=1)
print('claimed', sorted(rules), 'n/a', [x['property_id'] for x in m['not_applicable']])
