package probe

import (
	"fmt"
	"testing"

	"github.com/ryogrid/SamehadaDB/lib/samehada"
)

// C11: a hash join whose build side needs more than one temporary page.
func TestC11HashJoinBuildSideLargerThanOnePage(t *testing.T) {
	db := samehada.NewSamehadaDB(t.Name(), 2000)
	defer db.Shutdown()
	db.ExecuteSQL("CREATE TABLE l(k INT, v VARCHAR(64));")
	db.ExecuteSQL("CREATE TABLE r(k INT, w VARCHAR(64));")
	n := 400
	for i := 0; i < n; i++ {
		db.ExecuteSQL(fmt.Sprintf("INSERT INTO l(k, v) VALUES (%d, 'left-left-left-left-left-left-left-%06d');", i, i))
		db.ExecuteSQL(fmt.Sprintf("INSERT INTO r(k, w) VALUES (%d, 'right-right-right-right-right-right-%06d');", i, i))
	}
	err, rows := db.ExecuteSQL("SELECT l.v, r.w FROM l JOIN r ON l.k = r.k;")
	if err != nil {
		t.Fatal(err)
	}
	if len(rows) != n {
		t.Fatalf("join returned %d rows, want %d", len(rows), n)
	}
}
