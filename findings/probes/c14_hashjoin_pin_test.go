package probe

// C14-R1 reproduction: every hash-join statement leaves one more buffer frame pinned
// (HashJoinExecutor.Init never unpinned the last temporary page it filled).
import (
	"os"
	"testing"

	"github.com/ryogrid/SamehadaDB/lib/common"
	"github.com/ryogrid/SamehadaDB/lib/samehada"
)

func pinned(db *samehada.SamehadaDB) int {
	n := 0
	for _, pg := range db.GetSamehadaInstance().GetBufferPoolManager().GetPages() {
		if pg != nil && pg.PinCount() > 0 {
			n++
		}
	}
	return n
}

func TestC14HashJoinLeaksOnePinPerStatement(t *testing.T) {
	common.TempSuppressOnMemStorageMutex.Lock()
	defer common.TempSuppressOnMemStorageMutex.Unlock()
	common.TempSuppressOnMemStorage = true
	defer func() { common.TempSuppressOnMemStorage = false }()
	os.Remove(t.Name() + ".db")
	os.Remove(t.Name() + ".log")
	db := samehada.NewSamehadaDB(t.Name(), 400)
	db.ExecuteSQL("CREATE TABLE l1(a int, b int);")
	db.ExecuteSQL("CREATE TABLE r1(c int, d int);")
	for i := 0; i < 5; i++ {
		db.ExecuteSQL("INSERT INTO l1(a, b) VALUES (" + itoa(i) + ", " + itoa(i*10) + ");")
		db.ExecuteSQL("INSERT INTO r1(c, d) VALUES (" + itoa(i) + ", " + itoa(i*100) + ");")
	}
	q := "SELECT l1.a, r1.d FROM l1 JOIN r1 ON l1.a = r1.c;"
	_, rows := db.ExecuteSQL(q)
	base := pinned(db)
	var seq []int
	for i := 0; i < 5; i++ {
		db.ExecuteSQL(q)
		seq = append(seq, pinned(db))
	}
	db.Shutdown()
	os.Remove(t.Name() + ".db")
	os.Remove(t.Name() + ".log")
	t.Logf("join rows=%d pinned frames after 1st join=%d, after further joins=%v", len(rows), base, seq)
	if len(rows) != 5 {
		t.Fatalf("join answer has %d rows, want 5", len(rows))
	}
	if seq[len(seq)-1] != base {
		t.Fatalf("pinned frames grow with every join statement: %d -> %v", base, seq)
	}
}
