package probe

// C19 reproductions (run with `go test -race`):
//  TestC19ConcurrentInsertersLastPageID — concurrent INSERT statements on one table race on
//     TableHeap.lastPageID (read without any latch at the start of InsertTuple, written at its end).
//  TestC19FlushPageUnlatchedRead — known finding: BufferPoolManager.FlushPage reads the page bytes
//     (and clears isDirty) with neither the page latch nor the pool mutex while writers modify the page
//     under its write latch.
import (
	"os"
	"sync"
	"testing"

	"github.com/ryogrid/SamehadaDB/lib/common"
	"github.com/ryogrid/SamehadaDB/lib/samehada"
)

func openDB(t *testing.T) *samehada.SamehadaDB {
	common.TempSuppressOnMemStorage = true
	os.Remove(t.Name() + ".db")
	os.Remove(t.Name() + ".log")
	db := samehada.NewSamehadaDB(t.Name(), 2000)
	db.ExecuteSQL("CREATE TABLE t1(a int, b int);")
	return db
}

func closeDB(t *testing.T, db *samehada.SamehadaDB) {
	db.ShutdownForTescase()
	os.Remove(t.Name() + ".db")
	os.Remove(t.Name() + ".log")
	common.TempSuppressOnMemStorage = false
}

func TestC19ConcurrentInsertersLastPageID(t *testing.T) {
	common.TempSuppressOnMemStorageMutex.Lock()
	defer common.TempSuppressOnMemStorageMutex.Unlock()
	db := openDB(t)
	var wg sync.WaitGroup
	for g := 0; g < 8; g++ {
		wg.Add(1)
		go func(g int) {
			defer wg.Done()
			for i := 0; i < 40; i++ {
				db.ExecuteSQL("INSERT INTO t1(a, b) VALUES (" + itoa(g*1000+i) + ", " + itoa(i) + ");")
			}
		}(g)
	}
	wg.Wait()
	closeDB(t, db)
}

func TestC19FlushPageUnlatchedRead(t *testing.T) {
	common.TempSuppressOnMemStorageMutex.Lock()
	defer common.TempSuppressOnMemStorageMutex.Unlock()
	db := openDB(t)
	bpm := db.GetSamehadaInstance().GetBufferPoolManager()
	first := db.GetCatalogForTesting().GetTableByName("t1").Table().GetFirstPageID()
	var wg sync.WaitGroup
	wg.Add(2)
	go func() {
		defer wg.Done()
		for i := 0; i < 200; i++ {
			db.ExecuteSQL("INSERT INTO t1(a, b) VALUES (" + itoa(i) + ", " + itoa(i) + ");")
		}
	}()
	go func() {
		defer wg.Done()
		for i := 0; i < 2000; i++ {
			bpm.FlushPage(first) // what the checkpoint thread / CREATE TABLE of another session do
		}
	}()
	wg.Wait()
	closeDB(t, db)
}
