package probe

// C20 / C01: crash point inside NewSamehadaDB right after the log truncation (GCLogFile) and before the
// record that keeps the LSN counter reaches the log file. The next launch reads an empty log and restarts the
// LSN counter at 1 although the pages on the data file carry large LSNs: records written afterwards are
// skipped by redo after the next crash.
import (
	"os"
	"testing"

	"github.com/ryogrid/SamehadaDB/lib/common"
	"github.com/ryogrid/SamehadaDB/lib/recovery/log_recovery"
	"github.com/ryogrid/SamehadaDB/lib/samehada"
)

func TestC20CrashRightAfterLogTruncation(t *testing.T) {
	common.TempSuppressOnMemStorageMutex.Lock()
	defer common.TempSuppressOnMemStorageMutex.Unlock()
	common.TempSuppressOnMemStorage = true
	defer func() { common.TempSuppressOnMemStorage = false }()
	os.Remove(t.Name() + ".db")
	os.Remove(t.Name() + ".log")
	db := samehada.NewSamehadaDB(t.Name(), 400)
	db.ExecuteSQL("CREATE TABLE t1(a int, b int);")
	for i := 1; i <= 30; i++ {
		db.ExecuteSQL("INSERT INTO t1(a, b) VALUES (" + itoa(i) + ", " + itoa(i) + ");")
	}
	db.Shutdown()

	// a launch that is cut right after GCLogFile (statement order of NewSamehadaDB)
	shi := samehada.NewSamehadaInstance(t.Name(), 100)
	txn := shi.GetTransactionManager().Begin(nil)
	shi.GetLogManager().DeactivateLogging()
	txn.SetIsRecoveryPhase(true)
	lr := log_recovery.NewLogRecovery(shi.GetDiskManager(), shi.GetBufferPoolManager(), shi.GetLogManager())
	_, isUndoNeeded, _ := lr.Redo(txn)
	if isUndoNeeded {
		lr.Undo(txn)
	}
	shi.GetBufferPoolManager().FlushAllPages()
	shi.GetDiskManager().GCLogFile()
	shi.CloseFilesForTesting() // crash

	db = samehada.NewSamehadaDB(t.Name(), 400)
	db.ExecuteSQL("INSERT INTO t1(a, b) VALUES (1000, 1000);") // committed
	db.ShutdownForTescase()                                    // crash: only the log has it
	db = samehada.NewSamehadaDB(t.Name(), 400)
	_, rows := db.ExecuteSQL("SELECT a FROM t1 WHERE a = 1000 OR a = 1000;")
	_, all := db.ExecuteSQL("SELECT a FROM t1 WHERE a >= 0 OR a < 0;")
	db.Shutdown()
	os.Remove(t.Name() + ".db")
	os.Remove(t.Name() + ".log")
	if len(rows) != 1 || len(all) != 31 {
		t.Fatalf("committed insert lost: after a launch that crashed right after the log truncation the LSN counter restarted (got %v, %d rows)", rows, len(all))
	}
}
