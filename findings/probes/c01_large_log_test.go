package probe

// C01 / C09 / C20: Redo reads the log in chunks of LogBufferSize (528 KB). DeserializeLogRecord did not test
// whether the record it is about to decode lies completely inside the chunk: the record that straddles the
// end of a chunk was decoded from a short slice (panic: slice bounds out of range) - a database whose log
// grew beyond one chunk since the last launch could not be opened again, cleanly shut down or not.
import (
	"fmt"
	"os"
	"testing"

	"github.com/ryogrid/SamehadaDB/lib/common"
	"github.com/ryogrid/SamehadaDB/lib/samehada"
)

func TestC01LogLargerThanReadBuffer(t *testing.T) {
	common.TempSuppressOnMemStorageMutex.Lock()
	defer common.TempSuppressOnMemStorageMutex.Unlock()
	common.TempSuppressOnMemStorage = true
	defer func() { common.TempSuppressOnMemStorage = false }()
	for _, crash := range []bool{false, true} {
		name := fmt.Sprintf("%s_%v", t.Name(), crash)
		os.Remove(name + ".db")
		os.Remove(name + ".log")
		db := samehada.NewSamehadaDB(name, 4000)
		db.ExecuteSQL("CREATE TABLE t1(a int, b varchar(100));")
		n := 7000
		for i := 0; i < n; i++ {
			db.ExecuteSQL(fmt.Sprintf("INSERT INTO t1(a, b) VALUES (%d, 'xxxxxxxxxxxxxxxxxxxxxxxxxxxxxxxxxxxxxxxxxxxxxxxxxxxxxxxxxxxxxxxxxxxx%d');", i, i))
		}
		st, _ := os.Stat(name + ".log")
		t.Logf("crash=%v log size %d bytes, read buffer %d bytes", crash, st.Size(), common.LogBufferSize)
		if crash {
			db.ShutdownForTescase()
		} else {
			db.Shutdown()
		}
		db2 := samehada.NewSamehadaDB(name, 4000)
		_, rows := db2.ExecuteSQL("SELECT a FROM t1 WHERE a >= 0 OR a < 0;")
		db2.Shutdown()
		os.Remove(name + ".db")
		os.Remove(name + ".log")
		if len(rows) != n {
			t.Fatalf("crash=%v: %d of %d committed rows are visible after the restart", crash, len(rows), n)
		}
	}
}
