package probe

// C19: the statistics updater (a background thread of every SamehadaDB) stores new column statistics with
// plain writes (distinctCounter.Output) while statements copy them for planning (columnStats.GetDeepCopy)
// with plain reads. Run with -race.
import (
	"fmt"
	"sync"
	"testing"

	"github.com/ryogrid/SamehadaDB/lib/concurrency"
	"github.com/ryogrid/SamehadaDB/lib/samehada"
)

func TestC19StatisticsUpdateVsPlanning(t *testing.T) {
	db := samehada.NewSamehadaDB(t.Name(), 500)
	db.ExecuteSQL("CREATE TABLE t1(a int, b int);")
	for i := 0; i < 50; i++ {
		db.ExecuteSQL(fmt.Sprintf("INSERT INTO t1(a, b) VALUES (%d, %d);", i, i))
	}
	upd := concurrency.NewStatisticsUpdater(db.GetSamehadaInstance().GetTransactionManager(), db.GetCatalogForTesting())
	var wg sync.WaitGroup
	wg.Add(2)
	go func() {
		defer wg.Done()
		for i := 0; i < 200; i++ {
			upd.UpdateAllTablesStatistics()
		}
	}()
	go func() {
		defer wg.Done()
		for i := 0; i < 400; i++ {
			db.ExecuteSQL(fmt.Sprintf("SELECT b FROM t1 WHERE a = %d;", i%50))
		}
	}()
	wg.Wait()
}
