package probe

// C03 / C02: an UPDATE that made a row longer in place is aborted before the crash. The rollback writes an UPDATE
// record of its own (new image = the old, shorter row). Redo replays UPDATE records with isRollbackOrUndo=false, and
// TablePage.UpdateTuple refuses a shrinking update in that mode (ErrRollbackDifficult): the compensation is skipped,
// the transaction is finished (ABORT record), so undo does not touch it either. Expected after recovery: the old row.
import (
	"strings"
	"math"
	"os"
	"testing"

	"github.com/ryogrid/SamehadaDB/lib/common"
	"github.com/ryogrid/SamehadaDB/lib/recovery/log_recovery"
	"github.com/ryogrid/SamehadaDB/lib/samehada"
	"github.com/ryogrid/SamehadaDB/lib/storage/access"
	"github.com/ryogrid/SamehadaDB/lib/storage/index/index_constants"
	"github.com/ryogrid/SamehadaDB/lib/storage/table/column"
	"github.com/ryogrid/SamehadaDB/lib/storage/table/schema"
	"github.com/ryogrid/SamehadaDB/lib/storage/tuple"
	"github.com/ryogrid/SamehadaDB/lib/types"
)

func TestC03AbortedRelocatingUpdateThenRedo(t *testing.T) {
	common.TempSuppressOnMemStorageMutex.Lock()
	defer common.TempSuppressOnMemStorageMutex.Unlock()
	common.TempSuppressOnMemStorage = true
	defer func() { common.TempSuppressOnMemStorage = false }()
	os.Remove(t.Name() + ".db")
	os.Remove(t.Name() + ".log")
	si := samehada.NewSamehadaInstance(t.Name(), 32)
	si.GetLogManager().ActivateLogging()
	col1 := column.NewColumn("a", types.Integer, false, index_constants.IndexKindInvalid, types.PageID(-1), nil)
	col2 := column.NewColumn("b", types.Varchar, false, index_constants.IndexKindInvalid, types.PageID(-1), nil)
	sc := schema.NewSchema([]*column.Column{col1, col2})
	mk := func(a int32, b string) *tuple.Tuple {
		return tuple.NewTupleFromSchema([]types.Value{types.NewInteger(a), types.NewVarchar(b)}, sc)
	}
	t0 := si.GetTransactionManager().Begin(nil)
	tbl := access.NewTableHeap(si.GetBufferPoolManager(), si.GetLogManager(), si.GetLockManager(), t0)
	first := tbl.GetFirstPageID()
	rid1, err := tbl.InsertTuple(mk(1, "short"), t0, math.MaxUint32, false)
	if err != nil {
		t.Fatal(err)
	}
	tbl.InsertTuple(mk(2, "neighbour"), t0, math.MaxUint32, false)
	for i := 0; i < 60; i++ { // fill the first page so that the update below has to move the row
		tbl.InsertTuple(mk(int32(1000+i), "0123456789012345678901234567890123456789012345678"), t0, math.MaxUint32, false)
	}
	si.GetTransactionManager().Commit(nil, t0)

	t1 := si.GetTransactionManager().Begin(nil)
	ok, newRID, uerr, _, _ := tbl.UpdateTuple(mk(1, strings.Repeat("L", 900)), nil, nil, math.MaxUint32, *rid1, t1, false)
	t.Logf("update: ok=%v newRID=%v err=%v", ok, newRID, uerr)
	si.GetTransactionManager().Abort(nil, t1)

	// another transaction commits: the log (with the records of t1) reaches the disk
	t2 := si.GetTransactionManager().Begin(nil)
	tbl.InsertTuple(mk(3, "later"), t2, math.MaxUint32, false)
	si.GetTransactionManager().Commit(nil, t2)
	si.CloseFilesForTesting() // crash: nothing but the log reached the disk

	si = samehada.NewSamehadaInstance(t.Name(), 32)
	si.GetLogManager().DeactivateLogging()
	rt := si.GetTransactionManager().Begin(nil)
	rt.SetIsRecoveryPhase(true)
	lr := log_recovery.NewLogRecovery(si.GetDiskManager(), si.GetBufferPoolManager(), si.GetLogManager())
	_, undoNeeded, _ := lr.Redo(rt)
	if undoNeeded {
		lr.Undo(rt)
	}
	tbl = access.InitTableHeap(si.GetBufferPoolManager(), first, si.GetLogManager(), si.GetLockManager())
	got := map[int32]string{}
	for it := tbl.Iterator(rt); !it.End(); it.Next() {
		got[it.Current().GetValue(sc, 0).ToInteger()] = it.Current().GetValue(sc, 1).ToVarchar()
	}
	si.Shutdown(samehada.ShutdownPatternRemoveFiles)
	if got[1] != "short" || got[2] != "neighbour" || got[3] != "later" || len(got) != 63 {
		t.Fatalf("after recovery the table must hold 1:short, 2:neighbour, 3:later and the 60 fillers; got %d rows, 1=%q 2=%q 3=%q", len(got), got[1], got[2], got[3])
	}
}
