package probe

import (
	"fmt"
	"math/rand"
	"sort"
	"testing"

	"github.com/ryogrid/SamehadaDB/lib/concurrency"
	"github.com/ryogrid/SamehadaDB/lib/samehada"
)

func TestC11ThreeWayRandom(t *testing.T) {
	for seed := int64(1); seed <= 6; seed++ {
		rnd := rand.New(rand.NewSource(seed))
		db := samehada.NewSamehadaDB(fmt.Sprintf("%s_%d", t.Name(), seed), 8000)
		db.ExecuteSQL("CREATE TABLE ta(x int, p int);")
		db.ExecuteSQL("CREATE TABLE tb(x int, y int);")
		db.ExecuteSQL("CREATE TABLE tc(y int, q int);")
		type ra struct{ x, p int }
		type rb struct{ x, y int }
		type rc struct{ y, q int }
		var A []ra
		var B []rb
		var C []rc
		na, nb, nc := 5+rnd.Intn(30), 5+rnd.Intn(60), 5+rnd.Intn(30)
		for i := 0; i < na; i++ {
			r := ra{rnd.Intn(8), 100 + i}
			A = append(A, r)
			db.ExecuteSQL(fmt.Sprintf("INSERT INTO ta(x, p) VALUES (%d, %d);", r.x, r.p))
		}
		for i := 0; i < nb; i++ {
			r := rb{rnd.Intn(10), rnd.Intn(6)}
			B = append(B, r)
			db.ExecuteSQL(fmt.Sprintf("INSERT INTO tb(x, y) VALUES (%d, %d);", r.x, r.y))
		}
		for i := 0; i < nc; i++ {
			r := rc{rnd.Intn(7), 1000 + i}
			C = append(C, r)
			db.ExecuteSQL(fmt.Sprintf("INSERT INTO tc(y, q) VALUES (%d, %d);", r.y, r.q))
		}
		lim := rnd.Intn(5)
		var want []string
		for _, a := range A {
			for _, b := range B {
				for _, c := range C {
					if a.x == b.x && b.y == c.y && b.y >= lim {
						want = append(want, fmt.Sprintf("%d|%d", a.p, c.q))
					}
				}
			}
		}
		sort.Strings(want)
		qs := []string{
			fmt.Sprintf("SELECT ta.p, tc.q FROM ta JOIN tb ON ta.x = tb.x JOIN tc ON tb.y = tc.y WHERE tb.y >= %d;", lim),
			fmt.Sprintf("SELECT ta.p, tc.q FROM tc JOIN tb ON tb.y = tc.y JOIN ta ON ta.x = tb.x WHERE tb.y >= %d;", lim),
			fmt.Sprintf("SELECT ta.p, tc.q FROM ta, tb, tc WHERE ta.x = tb.x AND tb.y = tc.y AND tb.y >= %d;", lim),
		}
		for round := 0; round < 2; round++ {
			for _, q := range qs {
				err, res := db.ExecuteSQL(q)
				got := rowsOf(res)
				if err != nil || fmt.Sprint(got) != fmt.Sprint(want) {
					t.Errorf("seed %d round %d: %s\n  err=%v got %d rows, want %d rows", seed, round, q, err, len(got), len(want))
				}
			}
			concurrency.NewStatisticsUpdater(db.GetSamehadaInstance().GetTransactionManager(), db.GetCatalogForTesting()).UpdateAllTablesStatistics()
		}
		db.Shutdown()
	}
}
