package probe

// C09/C07 candidate: B-tree index (catalog API only): crash, reopen, clean shutdown, reopen.
import (
	"math"
	"time"
	"os"
	"testing"

	"github.com/ryogrid/SamehadaDB/lib/common"
	"github.com/ryogrid/SamehadaDB/lib/samehada"
	"github.com/ryogrid/SamehadaDB/lib/storage/index/index_constants"
	"github.com/ryogrid/SamehadaDB/lib/storage/table/column"
	"github.com/ryogrid/SamehadaDB/lib/storage/table/schema"
	"github.com/ryogrid/SamehadaDB/lib/storage/tuple"
	"github.com/ryogrid/SamehadaDB/lib/types"
)

func TestC09BtreeCrashThenCleanShutdown(t *testing.T) { crashThenClean(t, index_constants.IndexKindBtree) }
func TestC09HashCrashThenCleanShutdown(t *testing.T)  { crashThenClean(t, index_constants.IndexKindHash) }

func crashThenClean(t *testing.T, kind index_constants.IndexKind) {
	common.TempSuppressOnMemStorageMutex.Lock()
	defer common.TempSuppressOnMemStorageMutex.Unlock()
	common.TempSuppressOnMemStorage = true
	defer func() { common.TempSuppressOnMemStorage = false }()
	os.Remove(t.Name() + ".db")
	os.Remove(t.Name() + ".log")
	db := samehada.NewSamehadaDB(t.Name(), 2000)
	c := db.GetCatalogForTesting()
	tm := db.GetSamehadaInstance().GetTransactionManager()
	txn := tm.Begin(nil)
	colA := column.NewColumn("a", types.Integer, true, kind, types.PageID(-1), nil)
	colB := column.NewColumn("b", types.Integer, false, index_constants.IndexKindInvalid, types.PageID(-1), nil)
	sc := schema.NewSchema([]*column.Column{colA, colB})
	meta := c.CreateTable("bt", sc, txn)
	for i := 0; i < 50; i++ {
		tpl := tuple.NewTupleFromSchema([]types.Value{types.NewInteger(int32(i)), types.NewInteger(int32(i * 10))}, sc)
		rid, err := meta.Table().InsertTuple(tpl, txn, meta.OID(), false)
		if err != nil {
			t.Fatal(err)
		}
		meta.GetIndex(0).InsertEntry(tpl, *rid, txn)
	}
	tm.Commit(c, txn)
	lookup := func(db *samehada.SamehadaDB, phase string) {
		c := db.GetCatalogForTesting()
		meta := c.GetTableByName("bt")
		txn := db.GetSamehadaInstance().GetTransactionManager().Begin(nil)
		miss := 0
		for i := 0; i < 50; i++ {
			k := types.NewInteger(int32(i))
			rids := meta.GetIndex(0).ScanKey(tuple.GenTupleForIndexSearch(meta.Schema(), 0, &k), txn)
			if len(rids) != 1 {
				miss++
			}
		}
		db.GetSamehadaInstance().GetTransactionManager().Commit(c, txn)
		if miss != 0 {
			t.Errorf("%s: %d of 50 keys are not found exactly once through the B-tree index", phase, miss)
		}
		_ = math.MaxInt32
	}
	lookup(db, "session 1")
	time.Sleep(300 * time.Millisecond)
	db.ShutdownForTescase() // crash
	db = samehada.NewSamehadaDB(t.Name(), 2000)
	lookup(db, "after crash restart")
	db.Shutdown() // clean
	db = samehada.NewSamehadaDB(t.Name(), 2000)
	lookup(db, "after clean restart")
	time.Sleep(300 * time.Millisecond) // let the start-up run of the statistics thread finish (the emulated crash does not kill it)
	db.ShutdownForTescase() // crash again
	db = samehada.NewSamehadaDB(t.Name(), 2000)
	lookup(db, "after second crash restart")
	db.Shutdown()
	db = samehada.NewSamehadaDB(t.Name(), 2000)
	lookup(db, "after second clean restart")
	db.Shutdown()
	db = samehada.NewSamehadaDB(t.Name(), 2000)
	lookup(db, "after third clean restart")
	db.Shutdown()
	os.Remove(t.Name() + ".db")
	os.Remove(t.Name() + ".log")
}
