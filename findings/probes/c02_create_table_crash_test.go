package probe

// C02 / C10 / WAL on the catalog heaps: Catalog.insertTable flushes the two catalog pages right after it
// inserted the rows of a new table, before the log records of those inserts are forced. A crash before the
// creating transaction commits leaves the rows on the data file and nothing on the log that could undo them:
// the uncommitted table exists after the restart (or, when the crash falls between the two page flushes, a
// table without columns).
import (
	"os"
	"testing"

	"github.com/ryogrid/SamehadaDB/lib/common"
	"github.com/ryogrid/SamehadaDB/lib/samehada"
	"github.com/ryogrid/SamehadaDB/lib/storage/index/index_constants"
	"github.com/ryogrid/SamehadaDB/lib/storage/table/column"
	"github.com/ryogrid/SamehadaDB/lib/storage/table/schema"
	"github.com/ryogrid/SamehadaDB/lib/types"
)

func TestC02UncommittedCreateTableLeavesNoTrace(t *testing.T) {
	common.TempSuppressOnMemStorageMutex.Lock()
	defer common.TempSuppressOnMemStorageMutex.Unlock()
	common.TempSuppressOnMemStorage = true
	defer func() { common.TempSuppressOnMemStorage = false }()
	os.Remove(t.Name() + ".db")
	os.Remove(t.Name() + ".log")
	db := samehada.NewSamehadaDB(t.Name(), 400)
	db.ExecuteSQL("CREATE TABLE committed_one(a int);")
	c := db.GetCatalogForTesting()
	txn := db.GetSamehadaInstance().GetTransactionManager().Begin(nil)
	colA := column.NewColumn("a", types.Integer, false, index_constants.IndexKindInvalid, types.PageID(-1), nil)
	colB := column.NewColumn("b", types.Integer, false, index_constants.IndexKindInvalid, types.PageID(-1), nil)
	c.CreateTable("never_committed", schema.NewSchema([]*column.Column{colA, colB}), txn)
	// the creating transaction is still running: crash
	db.ShutdownForTescase()

	db = samehada.NewSamehadaDB(t.Name(), 400)
	c = db.GetCatalogForTesting()
	ghost := c.GetTableByName("never_committed")
	kept := c.GetTableByName("committed_one")
	db.Shutdown()
	os.Remove(t.Name() + ".db")
	os.Remove(t.Name() + ".log")
	if kept == nil {
		t.Fatalf("the committed table is gone")
	}
	if ghost != nil {
		t.Fatalf("table never_committed exists after the restart (with %d columns) although the transaction that created it never committed", ghost.GetColumnNum())
	}
}
