package probe

// C14-R1: reconstructIndexDataOfATbl (index rebuild at start-up after an unclean stop) fetched the
// header page of every hash index and never unpinned it: one frame stays pinned for the life of the
// process per hash-indexed column.
import (
	"os"
	"testing"

	"github.com/ryogrid/SamehadaDB/lib/common"
	"github.com/ryogrid/SamehadaDB/lib/samehada"
	"github.com/ryogrid/SamehadaDB/lib/storage/index/index_constants"
	"github.com/ryogrid/SamehadaDB/lib/storage/table/column"
	"github.com/ryogrid/SamehadaDB/lib/storage/table/schema"
	"github.com/ryogrid/SamehadaDB/lib/types"
)

func TestC14ReconstructLeavesHashHeaderPinned(t *testing.T) {
	common.TempSuppressOnMemStorageMutex.Lock()
	defer common.TempSuppressOnMemStorageMutex.Unlock()
	common.TempSuppressOnMemStorage = true
	defer func() { common.TempSuppressOnMemStorage = false }()
	os.Remove(t.Name() + ".db")
	os.Remove(t.Name() + ".log")
	db := samehada.NewSamehadaDB(t.Name(), 4000)
	shi := db.GetSamehadaInstance()
	txn := shi.GetTransactionManager().Begin(nil)
	colA := column.NewColumn("a", types.Integer, true, index_constants.IndexKindHash, types.PageID(-1), nil)
	colB := column.NewColumn("b", types.Integer, false, index_constants.IndexKindInvalid, types.PageID(-1), nil)
	md := db.GetCatalogForTesting().CreateTable("h1", schema.NewSchema([]*column.Column{colA, colB}), txn)
	hdr := md.Schema().GetColumn(0).IndexHeaderPageID()
	shi.GetTransactionManager().Commit(db.GetCatalogForTesting(), txn)
	db.ShutdownForTescase() // unclean stop: indexes are rebuilt at next start

	db = samehada.NewSamehadaDB(t.Name(), 4000)
	pin := int32(-1)
	for _, pg := range db.GetSamehadaInstance().GetBufferPoolManager().GetPages() {
		if pg != nil && pg.GetPageID() == hdr {
			pin = pg.PinCount()
		}
	}
	db.ShutdownForTescase()
	os.Remove(t.Name() + ".db")
	os.Remove(t.Name() + ".log")
	t.Logf("hash index header page %d pin count after start-up: %d", hdr, pin)
	if pin > 0 {
		t.Fatalf("start-up left the hash index header page %d pinned (pin count %d)", hdr, pin)
	}
}
