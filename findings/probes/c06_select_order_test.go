package probe

// C06-R3: the optimizer attached the final projection only when the plan produced MORE columns than
// the select list has. With the same number of columns in a different order (`SELECT b, a ...` on a
// predicate without OR) the values came back in table order, while the OR path (sequential scan
// planner) returned them in the order written.
import (
	"fmt"
	"os"
	"testing"

	"github.com/ryogrid/SamehadaDB/lib/common"
	"github.com/ryogrid/SamehadaDB/lib/samehada"
)

func TestC06SelectListOrder(t *testing.T) {
	common.TempSuppressOnMemStorageMutex.Lock()
	defer common.TempSuppressOnMemStorageMutex.Unlock()
	common.TempSuppressOnMemStorage = true
	defer func() { common.TempSuppressOnMemStorage = false }()
	os.Remove(t.Name() + ".db")
	os.Remove(t.Name() + ".log")
	db := samehada.NewSamehadaDB(t.Name(), 400)
	db.ExecuteSQL("CREATE TABLE t1(a int, b int, c int);")
	db.ExecuteSQL("INSERT INTO t1(a, b, c) VALUES (1, 10, 100);")
	db.ExecuteSQL("CREATE TABLE t2(d int, e int);")
	db.ExecuteSQL("INSERT INTO t2(d, e) VALUES (1, 7);")
	cases := map[string]string{
		"SELECT b, a FROM t1 WHERE a = 1;":                                  "[[10 1]]",
		"SELECT b, a FROM t1 WHERE a = 1 OR a = 2;":                         "[[10 1]]",
		"SELECT c, b, a FROM t1 WHERE a >= 0;":                              "[[100 10 1]]",
		"SELECT c, a FROM t1 WHERE b = 10;":                                 "[[100 1]]",
		"SELECT b, a FROM t1;":                                              "[[10 1]]",
		"SELECT a, b, c FROM t1 WHERE a = 1;":                               "[[1 10 100]]",
		"SELECT t2.e, t1.a FROM t1 JOIN t2 ON t1.a = t2.d WHERE t1.a = 1;":  "[[7 1]]",
	}
	var bad []string
	for q, want := range cases {
		_, rows := db.ExecuteSQL(q)
		if got := fmt.Sprint(rows); got != want {
			bad = append(bad, q+" -> "+got+" want "+want)
		}
	}
	// UPDATE / DELETE go through the same optimizer path and need the row ids of the scan
	db.ExecuteSQL("UPDATE t1 SET b = 11 WHERE a = 1;")
	_, rows := db.ExecuteSQL("SELECT b FROM t1 WHERE a = 1;")
	if fmt.Sprint(rows) != "[[11]]" {
		bad = append(bad, "after UPDATE: "+fmt.Sprint(rows))
	}
	db.ExecuteSQL("DELETE FROM t1 WHERE a = 1;")
	_, rows = db.ExecuteSQL("SELECT b FROM t1 WHERE a = 1;")
	if len(rows) != 0 {
		bad = append(bad, "after DELETE: "+fmt.Sprint(rows))
	}
	db.Shutdown()
	os.Remove(t.Name() + ".db")
	os.Remove(t.Name() + ".log")
	if len(bad) > 0 {
		t.Fatalf("select list order / DML through the optimizer path:\n%v", bad)
	}
}
