package probe

// C11: the answer of a join does not depend on the plan.
// (1) an index join was built from the left plan and the right *table*: the selections that were pushed down
//     into the right plan were dropped, so `... WHERE right.col < c` returned rows violating the filter as
//     soon as statistics made the index join the cheapest candidate.
// (2) with two equality conditions between the two sides no hash/index join is built; the nested loop join
//     without any predicate and the same plan under a selection cost the same, and the bare cross product
//     could win the tie.
import (
	"fmt"
	"sort"
	"strings"
	"testing"

	"github.com/ryogrid/SamehadaDB/lib/concurrency"
	"github.com/ryogrid/SamehadaDB/lib/samehada"
)

func rowsToStrs(rows [][]interface{}) []string {
	ret := make([]string, 0)
	for _, row := range rows {
		cols := make([]string, 0)
		for _, col := range row {
			cols = append(cols, fmt.Sprintf("%v", col))
		}
		ret = append(ret, strings.Join(cols, "|"))
	}
	sort.Strings(ret)
	return ret
}

func TestC11JoinAnswerIndependentOfPlan(t *testing.T) {
	db := samehada.NewSamehadaDB(t.Name(), 500)
	defer db.Shutdown()
	db.ExecuteSQL("CREATE TABLE member(grp INT, name VARCHAR(32));")
	db.ExecuteSQL("CREATE TABLE item(grp INT, shelf INT, label VARCHAR(32));")
	type m struct {
		grp  int
		name string
	}
	type it struct {
		grp, shelf int
		label      string
	}
	members := []m{{1, "m-a"}, {2, "m-b"}, {3, "m-c"}, {2, "m-d"}}
	var items []it
	for i := 0; i < 40; i++ {
		items = append(items, it{(i * 5) % 7, i % 4, fmt.Sprintf("i-%d", i)})
	}
	for _, r := range members {
		db.ExecuteSQL(fmt.Sprintf("INSERT INTO member(grp, name) VALUES (%d, '%s');", r.grp, r.name))
	}
	for _, r := range items {
		db.ExecuteSQL(fmt.Sprintf("INSERT INTO item(grp, shelf, label) VALUES (%d, %d, '%s');", r.grp, r.shelf, r.label))
	}
	type tc struct {
		q     string
		naive func() []string
	}
	cases := []tc{
		{"SELECT member.name, item.label, item.shelf FROM member JOIN item ON member.grp = item.grp WHERE item.shelf < 2;", func() []string {
			var ret []string
			for _, a := range members {
				for _, b := range items {
					if a.grp == b.grp && b.shelf < 2 {
						ret = append(ret, fmt.Sprintf("%s|%s|%d", a.name, b.label, b.shelf))
					}
				}
			}
			sort.Strings(ret)
			return ret
		}},
		{"SELECT member.name, item.label FROM member, item WHERE member.grp = item.grp AND member.grp = item.shelf;", func() []string {
			var ret []string
			for _, a := range members {
				for _, b := range items {
					if a.grp == b.grp && a.grp == b.shelf {
						ret = append(ret, fmt.Sprintf("%s|%s", a.name, b.label))
					}
				}
			}
			sort.Strings(ret)
			return ret
		}},
	}
	check := func(phase string) {
		for _, c := range cases {
			for rep := 0; rep < 20; rep++ { // the tie between equal-cost candidates is broken by an unstable sort
				err, got := db.ExecuteSQL(c.q)
				if err != nil {
					t.Fatal(err)
				}
				g, e := rowsToStrs(got), c.naive()
				if strings.Join(g, ",") != strings.Join(e, ",") {
					t.Errorf("[%s] %s\n expected %d rows, got %d rows", phase, c.q, len(e), len(g))
					break
				}
			}
		}
	}
	check("before statistics")
	concurrency.NewStatisticsUpdater(db.GetSamehadaInstance().GetTransactionManager(), db.GetCatalogForTesting()).UpdateAllTablesStatistics()
	check("after statistics")
}
