package probe

// C12 ("no call blocks forever"): RequestManager.Run is the only receiver of the wake-up/result channel
// (capacity 100) and answers callers on an unbuffered per-request channel. A caller which has queued its
// request but is still blocked on the (full) wake-up channel is not receiving yet; when its result arrives
// Run blocks on the reply, nobody drains the wake-up channel any more, and every ExecuteSQL call hangs.
// Needs more than 100 callers at once.
import (
	"fmt"
	"os"
	"sync"
	"testing"
	"time"

	"github.com/ryogrid/SamehadaDB/lib/common"
	"github.com/ryogrid/SamehadaDB/lib/samehada"
)

func TestC12ManyConcurrentCallersAllReturn(t *testing.T) {
	common.TempSuppressOnMemStorageMutex.Lock()
	defer common.TempSuppressOnMemStorageMutex.Unlock()
	common.TempSuppressOnMemStorage = true
	defer func() { common.TempSuppressOnMemStorage = false }()
	os.Remove(t.Name() + ".db")
	os.Remove(t.Name() + ".log")
	db := samehada.NewSamehadaDB(t.Name(), 500)
	db.ExecuteSQL("CREATE TABLE t1(a int, b int);")
	for i := 0; i < 20; i++ {
		db.ExecuteSQL(fmt.Sprintf("INSERT INTO t1(a, b) VALUES (%d, %d);", i, i))
	}
	for round := 0; round < 60; round++ {
		n := 9000
		var wg sync.WaitGroup
		wg.Add(n)
		for i := 0; i < n; i++ {
			go func(i int) {
				defer wg.Done()
				db.ExecuteSQL(fmt.Sprintf("SELECT b FROM t1 WHERE a = %d;", i%20))
			}(i)
		}
		done := make(chan struct{})
		go func() { wg.Wait(); close(done) }()
		select {
		case <-done:
		case <-time.After(90 * time.Second):
			t.Fatalf("round %d: %d concurrent ExecuteSQL calls did not all return within 90 s", round, n)
		}
	}
	db.Shutdown()
	os.Remove(t.Name() + ".db")
	os.Remove(t.Name() + ".log")
}
