package probe

// C01-R7 / C13-R4 reproduction: BufferPoolManager.FetchPage returns with b.mutex locked when
// DiskManager.ReadPage fails with a generic error (e.g. a page id past the end of the data file, as
// met by redo of a NewTablePage record for a page that never reached the file). Every later pool
// call then blocks forever, so restart cannot complete.
import (
	"os"
	"testing"
	"time"

	"github.com/ryogrid/SamehadaDB/lib/common"
	"github.com/ryogrid/SamehadaDB/lib/recovery"
	"github.com/ryogrid/SamehadaDB/lib/storage/buffer"
	"github.com/ryogrid/SamehadaDB/lib/storage/disk"
	"github.com/ryogrid/SamehadaDB/lib/types"
)

func TestC01FetchPageErrorKeepsMutex(t *testing.T) {
	common.TempSuppressOnMemStorageMutex.Lock()
	defer common.TempSuppressOnMemStorageMutex.Unlock()
	common.TempSuppressOnMemStorage = true
	defer func() { common.TempSuppressOnMemStorage = false }()
	os.Remove(t.Name() + ".db")
	os.Remove(t.Name() + ".log")
	var dm disk.DiskManager = disk.NewDiskManagerImpl(t.Name() + ".db")
	bpm := buffer.NewBufferPoolManager(8, dm, recovery.NewLogManager(&dm))
	if pg := bpm.FetchPage(types.PageID(1000)); pg != nil {
		t.Fatal("page past EOF unexpectedly readable")
	}
	done := make(chan bool)
	go func() { bpm.NewPage(); done <- true }()
	select {
	case <-done:
	case <-time.After(3 * time.Second):
		t.Fatal("buffer pool is wedged: NewPage blocks forever after a failed FetchPage (mutex never released)")
	}
	dm.ShutDown()
	os.Remove(t.Name() + ".db")
	os.Remove(t.Name() + ".log")
}
