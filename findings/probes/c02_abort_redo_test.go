package probe

// C02-R1 reproduction: a transaction that was ABORTED before the crash is undone a second time by
// recovery because Redo has no ABORT case. History: T1 inserts a row and aborts (slot freed), T2
// inserts a row (reuses the slot) and commits, crash, Redo+Undo. Expected: T2's row present, T1's absent.
import (
	"math"
	"os"
	"testing"

	"github.com/ryogrid/SamehadaDB/lib/common"
	"github.com/ryogrid/SamehadaDB/lib/recovery/log_recovery"
	"github.com/ryogrid/SamehadaDB/lib/samehada"
	"github.com/ryogrid/SamehadaDB/lib/storage/access"
	"github.com/ryogrid/SamehadaDB/lib/storage/index/index_constants"
	"github.com/ryogrid/SamehadaDB/lib/storage/table/column"
	"github.com/ryogrid/SamehadaDB/lib/storage/table/schema"
	"github.com/ryogrid/SamehadaDB/lib/storage/tuple"
	"github.com/ryogrid/SamehadaDB/lib/types"
)

func TestC02AbortThenRedo(t *testing.T) {
	common.TempSuppressOnMemStorageMutex.Lock()
	defer common.TempSuppressOnMemStorageMutex.Unlock()
	common.TempSuppressOnMemStorage = true
	defer func() { common.TempSuppressOnMemStorage = false }()
	os.Remove(t.Name() + ".db")
	os.Remove(t.Name() + ".log")
	si := samehada.NewSamehadaInstance(t.Name(), 32)
	si.GetLogManager().ActivateLogging()
	col1 := column.NewColumn("a", types.Integer, false, index_constants.IndexKindInvalid, types.PageID(-1), nil)
	col2 := column.NewColumn("b", types.Integer, false, index_constants.IndexKindInvalid, types.PageID(-1), nil)
	sc := schema.NewSchema([]*column.Column{col1, col2})
	mk := func(a, b int32) *tuple.Tuple {
		return tuple.NewTupleFromSchema([]types.Value{types.NewInteger(a), types.NewInteger(b)}, sc)
	}
	t0 := si.GetTransactionManager().Begin(nil)
	tbl := access.NewTableHeap(si.GetBufferPoolManager(), si.GetLogManager(), si.GetLockManager(), t0)
	first := tbl.GetFirstPageID()
	if _, err := tbl.InsertTuple(mk(1, 1), t0, math.MaxUint32, false); err != nil {
		t.Fatal(err)
	}
	si.GetTransactionManager().Commit(nil, t0)

	t1 := si.GetTransactionManager().Begin(nil)
	ridAborted, _ := tbl.InsertTuple(mk(666, 666), t1, math.MaxUint32, false)
	si.GetTransactionManager().Abort(nil, t1)

	t2 := si.GetTransactionManager().Begin(nil)
	ridCommitted, _ := tbl.InsertTuple(mk(2, 2), t2, math.MaxUint32, false)
	si.GetTransactionManager().Commit(nil, t2)
	t.Logf("aborted rid %v committed rid %v", *ridAborted, *ridCommitted)
	si.CloseFilesForTesting() // crash: nothing but the log reached the disk

	si = samehada.NewSamehadaInstance(t.Name(), 32)
	si.GetLogManager().DeactivateLogging()
	rt := si.GetTransactionManager().Begin(nil)
	rt.SetIsRecoveryPhase(true)
	lr := log_recovery.NewLogRecovery(si.GetDiskManager(), si.GetBufferPoolManager(), si.GetLogManager())
	lr.Redo(rt)
	lr.Undo(rt)
	tbl = access.InitTableHeap(si.GetBufferPoolManager(), first, si.GetLogManager(), si.GetLockManager())
	var got []int32
	for it := tbl.Iterator(rt); !it.End(); it.Next() {
		got = append(got, it.Current().GetValue(sc, 0).ToInteger())
	}
	si.Shutdown(samehada.ShutdownPatternRemoveFiles)
	t.Logf("rows after recovery: %v", got)
	has := func(v int32) bool {
		for _, x := range got {
			if x == v {
				return true
			}
		}
		return false
	}
	if !has(1) || !has(2) || has(666) || len(got) != 2 {
		t.Fatalf("after recovery the table must hold exactly the committed rows {1,2}; got %v", got)
	}
}
