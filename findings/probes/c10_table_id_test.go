package probe

// C10-R1: after a restart the table-id counter restarts at 1, so the first CREATE TABLE re-uses the
// id of an existing user table and replaces it in the id map: scans of the old table return nothing.
// C10-R2: CreateTable reads the counter with a plain load before the atomic add: concurrent
// CREATE TABLEs can obtain the same id.
import (
	"os"
	"sync"
	"testing"

	"github.com/ryogrid/SamehadaDB/lib/common"
	"github.com/ryogrid/SamehadaDB/lib/samehada"
	"github.com/ryogrid/SamehadaDB/lib/storage/index/index_constants"
	"github.com/ryogrid/SamehadaDB/lib/storage/table/column"
	"github.com/ryogrid/SamehadaDB/lib/storage/table/schema"
	"github.com/ryogrid/SamehadaDB/lib/types"
)

func TestC10CreateTableAfterRestart(t *testing.T) {
	common.TempSuppressOnMemStorageMutex.Lock()
	defer common.TempSuppressOnMemStorageMutex.Unlock()
	common.TempSuppressOnMemStorage = true
	defer func() { common.TempSuppressOnMemStorage = false }()
	os.Remove(t.Name() + ".db")
	os.Remove(t.Name() + ".log")
	db := samehada.NewSamehadaDB(t.Name(), 200)
	db.ExecuteSQL("CREATE TABLE t1(a int, b int);")
	db.ExecuteSQL("INSERT INTO t1(a, b) VALUES (1, 10);")
	db.ExecuteSQL("INSERT INTO t1(a, b) VALUES (2, 20);")
	db.ShutdownForTescase()
	db = samehada.NewSamehadaDB(t.Name(), 200)
	_, r1 := db.ExecuteSQL("SELECT a FROM t1 WHERE b >= 0 OR b < 0;")
	db.ExecuteSQL("CREATE TABLE t2(c int, d int);")
	db.ExecuteSQL("INSERT INTO t2(c, d) VALUES (7, 70);")
	_, r2 := db.ExecuteSQL("SELECT a FROM t1 WHERE b >= 0 OR b < 0;")
	db.Shutdown()
	os.Remove(t.Name() + ".db")
	os.Remove(t.Name() + ".log")
	t.Logf("t1 after restart: %v; t1 after CREATE TABLE t2: %v", r1, r2)
	if len(r1) != 2 || len(r2) != 2 {
		t.Fatalf("table t1 lost its rows when another table was created after a restart: %v -> %v", r1, r2)
	}
}

func TestC10ConcurrentCreateTableIDs(t *testing.T) {
	common.TempSuppressOnMemStorageMutex.Lock()
	defer common.TempSuppressOnMemStorageMutex.Unlock()
	common.TempSuppressOnMemStorage = true
	defer func() { common.TempSuppressOnMemStorage = false }()
	os.Remove(t.Name() + ".db")
	os.Remove(t.Name() + ".log")
	db := samehada.NewSamehadaDB(t.Name(), 4000)
	cat := db.GetCatalogForTesting()
	tm := db.GetSamehadaInstance().GetTransactionManager()
	dup := ""
	for round := 0; round < 60 && dup == ""; round++ {
		var wg sync.WaitGroup
		ids := make([]uint32, 8)
		for g := 0; g < 8; g++ {
			wg.Add(1)
			go func(g int) {
				defer wg.Done()
				txn := tm.Begin(nil)
				col := column.NewColumn("a", types.Integer, false, index_constants.IndexKindInvalid, types.PageID(-1), nil)
				md := cat.CreateTable("r"+itoa(round)+"g"+itoa(g), schema.NewSchema([]*column.Column{col}), txn)
				ids[g] = md.OID()
				tm.Commit(cat, txn)
			}(g)
		}
		wg.Wait()
		seen := map[uint32]int{}
		for g, id := range ids {
			if o, ok := seen[id]; ok {
				dup = "round " + itoa(round) + ": goroutines " + itoa(o) + " and " + itoa(g) + " both got table id " + itoa(int(id))
			}
			seen[id] = g
		}
	}
	db.ShutdownForTescase()
	os.Remove(t.Name() + ".db")
	os.Remove(t.Name() + ".log")
	if dup != "" {
		t.Fatal("two tables share an identifier: " + dup)
	}
}
