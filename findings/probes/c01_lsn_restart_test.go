package probe

// C01 (LSN continuity): NewSamehadaDB restores the LSN counter from the greatest LSN found in the
// log, then truncates the log. If the next start finds a log without any numbered record (nothing was
// written in between), the counter restarts at 1 while heap pages on disk carry large LSNs: records of
// later committed transactions get small LSNs and Redo skips them (page LSN >= record LSN) after a crash.
import (
	"os"
	"testing"

	"github.com/ryogrid/SamehadaDB/lib/common"
	"github.com/ryogrid/SamehadaDB/lib/samehada"
)

func TestC01LSNCounterSurvivesIdleRestart(t *testing.T) {
	common.TempSuppressOnMemStorageMutex.Lock()
	defer common.TempSuppressOnMemStorageMutex.Unlock()
	common.TempSuppressOnMemStorage = true
	defer func() { common.TempSuppressOnMemStorage = false }()
	os.Remove(t.Name() + ".db")
	os.Remove(t.Name() + ".log")
	db := samehada.NewSamehadaDB(t.Name(), 400)
	db.ExecuteSQL("CREATE TABLE t1(a int, b int);")
	for i := 1; i <= 30; i++ {
		db.ExecuteSQL("INSERT INTO t1(a, b) VALUES (" + itoa(i) + ", " + itoa(i) + ");")
	}
	db.Shutdown() // pages on disk now carry LSNs around 100
	// two starts with nothing written in between: the second one reads a log without numbered records
	db = samehada.NewSamehadaDB(t.Name(), 400)
	db.ShutdownForTescase()
	db = samehada.NewSamehadaDB(t.Name(), 400)
	db.ExecuteSQL("INSERT INTO t1(a, b) VALUES (1000, 1000);") // committed
	db.ShutdownForTescase()                                    // crash: only the log has it
	db = samehada.NewSamehadaDB(t.Name(), 400)
	_, rows := db.ExecuteSQL("SELECT a FROM t1 WHERE a = 1000 OR a = 1000;")
	_, all := db.ExecuteSQL("SELECT a FROM t1 WHERE a >= 0 OR a < 0;")
	db.Shutdown()
	os.Remove(t.Name() + ".db")
	os.Remove(t.Name() + ".log")
	t.Logf("row 1000 after crash recovery: %v (table has %d rows)", rows, len(all))
	if len(rows) != 1 || len(all) != 31 {
		t.Fatalf("committed insert lost after crash: the LSN counter restarted below the LSNs already on the pages (got %v, %d rows)", rows, len(all))
	}
}
