package probe

// C04 (own writes): RangeScanWithIndexExecutor.Next skipped a row deleted by the same transaction with
// `continue` but kept the (empty) tuple in its loop variable; when that row was the last entry of the
// range the loop ended and the empty tuple was projected: index out of range panic (or a garbage row).
import (
	"os"
	"testing"

	"github.com/ryogrid/SamehadaDB/lib/common"
	"github.com/ryogrid/SamehadaDB/lib/execution/executors"
	"github.com/ryogrid/SamehadaDB/lib/parser"
	"github.com/ryogrid/SamehadaDB/lib/planner"
	"github.com/ryogrid/SamehadaDB/lib/planner/optimizer"
	"github.com/ryogrid/SamehadaDB/lib/samehada"
	"github.com/ryogrid/SamehadaDB/lib/storage/access"
)

func TestC04RangeScanAfterOwnDeleteOfLastKey(t *testing.T) {
	common.TempSuppressOnMemStorageMutex.Lock()
	defer common.TempSuppressOnMemStorageMutex.Unlock()
	common.TempSuppressOnMemStorage = true
	defer func() { common.TempSuppressOnMemStorage = false }()
	os.Remove(t.Name() + ".db")
	os.Remove(t.Name() + ".log")
	db := samehada.NewSamehadaDB(t.Name(), 400)
	defer func() { db.ShutdownForTescase(); os.Remove(t.Name() + ".db"); os.Remove(t.Name() + ".log") }()
	db.ExecuteSQL("CREATE TABLE t1(a int, b int);")
	for i := 1; i <= 5; i++ {
		db.ExecuteSQL("INSERT INTO t1(a, b) VALUES (" + itoa(i) + ", " + itoa(i*10) + ");")
	}
	shi := db.GetSamehadaInstance()
	cat := db.GetCatalogForTesting()
	txn := shi.GetTransactionManager().Begin(nil)
	run := func(sql string) (n int, panicked interface{}) {
		defer func() { panicked = recover() }()
		qi, err := parser.ProcessSQLStr(&sql)
		if err != nil {
			t.Fatal(err)
		}
		qi, _ = optimizer.RewriteQueryInfo(cat, qi)
		_, plan := planner.NewSimplePlanner(cat, shi.GetBufferPoolManager()).MakePlan(qi, txn)
		ctx := executors.NewExecutorContext(cat, shi.GetBufferPoolManager(), txn)
		rows := (&executors.ExecutionEngine{}).Execute(plan, ctx)
		return len(rows), nil
	}
	if n, p := run("DELETE FROM t1 WHERE a = 5;"); p != nil || n != 1 {
		t.Fatalf("delete: n=%d panic=%v", n, p)
	}
	n, p := run("SELECT a FROM t1 WHERE a >= 3 AND a <= 5;")
	st := txn.GetState()
	shi.GetTransactionManager().Abort(cat, txn)
	if p != nil {
		t.Fatalf("range scan in the transaction that deleted the last key of the range panicked: %v", p)
	}
	if st == access.ABORTED || n != 2 {
		t.Fatalf("own delete must be visible to the deleting transaction: got %d rows (want 2: a=3,4), state=%v", n, st)
	}
}
