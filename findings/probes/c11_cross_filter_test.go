package probe

import (
	"fmt"
	"sort"
	"strings"
	"testing"

	"github.com/ryogrid/SamehadaDB/lib/samehada"
)

func TestC11CrossTableNonEquiFilter(t *testing.T) {
	db := samehada.NewSamehadaDB(t.Name(), 500)
	defer db.Shutdown()
	db.ExecuteSQL("CREATE TABLE member(grp INT, lim INT);")
	db.ExecuteSQL("CREATE TABLE item(grp INT, shelf INT);")
	type m struct{ grp, lim int }
	type it struct{ grp, shelf int }
	members := []m{{1, 2}, {2, 1}, {3, 3}, {2, 3}}
	var items []it
	for i := 0; i < 24; i++ {
		items = append(items, it{(i * 5) % 7, i % 4})
	}
	for _, r := range members {
		db.ExecuteSQL(fmt.Sprintf("INSERT INTO member(grp, lim) VALUES (%d, %d);", r.grp, r.lim))
	}
	for _, r := range items {
		db.ExecuteSQL(fmt.Sprintf("INSERT INTO item(grp, shelf) VALUES (%d, %d);", r.grp, r.shelf))
	}
	q := "SELECT member.grp, member.lim, item.shelf FROM member JOIN item ON member.grp = item.grp WHERE item.shelf < member.lim;"
	err, got := db.ExecuteSQL(q)
	if err != nil {
		t.Fatal(err)
	}
	var want []string
	for _, a := range members {
		for _, b := range items {
			if a.grp == b.grp && b.shelf < a.lim {
				want = append(want, fmt.Sprintf("%d|%d|%d", a.grp, a.lim, b.shelf))
			}
		}
	}
	sort.Strings(want)
	g := rowsToStrs(got)
	if strings.Join(g, ",") != strings.Join(want, ",") {
		t.Fatalf("%s\n want %d rows %v\n got %d rows %v", q, len(want), want, len(g), g)
	}
}
