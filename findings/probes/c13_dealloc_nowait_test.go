package probe

// C13-R3 reproduction: DeallocatePage(id, isNoWait=true) removes the page-table entry and recycles the
// id while the page still sits in its frame (here: unpinned, in the replacer). The id is handed out
// again by NewPage into a second frame; when the orphaned frame is later evicted its stale bytes are
// written over the new owner's data and the new owner's mapping is deleted.
import (
	"os"
	"testing"

	"github.com/ryogrid/SamehadaDB/lib/common"
	"github.com/ryogrid/SamehadaDB/lib/recovery"
	"github.com/ryogrid/SamehadaDB/lib/storage/buffer"
	"github.com/ryogrid/SamehadaDB/lib/storage/disk"
)

func TestC13DeallocNoWaitThenReuse(t *testing.T) {
	common.TempSuppressOnMemStorageMutex.Lock()
	defer common.TempSuppressOnMemStorageMutex.Unlock()
	common.TempSuppressOnMemStorage = true
	defer func() { common.TempSuppressOnMemStorage = false }()
	os.Remove(t.Name() + ".db")
	os.Remove(t.Name() + ".log")
	var dm disk.DiskManager = disk.NewDiskManagerImpl(t.Name() + ".db")
	lm := recovery.NewLogManager(&dm)
	bpm := buffer.NewBufferPoolManager(3, dm, lm)
	p := bpm.NewPage()
	x := p.GetPageID()
	copy(p.Data()[100:], []byte("AAAA"))
	bpm.UnpinPage(x, true)
	bpm.DeallocatePage(x, true)
	// the id must not be handed out while its old frame is still alive; allocate until X comes back (or give up)
	var q = bpm.NewPage()
	for i := 0; i < 2 && q.GetPageID() != x; i++ {
		bpm.UnpinPage(q.GetPageID(), false)
		q = bpm.NewPage()
	}
	if q.GetPageID() != x {
		t.Skip("id not recycled yet (lazy recycling): nothing to observe")
	}
	copy(q.Data()[100:], []byte("BBBB"))
	bpm.UnpinPage(x, true)
	// after every further allocation the pool must still return the latest bytes of page X
	s := "BBBB"
	for i := 0; i < 6 && s == "BBBB"; i++ {
		n := bpm.NewPage()
		bpm.UnpinPage(n.GetPageID(), false)
		got := bpm.FetchPage(x)
		if got == nil {
			t.Fatal("page " + itoa(int(x)) + " not fetchable")
		}
		s = string(got.Data()[100:104])
		bpm.UnpinPage(x, false)
	}
	dm.ShutDown()
	os.Remove(t.Name() + ".db")
	os.Remove(t.Name() + ".log")
	if s != "BBBB" {
		t.Fatalf("page %d: last bytes written through the pool were BBBB, FetchPage returned %q", x, s)
	}
}
