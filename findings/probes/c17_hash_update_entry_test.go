package probe

// C17-R1: LinearProbeHashTableIndex.UpdateEntry panicked ("not implemented yet") on the pinned tree. Any
// update of a column indexed with the hash kind, and any rollback of such an update
// (TransactionManager.Abort calls Index.UpdateEntry), killed the process.
import (
	"os"
	"testing"

	"github.com/ryogrid/SamehadaDB/lib/common"
	"github.com/ryogrid/SamehadaDB/lib/recovery"
	"github.com/ryogrid/SamehadaDB/lib/storage/buffer"
	"github.com/ryogrid/SamehadaDB/lib/storage/disk"
	"github.com/ryogrid/SamehadaDB/lib/storage/index"
	"github.com/ryogrid/SamehadaDB/lib/storage/index/index_constants"
	"github.com/ryogrid/SamehadaDB/lib/storage/page"
	"github.com/ryogrid/SamehadaDB/lib/storage/table/column"
	"github.com/ryogrid/SamehadaDB/lib/storage/table/schema"
	"github.com/ryogrid/SamehadaDB/lib/storage/tuple"
	"github.com/ryogrid/SamehadaDB/lib/types"
)

func TestC17HashIndexUpdateEntry(t *testing.T) {
	common.TempSuppressOnMemStorageMutex.Lock()
	defer common.TempSuppressOnMemStorageMutex.Unlock()
	common.TempSuppressOnMemStorage = true
	defer func() { common.TempSuppressOnMemStorage = false }()
	os.Remove(t.Name() + ".db")
	os.Remove(t.Name() + ".log")
	var dm disk.DiskManager = disk.NewDiskManagerImpl(t.Name() + ".db")
	defer func() { dm.ShutDown(); os.Remove(t.Name() + ".db"); os.Remove(t.Name() + ".log") }()
	bpm := buffer.NewBufferPoolManager(32, dm, recovery.NewLogManager(&dm))
	col := column.NewColumn("a", types.Integer, true, index_constants.IndexKindHash, types.PageID(-1), nil)
	sc := schema.NewSchema([]*column.Column{col})
	im := index.NewIndexMetadata("a_index", "t", sc, []uint32{0})
	var idx index.Index = index.NewLinearProbeHashTableIndex(im, bpm, 0, 16, types.PageID(-1))
	oldT := tuple.NewTupleFromSchema([]types.Value{types.NewInteger(1)}, sc)
	newT := tuple.NewTupleFromSchema([]types.Value{types.NewInteger(2)}, sc)
	rid := page.RID{}
	rid.Set(3, 4)
	idx.InsertEntry(oldT, rid, nil)
	defer func() {
		if e := recover(); e != nil {
			t.Fatalf("UpdateEntry of the hash index panicked: %v", e)
		}
	}()
	idx.UpdateEntry(oldT, rid, newT, rid, nil)
	if got := idx.ScanKey(newT, nil); len(got) != 1 || got[0] != rid {
		t.Fatalf("after UpdateEntry the new key maps to %v", got)
	}
	if got := idx.ScanKey(oldT, nil); len(got) != 0 {
		t.Fatalf("after UpdateEntry the old key still maps to %v", got)
	}
	rid2 := page.RID{}
	rid2.Set(5, 6)
	idx.UpdateEntry(newT, rid, newT, rid2, nil) // row moved, key unchanged
	if got := idx.ScanKey(newT, nil); len(got) != 1 || got[0] != rid2 {
		t.Fatalf("after the row moved the key maps to %v, want %v", got, rid2)
	}
}
