package probe

// C08-R1 reproductions: a heap page is handed to DiskManager.WritePage while the log record that
// stamped it is still in the in-memory log buffer. Observed with a recording DiskManager wrapper
// built from the exported constructors (no hooks).
//   (a) CheckpointManager.BeginCheckpoint flushed dirty pages before forcing the log;
//   (b) access.NewTableHeap flushes the freshly initialised first page right after logging
//       NewTablePage without forcing the log.
import (
	"encoding/binary"
	"math"
	"os"
	"testing"

	"github.com/ryogrid/SamehadaDB/lib/common"
	"github.com/ryogrid/SamehadaDB/lib/concurrency"
	"github.com/ryogrid/SamehadaDB/lib/recovery"
	"github.com/ryogrid/SamehadaDB/lib/storage/access"
	"github.com/ryogrid/SamehadaDB/lib/storage/buffer"
	"github.com/ryogrid/SamehadaDB/lib/storage/disk"
	"github.com/ryogrid/SamehadaDB/lib/storage/index/index_constants"
	"github.com/ryogrid/SamehadaDB/lib/storage/table/column"
	"github.com/ryogrid/SamehadaDB/lib/storage/table/schema"
	"github.com/ryogrid/SamehadaDB/lib/storage/tuple"
	"github.com/ryogrid/SamehadaDB/lib/types"
)

type recDM struct {
	disk.DiskManager
	durableLSN int32
	bad        []string
	t          *testing.T
}

func (d *recDM) WriteLog(b []byte) error {
	for off := 0; off+20 <= len(b); {
		size := int(binary.LittleEndian.Uint32(b[off:]))
		lsn := int32(binary.LittleEndian.Uint32(b[off+4:]))
		if size <= 0 {
			break
		}
		if lsn > d.durableLSN {
			d.durableLSN = lsn
		}
		off += size
	}
	return d.DiskManager.WriteLog(b)
}

func (d *recDM) WritePage(id types.PageID, b []byte) error {
	pageLSN := int32(binary.LittleEndian.Uint32(b[4:8]))
	if pageLSN > d.durableLSN {
		d.bad = append(d.bad, "WritePage(page "+itoa(int(id))+") carries LSN "+itoa(int(pageLSN))+" but the log is durable only up to LSN "+itoa(int(d.durableLSN)))
	}
	return d.DiskManager.WritePage(id, b)
}

func itoa(i int) string {
	s := ""
	neg := i < 0
	if neg {
		i = -i
	}
	if i == 0 {
		s = "0"
	}
	for i > 0 {
		s = string(rune('0'+i%10)) + s
		i /= 10
	}
	if neg {
		s = "-" + s
	}
	return s
}

func setup(t *testing.T) (*recDM, *recovery.LogManager, *buffer.BufferPoolManager, *access.LockManager, *access.TransactionManager) {
	common.TempSuppressOnMemStorage = true
	os.Remove(t.Name() + ".db")
	os.Remove(t.Name() + ".log")
	rd := &recDM{DiskManager: disk.NewDiskManagerImpl(t.Name() + ".db"), durableLSN: -1, t: t}
	var dm disk.DiskManager = rd
	lm := recovery.NewLogManager(&dm)
	lm.ActivateLogging()
	bpm := buffer.NewBufferPoolManager(32, dm, lm)
	lk := access.NewLockManager(access.STRICT, access.SS2PLMode)
	tm := access.NewTransactionManager(lk, lm)
	return rd, lm, bpm, lk, tm
}

func teardown(t *testing.T, rd *recDM) {
	rd.DiskManager.ShutDown()
	os.Remove(t.Name() + ".db")
	os.Remove(t.Name() + ".log")
	common.TempSuppressOnMemStorage = false
}

func TestC08CheckpointWritesPagesBeforeLog(t *testing.T) {
	common.TempSuppressOnMemStorageMutex.Lock()
	defer common.TempSuppressOnMemStorageMutex.Unlock()
	rd, lm, bpm, lk, tm := setup(t)
	defer teardown(t, rd)
	col := column.NewColumn("a", types.Integer, false, index_constants.IndexKindInvalid, types.PageID(-1), nil)
	sc := schema.NewSchema([]*column.Column{col})
	t0 := tm.Begin(nil)
	tbl := access.NewTableHeap(bpm, lm, lk, t0)
	tbl.InsertTuple(tuple.NewTupleFromSchema([]types.Value{types.NewInteger(1)}, sc), t0, math.MaxUint32, false)
	tm.Commit(nil, t0) // forces the log
	rd.bad = nil       // (b) is a separate finding; only the checkpoint is observed here
	t1 := tm.Begin(nil)
	tbl.InsertTuple(tuple.NewTupleFromSchema([]types.Value{types.NewInteger(2)}, sc), t1, math.MaxUint32, false)
	tm.Abort(nil, t1) // rollback is logged but not forced
	cp := concurrency.NewCheckpointManager(tm, lm, bpm)
	cp.BeginCheckpoint()
	cp.EndCheckpoint()
	if len(rd.bad) > 0 {
		t.Fatalf("write-ahead rule broken during checkpoint: %v", rd.bad)
	}
}

func TestC08NewTableHeapFlushesPageBeforeLog(t *testing.T) {
	common.TempSuppressOnMemStorageMutex.Lock()
	defer common.TempSuppressOnMemStorageMutex.Unlock()
	rd, lm, bpm, lk, tm := setup(t)
	defer teardown(t, rd)
	t0 := tm.Begin(nil)
	access.NewTableHeap(bpm, lm, lk, t0) // first page of a new user table, created with logging on
	bad := append([]string{}, rd.bad...)
	tm.Commit(nil, t0)
	if len(bad) > 0 {
		t.Fatalf("write-ahead rule broken by NewTableHeap: %v", bad)
	}
}
