package probe

// C01 / C20: a committed transaction makes a table heap grow by pages that are never written before a
// crash (they live in the pool only; their NewTablePage and INSERT records are in the log).
// Restart must redo them. On the pinned tree Redo fetches the page from the data file, the file is too
// short, FetchPage returns nil and recovery panics: the database cannot be opened any more.
import (
	"fmt"
	"os"
	"testing"

	"github.com/ryogrid/SamehadaDB/lib/common"
	"github.com/ryogrid/SamehadaDB/lib/samehada"
)

func TestC01HeapGrowthThenCrash(t *testing.T) {
	common.TempSuppressOnMemStorageMutex.Lock()
	defer common.TempSuppressOnMemStorageMutex.Unlock()
	common.TempSuppressOnMemStorage = true
	defer func() { common.TempSuppressOnMemStorage = false }()
	os.Remove(t.Name() + ".db")
	os.Remove(t.Name() + ".log")
	db := samehada.NewSamehadaDB(t.Name(), 200)
	db.ExecuteSQL("CREATE TABLE t1(a int, b varchar(100));")
	n := 400
	for i := 0; i < n; i++ {
		err, _ := db.ExecuteSQL(fmt.Sprintf("INSERT INTO t1(a, b) VALUES (%d, 'xxxxxxxxxxxxxxxxxxxxxxxxxxxxxxxxxxxxxxxxxxxxxxxxxxxxxxxxxxxx%d');", i, i))
		if err != nil {
			t.Fatal(err)
		}
	}
	db.ShutdownForTescase() // crash: nothing is flushed but the log

	db2 := samehada.NewSamehadaDB(t.Name(), 200)
	_, rows := db2.ExecuteSQL("SELECT a FROM t1 WHERE a >= 0 OR a < 0;")
	db2.Shutdown()
	os.Remove(t.Name() + ".db")
	os.Remove(t.Name() + ".log")
	if len(rows) != n {
		t.Fatalf("after the crash %d of %d committed rows are visible", len(rows), n)
	}
}

func countRows(db *samehada.SamehadaDB) int {
	_, rows := db.ExecuteSQL("SELECT a FROM t1 WHERE a >= 0 OR a < 0;")
	return len(rows)
}

// after the recovery above, page ids of the rebuilt pages must not be handed out again, and the
// whole thing must be repeatable (crash, grow, crash, grow, clean restart)
func TestC01HeapGrowthCrashRepeated(t *testing.T) {
	common.TempSuppressOnMemStorageMutex.Lock()
	defer common.TempSuppressOnMemStorageMutex.Unlock()
	common.TempSuppressOnMemStorage = true
	defer func() { common.TempSuppressOnMemStorage = false }()
	os.Remove(t.Name() + ".db")
	os.Remove(t.Name() + ".log")
	db := samehada.NewSamehadaDB(t.Name(), 200)
	db.ExecuteSQL("CREATE TABLE t1(a int, b varchar(100));")
	total := 0
	ins := func(db *samehada.SamehadaDB, n int) {
		for i := 0; i < n; i++ {
			err, _ := db.ExecuteSQL(fmt.Sprintf("INSERT INTO t1(a, b) VALUES (%d, 'xxxxxxxxxxxxxxxxxxxxxxxxxxxxxxxxxxxxxxxxxxxxxxxxxxxxxxxxxxxx%d');", total, total))
			if err != nil {
				t.Fatal(err)
			}
			total++
		}
	}
	ins(db, 300)
	for round := 0; round < 3; round++ {
		db.ShutdownForTescase() // crash
		db = samehada.NewSamehadaDB(t.Name(), 200)
		if got := countRows(db); got != total {
			t.Fatalf("round %d: after the crash %d of %d committed rows are visible", round, got, total)
		}
		db.ExecuteSQL(fmt.Sprintf("CREATE TABLE u%d(a int);", round)) // allocates fresh pages
		ins(db, 300)
		if got := countRows(db); got != total {
			t.Fatalf("round %d: after growing %d of %d rows are visible", round, got, total)
		}
	}
	db.Shutdown() // clean
	db = samehada.NewSamehadaDB(t.Name(), 200)
	got := countRows(db)
	for round := 0; round < 3; round++ {
		err, _ := db.ExecuteSQL(fmt.Sprintf("SELECT a FROM u%d WHERE a >= 0 OR a < 0;", round))
		if err != nil {
			t.Fatalf("table u%d: %v", round, err)
		}
	}
	db.Shutdown()
	os.Remove(t.Name() + ".db")
	os.Remove(t.Name() + ".log")
	if got != total {
		t.Fatalf("after the clean restart %d of %d committed rows are visible", got, total)
	}
}
