package probe

import (
	"fmt"
	"sort"
	"strings"
	"testing"

	"github.com/ryogrid/SamehadaDB/lib/samehada"
)

func rowsOf(res [][]interface{}) []string {
	var out []string
	for _, r := range res {
		var fs []string
		for _, v := range r {
			if v == nil {
				fs = append(fs, "NULL")
			} else {
				fs = append(fs, fmt.Sprint(v))
			}
		}
		out = append(out, strings.Join(fs, "|"))
	}
	sort.Strings(out)
	return out
}

func TestC11ThreeWayJoinTwoOnClauses(t *testing.T) {
	db := samehada.NewSamehadaDB(t.Name(), 4000)
	defer db.Shutdown()
	db.ExecuteSQL("CREATE TABLE ta(x int, p int);")
	db.ExecuteSQL("CREATE TABLE tb(x int, y int);")
	db.ExecuteSQL("CREATE TABLE tc(y int, q int);")
	for i := 1; i <= 4; i++ {
		db.ExecuteSQL(fmt.Sprintf("INSERT INTO ta(x, p) VALUES (%d, %d);", i, 100+i))
		db.ExecuteSQL(fmt.Sprintf("INSERT INTO tb(x, y) VALUES (%d, %d);", i, 10*i))
		db.ExecuteSQL(fmt.Sprintf("INSERT INTO tc(y, q) VALUES (%d, %d);", 10*i, 1000+i))
	}
	err, res := db.ExecuteSQL("SELECT ta.p, tc.q FROM ta JOIN tb ON ta.x = tb.x JOIN tc ON tb.y = tc.y;")
	t.Logf("err=%v rows=%v", err, rowsOf(res))
	want := []string{"101|1001", "102|1002", "103|1003", "104|1004"}
	if fmt.Sprint(rowsOf(res)) != fmt.Sprint(want) {
		t.Errorf("three-way join: got %v want %v", rowsOf(res), want)
	}
	err, res = db.ExecuteSQL("SELECT ta.p, tc.q FROM ta, tb, tc WHERE ta.x = tb.x AND tb.y = tc.y;")
	t.Logf("where-form err=%v rows=%v", err, rowsOf(res))
}

func TestC06IsNull(t *testing.T) {
	db := samehada.NewSamehadaDB(t.Name(), 4000)
	defer db.Shutdown()
	db.ExecuteSQL("CREATE TABLE tn(a int, b int);")
	db.ExecuteSQL("INSERT INTO tn(a, b) VALUES (1, 10);")
	db.ExecuteSQL("INSERT INTO tn(a, b) VALUES (2, NULL);")
	db.ExecuteSQL("INSERT INTO tn(a, b) VALUES (3, 30);")
	err, res := db.ExecuteSQL("SELECT a FROM tn WHERE b IS NULL;")
	t.Logf("IS NULL: err=%v rows=%v", err, rowsOf(res))
	err, res = db.ExecuteSQL("SELECT a FROM tn WHERE b IS NOT NULL;")
	t.Logf("IS NOT NULL: err=%v rows=%v", err, rowsOf(res))
	err, res = db.ExecuteSQL("SELECT a FROM tn WHERE b = NULL;")
	t.Logf("= NULL: err=%v rows=%v", err, rowsOf(res))
}
