package probe

// C20-R2 reproduction: NewSamehadaDB used to delete the log (GCLogFile) before the pages recovered by
// Redo/Undo were flushed. A crash between the two lost committed work for good.
// The first restart is replayed here statement by statement and is cut right after GCLogFile.
// A replay cannot follow the source, so the statement order is chosen here: by default the order
// of the repaired NewSamehadaDB (Redo, Undo, FlushAllPages, GCLogFile), which keeps the rows;
// with PROBE_OLD_ORDER=1 the order of the pinned commit (Redo, Undo, GCLogFile, ... FlushAllPages),
// which loses them (that run is the evidence of the defect).
import (
	"os"
	"testing"

	"github.com/ryogrid/SamehadaDB/lib/common"
	"github.com/ryogrid/SamehadaDB/lib/recovery/log_recovery"
	"github.com/ryogrid/SamehadaDB/lib/samehada"
)

func TestC20CrashBetweenGCLogFileAndFlush(t *testing.T) {
	common.TempSuppressOnMemStorageMutex.Lock()
	defer common.TempSuppressOnMemStorageMutex.Unlock()
	common.TempSuppressOnMemStorage = true
	defer func() { common.TempSuppressOnMemStorage = false }()
	os.Remove(t.Name() + ".db")
	os.Remove(t.Name() + ".log")
	db := samehada.NewSamehadaDB(t.Name(), 200)
	db.ExecuteSQL("CREATE TABLE t1(a int, b int);")
	db.ExecuteSQL("INSERT INTO t1(a, b) VALUES (1, 10);")
	db.ExecuteSQL("INSERT INTO t1(a, b) VALUES (2, 20);")
	_, before := db.ExecuteSQL("SELECT a FROM t1 WHERE b >= 0 OR b < 0;")
	db.ShutdownForTescase() // crash #1: committed rows live in the log only

	// restart #1, interrupted right after the log truncation
	shi := samehada.NewSamehadaInstance(t.Name(), 50)
	txn := shi.GetTransactionManager().Begin(nil)
	shi.GetLogManager().DeactivateLogging()
	txn.SetIsRecoveryPhase(true)
	lr := log_recovery.NewLogRecovery(shi.GetDiskManager(), shi.GetBufferPoolManager(), shi.GetLogManager())
	_, isUndoNeeded, _ := lr.Redo(txn)
	if isUndoNeeded {
		lr.Undo(txn)
	}
	if os.Getenv("PROBE_OLD_ORDER") == "" { // what the repaired order does
		shi.GetBufferPoolManager().FlushAllPages()
	}
	shi.GetDiskManager().GCLogFile()
	shi.CloseFilesForTesting() // crash #2

	db2 := samehada.NewSamehadaDB(t.Name(), 200)
	_, after := db2.ExecuteSQL("SELECT a FROM t1 WHERE b >= 0 OR b < 0;")
	db2.Shutdown()
	os.Remove(t.Name() + ".db")
	os.Remove(t.Name() + ".log")
	t.Logf("rows before: %v after second restart: %v", before, after)
	if len(before) != 2 || len(after) != 2 {
		t.Fatalf("committed rows lost by a crash inside recovery: before=%v after=%v", before, after)
	}
}
