package probe

// C07-R3 / C09-R2 reproduction: tables created through SQL carry a skip-list index on every column.
// Skip-list indexes are created empty at every start and were rebuilt only after an unclean stop, so
// after a clean Shutdown() + reopen every index-path query returned nothing while the scan path
// still saw the rows.
import (
	"os"
	"testing"

	"github.com/ryogrid/SamehadaDB/lib/common"
	"github.com/ryogrid/SamehadaDB/lib/samehada"
)

func TestC09CleanShutdownReopenIndexPath(t *testing.T) {
	common.TempSuppressOnMemStorageMutex.Lock()
	defer common.TempSuppressOnMemStorageMutex.Unlock()
	common.TempSuppressOnMemStorage = true
	defer func() { common.TempSuppressOnMemStorage = false }()
	os.Remove(t.Name() + ".db")
	os.Remove(t.Name() + ".log")
	db := samehada.NewSamehadaDB(t.Name(), 400)
	db.ExecuteSQL("CREATE TABLE t1(a int, b int);")
	for i := 1; i <= 5; i++ {
		db.ExecuteSQL("INSERT INTO t1(a, b) VALUES (" + itoa(i) + ", " + itoa(i*10) + ");")
	}
	_, idxBefore := db.ExecuteSQL("SELECT a FROM t1 WHERE a = 3;")
	_, scanBefore := db.ExecuteSQL("SELECT a FROM t1 WHERE a = 3 OR a = 3;")
	db.Shutdown()
	for cycle := 1; cycle <= 2; cycle++ {
		db = samehada.NewSamehadaDB(t.Name(), 400)
		_, idxAfter := db.ExecuteSQL("SELECT a FROM t1 WHERE a = 3;")
		_, scanAfter := db.ExecuteSQL("SELECT a FROM t1 WHERE a = 3 OR a = 3;")
		_, rng := db.ExecuteSQL("SELECT a FROM t1 WHERE a >= 2 AND a <= 4;")
		db.Shutdown()
		t.Logf("cycle %d: index path before=%v after=%v; scan path before=%v after=%v; range=%v", cycle, idxBefore, idxAfter, scanBefore, scanAfter, rng)
		if len(idxBefore) != 1 || len(scanBefore) != 1 || len(scanAfter) != 1 || len(idxAfter) != 1 || len(rng) != 3 {
			os.Remove(t.Name() + ".db")
			os.Remove(t.Name() + ".log")
			t.Fatalf("cycle %d: a clean shutdown + reopen changed the answer of the index path: before %v, after %v (scan path %v), range %v", cycle, idxBefore, idxAfter, scanAfter, rng)
		}
	}
	os.Remove(t.Name() + ".db")
	os.Remove(t.Name() + ".log")
}
