package probe

// C09-R1 reproduction: SamehadaDB.Shutdown appended a GracefulShutdown record before
// SamehadaInstance.Shutdown had written the dirty pages; the instance's first log flush made that
// record durable. A crash inside shutdown therefore looked like a clean stop: no undo at restart.
// The crash image is taken while the real Shutdown() is blocked inside FlushAllDirtyPages (the test
// holds the write latch of one dirty page), i.e. at a genuine crash point of the shutdown sequence.
import (
	"os"
	"testing"
	"time"

	"github.com/ryogrid/SamehadaDB/lib/common"
	"github.com/ryogrid/SamehadaDB/lib/samehada"
	"github.com/ryogrid/SamehadaDB/lib/storage/tuple"
	"github.com/ryogrid/SamehadaDB/lib/types"
)

func TestC09CrashInsideShutdownLooksClean(t *testing.T) {
	common.TempSuppressOnMemStorageMutex.Lock()
	defer common.TempSuppressOnMemStorageMutex.Unlock()
	common.TempSuppressOnMemStorage = true
	defer func() { common.TempSuppressOnMemStorage = false }()
	name, img := t.Name(), t.Name()+"_img"
	for _, f := range []string{name, img} {
		os.Remove(f + ".db")
		os.Remove(f + ".log")
	}
	db := samehada.NewSamehadaDB(name, 400)
	db.ExecuteSQL("CREATE TABLE t1(a int, b int);")
	db.ExecuteSQL("INSERT INTO t1(a, b) VALUES (1, 10);")
	shi := db.GetSamehadaInstance()
	md := db.GetCatalogForTesting().GetTableByName("t1")
	// a transaction that is still running when the shutdown starts
	txn := shi.GetTransactionManager().Begin(nil)
	row := tuple.NewTupleFromSchema([]types.Value{types.NewInteger(666), types.NewInteger(666)}, md.Schema())
	if _, err := md.Table().InsertTuple(row, txn, md.OID(), false); err != nil {
		t.Fatal(err)
	}
	pg := shi.GetBufferPoolManager().FetchPage(md.Table().GetFirstPageID())
	pg.WLatch() // shutdown will block on this dirty page inside FlushAllDirtyPages
	done := make(chan bool)
	go func() { db.Shutdown(); done <- true }()
	time.Sleep(1500 * time.Millisecond)
	// crash image
	for _, ext := range []string{".db", ".log"} {
		b, err := os.ReadFile(name + ext)
		if err != nil {
			t.Fatal(err)
		}
		os.WriteFile(img+ext, b, 0o644)
	}
	pg.WUnlatch()
	shi.GetBufferPoolManager().UnpinPage(pg.GetPageID(), false)
	select {
	case <-done:
	case <-time.After(10 * time.Second):
	}
	db2 := samehada.NewSamehadaDB(img, 400)
	_, rows := db2.ExecuteSQL("SELECT a FROM t1 WHERE b >= 0 OR b < 0;")
	db2.ShutdownForTescase()
	for _, f := range []string{name, img} {
		os.Remove(f + ".db")
		os.Remove(f + ".log")
	}
	t.Logf("rows recovered from the crash image taken inside Shutdown(): %v", rows)
	if len(rows) != 1 {
		t.Fatalf("a crash inside Shutdown() was treated as a clean stop (uncommitted row not undone): %v", rows)
	}
}
