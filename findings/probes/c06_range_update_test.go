package probe

// C06-R2 reproduction: optimizer.Range.Update overwrote a bound instead of intersecting it
// (`>=` unconditionally, `=` on both sides; `<`/`<=`/`>` compared with the wrong strictness), and
// findBestScan emits a bare index range scan (no residual predicate) when both bounds are inclusive.
// Redundant / contradictory conjuncts on an indexed column therefore changed the answer.
import (
	"os"
	"testing"

	"github.com/ryogrid/SamehadaDB/lib/common"
	"github.com/ryogrid/SamehadaDB/lib/samehada"
)

func TestC06RedundantBounds(t *testing.T) {
	common.TempSuppressOnMemStorageMutex.Lock()
	defer common.TempSuppressOnMemStorageMutex.Unlock()
	common.TempSuppressOnMemStorage = true
	defer func() { common.TempSuppressOnMemStorage = false }()
	os.Remove(t.Name() + ".db")
	os.Remove(t.Name() + ".log")
	db := samehada.NewSamehadaDB(t.Name(), 400)
	db.ExecuteSQL("CREATE TABLE t1(a int, b int);")
	for i := 0; i <= 30; i++ {
		db.ExecuteSQL("INSERT INTO t1(a, b) VALUES (" + itoa(i) + ", " + itoa(i) + ");")
	}
	ref := func(pred func(a int) bool) int {
		n := 0
		for i := 0; i <= 30; i++ {
			if pred(i) {
				n++
			}
		}
		return n
	}
	cases := []struct {
		where string
		pred  func(a int) bool
	}{
		{"a >= 5 AND a >= 10 AND a <= 20", func(a int) bool { return a >= 10 && a <= 20 }},
		{"a >= 10 AND a >= 5 AND a <= 20", func(a int) bool { return a >= 10 && a <= 20 }},
		{"a <= 20 AND a >= 10 AND a >= 5", func(a int) bool { return a >= 10 && a <= 20 }},
		{"a = 5 AND a = 7", func(a int) bool { return false }},
		{"a = 7 AND a = 5", func(a int) bool { return false }},
		{"a >= 1 AND a <= 5 AND a < 5", func(a int) bool { return a >= 1 && a < 5 }},
		{"a >= 1 AND a < 5 AND a <= 5", func(a int) bool { return a >= 1 && a < 5 }},
		{"a >= 5 AND a > 5 AND a <= 9", func(a int) bool { return a > 5 && a <= 9 }},
		{"a > 5 AND a >= 5 AND a <= 9", func(a int) bool { return a > 5 && a <= 9 }},
		{"a = 5 AND a >= 3 AND a <= 9", func(a int) bool { return a == 5 }},
		{"a >= 3 AND a <= 9 AND a = 5", func(a int) bool { return a == 5 }},
		{"a >= 10 AND a <= 5", func(a int) bool { return false }},
		{"a >= 4 AND a <= 4", func(a int) bool { return a == 4 }},
	}
	var bad []string
	for _, c := range cases {
		_, rows := db.ExecuteSQL("SELECT a FROM t1 WHERE " + c.where + ";")
		want := ref(c.pred)
		if len(rows) != want {
			bad = append(bad, c.where+": got "+itoa(len(rows))+" rows, want "+itoa(want))
		}
	}
	db.Shutdown()
	os.Remove(t.Name() + ".db")
	os.Remove(t.Name() + ".log")
	if len(bad) > 0 {
		t.Fatalf("index range path disagrees with the predicate:\n%v", bad)
	}
}
