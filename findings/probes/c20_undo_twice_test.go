package probe

// C20: recovery interrupted after its Undo phase was flushed, then repeated. Undo is not logged and does not
// stamp pages, so a second recovery undoes the same loser again. For a loser that had already removed a row
// physically (crash inside Commit between ApplyDelete and the COMMIT record) the first recovery re-inserts the
// row; does the second recovery insert it once more?
import (
	"math"
	"os"
	"testing"

	"github.com/ryogrid/SamehadaDB/lib/common"
	"github.com/ryogrid/SamehadaDB/lib/recovery/log_recovery"
	"github.com/ryogrid/SamehadaDB/lib/samehada"
	"github.com/ryogrid/SamehadaDB/lib/storage/access"
	"github.com/ryogrid/SamehadaDB/lib/storage/index/index_constants"
	"github.com/ryogrid/SamehadaDB/lib/storage/table/column"
	"github.com/ryogrid/SamehadaDB/lib/storage/table/schema"
	"github.com/ryogrid/SamehadaDB/lib/storage/tuple"
	"github.com/ryogrid/SamehadaDB/lib/types"
)

func TestC20UndoRepeatedAfterInterruptedRecovery(t *testing.T) {
	common.TempSuppressOnMemStorageMutex.Lock()
	defer common.TempSuppressOnMemStorageMutex.Unlock()
	common.TempSuppressOnMemStorage = true
	defer func() { common.TempSuppressOnMemStorage = false }()
	os.Remove(t.Name() + ".db")
	os.Remove(t.Name() + ".log")
	si := samehada.NewSamehadaInstance(t.Name(), 32)
	si.GetLogManager().ActivateLogging()
	col1 := column.NewColumn("a", types.Integer, false, index_constants.IndexKindInvalid, types.PageID(-1), nil)
	col2 := column.NewColumn("b", types.Integer, false, index_constants.IndexKindInvalid, types.PageID(-1), nil)
	sc := schema.NewSchema([]*column.Column{col1, col2})
	mk := func(a, b int32) *tuple.Tuple {
		return tuple.NewTupleFromSchema([]types.Value{types.NewInteger(a), types.NewInteger(b)}, sc)
	}
	tm := si.GetTransactionManager()
	t0 := tm.Begin(nil)
	tbl := access.NewTableHeap(si.GetBufferPoolManager(), si.GetLogManager(), si.GetLockManager(), t0)
	first := tbl.GetFirstPageID()
	rid1, _ := tbl.InsertTuple(mk(1, 1), t0, math.MaxUint32, false)
	tbl.InsertTuple(mk(2, 2), t0, math.MaxUint32, false)
	tbl.InsertTuple(mk(3, 3), t0, math.MaxUint32, false)
	tm.Commit(nil, t0)
	// T1 deletes row 1 and crashes inside Commit: the row is removed physically, the COMMIT record is never written
	t1 := tm.Begin(nil)
	tbl.MarkDelete(rid1, math.MaxUint32, t1, false)
	pg := access.CastPageAsTablePage(si.GetBufferPoolManager().FetchPage(rid1.GetPageID()))
	pg.WLatch()
	pg.ApplyDelete(rid1, t1, si.GetLogManager())
	pg.WUnlatch()
	si.GetBufferPoolManager().UnpinPage(rid1.GetPageID(), true)
	si.GetLogManager().Flush()
	si.CloseFilesForTesting() // crash #1

	count := func(si *samehada.SamehadaInstance) map[int32]int {
		rt := si.GetTransactionManager().Begin(nil)
		rt.SetIsRecoveryPhase(true)
		h := access.InitTableHeap(si.GetBufferPoolManager(), first, si.GetLogManager(), si.GetLockManager())
		got := map[int32]int{}
		for it := h.Iterator(rt); !it.End(); it.Next() {
			got[it.Current().GetValue(sc, 0).ToInteger()]++
		}
		return got
	}
	// recovery #1, cut after the recovered pages were flushed (before the log is truncated)
	si = samehada.NewSamehadaInstance(t.Name(), 32)
	si.GetLogManager().DeactivateLogging()
	rt := si.GetTransactionManager().Begin(nil)
	rt.SetIsRecoveryPhase(true)
	lr := log_recovery.NewLogRecovery(si.GetDiskManager(), si.GetBufferPoolManager(), si.GetLogManager())
	lr.Redo(rt)
	lr.Undo(rt)
	after1 := count(si)
	si.GetBufferPoolManager().FlushAllPages()
	si.CloseFilesForTesting() // crash #2

	// recovery #2
	si = samehada.NewSamehadaInstance(t.Name(), 32)
	si.GetLogManager().DeactivateLogging()
	rt = si.GetTransactionManager().Begin(nil)
	rt.SetIsRecoveryPhase(true)
	lr = log_recovery.NewLogRecovery(si.GetDiskManager(), si.GetBufferPoolManager(), si.GetLogManager())
	lr.Redo(rt)
	lr.Undo(rt)
	after2 := count(si)
	si.Shutdown(samehada.ShutdownPatternRemoveFiles)
	t.Logf("rows after recovery #1: %v, after recovery #2: %v", after1, after2)
	for _, got := range []map[int32]int{after1, after2} {
		if len(got) != 3 || got[1] != 1 || got[2] != 1 || got[3] != 1 {
			t.Fatalf("T1 never committed: rows {1,2,3} once each expected; after #1 %v, after #2 %v", after1, after2)
		}
	}
}

func TestC20UndoRepeatedForOtherRecordKinds(t *testing.T) {
	common.TempSuppressOnMemStorageMutex.Lock()
	defer common.TempSuppressOnMemStorageMutex.Unlock()
	common.TempSuppressOnMemStorage = true
	defer func() { common.TempSuppressOnMemStorage = false }()
	os.Remove(t.Name() + ".db")
	os.Remove(t.Name() + ".log")
	si := samehada.NewSamehadaInstance(t.Name(), 32)
	si.GetLogManager().ActivateLogging()
	col1 := column.NewColumn("a", types.Integer, false, index_constants.IndexKindInvalid, types.PageID(-1), nil)
	col2 := column.NewColumn("b", types.Integer, false, index_constants.IndexKindInvalid, types.PageID(-1), nil)
	sc := schema.NewSchema([]*column.Column{col1, col2})
	mk := func(a, b int32) *tuple.Tuple {
		return tuple.NewTupleFromSchema([]types.Value{types.NewInteger(a), types.NewInteger(b)}, sc)
	}
	tm := si.GetTransactionManager()
	t0 := tm.Begin(nil)
	tbl := access.NewTableHeap(si.GetBufferPoolManager(), si.GetLogManager(), si.GetLockManager(), t0)
	first := tbl.GetFirstPageID()
	rid1, _ := tbl.InsertTuple(mk(1, 1), t0, math.MaxUint32, false)
	rid2, _ := tbl.InsertTuple(mk(2, 2), t0, math.MaxUint32, false)
	tbl.InsertTuple(mk(3, 3), t0, math.MaxUint32, false)
	tm.Commit(nil, t0)
	// loser: inserts a row, updates row 1 in place, marks row 2 deleted; never ends
	t1 := tm.Begin(nil)
	tbl.InsertTuple(mk(66, 66), t1, math.MaxUint32, false)
	tbl.UpdateTuple(mk(1, 111), nil, nil, math.MaxUint32, *rid1, t1, false)
	tbl.MarkDelete(rid2, math.MaxUint32, t1, false)
	si.GetLogManager().Flush()
	si.CloseFilesForTesting() // crash #1
	read := func(si *samehada.SamehadaInstance) map[int32]int32 {
		rt := si.GetTransactionManager().Begin(nil)
		rt.SetIsRecoveryPhase(true)
		h := access.InitTableHeap(si.GetBufferPoolManager(), first, si.GetLogManager(), si.GetLockManager())
		got := map[int32]int32{}
		for it := h.Iterator(rt); !it.End(); it.Next() {
			got[it.Current().GetValue(sc, 0).ToInteger()] = it.Current().GetValue(sc, 1).ToInteger()
		}
		return got
	}
	var results []map[int32]int32
	for round := 0; round < 3; round++ {
		si = samehada.NewSamehadaInstance(t.Name(), 32)
		si.GetLogManager().DeactivateLogging()
		rt := si.GetTransactionManager().Begin(nil)
		rt.SetIsRecoveryPhase(true)
		lr := log_recovery.NewLogRecovery(si.GetDiskManager(), si.GetBufferPoolManager(), si.GetLogManager())
		lr.Redo(rt)
		lr.Undo(rt)
		results = append(results, read(si))
		si.GetBufferPoolManager().FlushAllPages()
		if round < 2 {
			si.CloseFilesForTesting() // crash before the log is truncated
		}
	}
	si.Shutdown(samehada.ShutdownPatternRemoveFiles)
	t.Logf("rows after recoveries: %v", results)
	for k, got := range results {
		if len(got) != 3 || got[1] != 1 || got[2] != 2 || got[3] != 3 {
			t.Fatalf("recovery #%d: rows {1:1 2:2 3:3} expected, got %v", k+1, got)
		}
	}
}
