package main

// props.go — which rules decide which property (shared rules appear under several properties).
func init() {
	prop("C01", "C01-R1")
	prop("C05", "C05-R2")
	prop("C02", "C02-R3")
}

func init() { prop("C01", "C01-R2") }
