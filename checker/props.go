package main

// props.go — which rules decide which property (shared rules appear under several properties).
func init() {
	prop("C01", "C01-R1")
	prop("C05", "C05-R2")
	prop("C02", "C02-R3")
}

func init() { prop("C01", "C01-R2") }

func init() { prop("C01", "C01-R3", "C01-R4") }

func init() {
	prop("C02", "C02-R1", "C02-R2")
	prop("C20", "C20-R1")
}

func init() {
	prop("C01", "C01-R5")
	prop("C02", "C02-R4")
	prop("C20", "C20-R2", "C20-R3")
}

func init() {
	prop("C01", "C01-R6")
	prop("C13", "C13-R5")
	prop("C05", "C05-R1")
	prop("C03", "C03-R4")
	prop("C04", "C04-R5")
}

func init() {
	prop("C04", "C04-R1", "C04-R2")
	prop("C16", "C16-R1", "C16-R2", "C05-R1")
	prop("C05", "C16-R1", "C04-R1", "C04-R2")
	prop("C15", "C15-R1", "C15-R2", "C15-R3")
}

func init() {
	prop("C01", "C01-R7")
	prop("C13", "C13-R1", "C13-R2", "C13-R3", "C01-R7")
	prop("C08", "C08-R1", "C01-R1", "C01-R3", "C01-R4")
}

func init() {
	prop("C09", "C09-R1", "C09-R3", "C09-R4", "C07-R3")
	prop("C10", "C10-R1", "C10-R2", "C10-R3", "C10-R4")
	prop("C07", "C07-R2", "C07-R3")
}

func init() {
	prop("C06", "C06-R1", "C06-R2")
	prop("C04", "C04-R4")
	prop("C07", "C07-R1", "C04-R5")
	prop("C11", "C11-R2", "C06-R1")
}

func init() {
	prop("C03", "C03-R1", "C03-R2", "C03-R3", "C02-R3")
	prop("C12", "C12-R1", "C12-R2", "C12-R3")
}

func init() {
	prop("C16", "C16-R3")
	prop("C12", "C12-R4")
	prop("C17", "C17-R1", "C17-R2")
	prop("C19", "C19-R1/log", "C19-R1/txnid", "C19-R1/catalog", "C19-R1/pin", "C13-R1", "C16-R3", "C12-R4", "C17-R2")
}

func init() { prop("C19", "C19-R2", "C19-R3") }

func init() { prop("C14", "C14-R1") }

func init() {
	prop("C03", "C03-R5")
	prop("C07", "C03-R5", "C03-R3")
	prop("C01", "C08-R1", "C14-R1/recovery")
	prop("C02", "C08-R1", "C20-R1")
	prop("C16", "C19-R1/txnid")
	prop("C08", "C19-R1/log")
	prop("C10", "C19-R1/catalog")
	prop("C13", "C19-R1/pin")
	prop("C20", "C14-R1/recovery")
}

func init() {
	prop("C17", "C17-R3")
	prop("C19", "C17-R3")
}

func init() {
	prop("C08", "C08-R3")
	prop("C04", "C04-R3")
	prop("C07", "C07-R4")
	prop("C17", "C07-R4")
}

func init() {
	prop("C05", "C01-R1")
	prop("C11", "C14-R1/join")
}

func init() {
	prop("C16", "C16-R4")
	prop("C05", "C16-R4")
	prop("C15", "C15-R4")
	prop("C03", "C15-R4")
}

func init() { prop("C04", "C04-R7") }

func init() { prop("C02", "C01-R2") }

func init() {
	prop("C06", "C06-R3")
	prop("C11", "C06-R3")
}

func init() {
	prop("C16", "C16-R5")
	prop("C05", "C16-R5")
	prop("C04", "C16-R5")
	prop("C07", "C07-R5")
	prop("C03", "C07-R5")
	prop("C12", "C12-R5")
	prop("C13", "C13-R6")
}

func init() { prop("C06", "C07-R1") }

func init() { prop("C13", "C13-R7") }

func init() {
	prop("C04", "C04-R8")
	prop("C20", "C20-R4")
	prop("C02", "C20-R4")
}

func init() {
	prop("C13", "C13-R8")
	// scoped copies: a property is alarmed only by the layer it depends on
	prop("C09", "C13-R8/heap")
	prop("C01", "C13-R8/heap")
	prop("C10", "C13-R8/heap") // catalog rows are rows of ordinary table heaps (seed C10/b)
	prop("C09", "C13-R8/index")
	prop("C07", "C13-R8/index")
	prop("C17", "C13-R8/index")
}

func init() { prop("C04", "C07-R1") }

func init() {
	prop("C17", "C17-R4")
	prop("C19", "C17-R4")
}

func init() {
	prop("C01", "C01-R8")
	prop("C20", "C01-R8")
}

func init() {
	prop("C17", "C17-R4/pins")
	prop("C14", "C17-R4/pins")
}

func init() {
	prop("C17", "C17-R5")
	prop("C12", "C19-R1/txnid") // statements are isolated by transaction id: two statements with one id share locks (seed C12/a)
}

func init() {
	prop("C01", "C01-R9")
	prop("C20", "C01-R9")
	prop("C10", "C01-R9") // catalog heaps grow the same way
}

func init() {
	prop("C01", "C20-R1") // a page that is older than its NewTablePage record must be formatted, redo must not apply a record twice
}

func init() {
	prop("C12", "C12-R6")
}

func init() {
	prop("C05", "C05-R3")
	prop("C03", "C05-R3") // the unrecorded write survives the rollback
	prop("C04", "C05-R3")
}

func init() {
	prop("C11", "C11-R5")
}

func init() {
	prop("C15", "C15-R5")
	prop("C03", "C15-R5")
}

func init() {
	prop("C17", "C17-R6")
	prop("C19", "C17-R6")
}

func init() {
	prop("C01", "C01-R10")
	prop("C20", "C01-R10")
	prop("C09", "C01-R10")
}

func init() {
	prop("C11", "C11-R6")
	prop("C06", "C11-R6")
}

func init() {
	prop("C15", "C15-R6")
	prop("C11", "C15-R6") // temporary pages of the hash join
}

func init() {
	prop("C19", "C19-R1/statistics")
}

func init() {
	prop("C11", "C11-R7")
}

func init() {
	prop("C06", "C06-R4")
	prop("C11", "C06-R4")
	prop("C04", "C06-R4")
}

func init() {
	prop("C02", "C02-R5")
	prop("C20", "C02-R5")
}

func init() {
	prop("C07", "C07-R6")
	prop("C09", "C07-R6")
	prop("C01", "C07-R6") // restart itself always succeeds
}

func init() {
	prop("C19", "C19-R4")
	prop("C12", "C19-R4") // no call blocks for ever
}

func init() {
	prop("C13", "C13-R9")
	prop("C13", "C13-R10")
	prop("C09", "C09-R5")
	prop("C01", "C09-R5") // a checkpoint that skips a dirty page
}

func init() {
	prop("C13", "C13-R11")
	prop("C14", "C13-R11")
}

func init() {
	prop("C16", "C16-R6")
	prop("C05", "C16-R6")
}

func init() {
	prop("C01", "C01-R11")
	prop("C20", "C01-R11")
	prop("C03", "C03-R6")
	prop("C07", "C03-R6")
	prop("C04", "C04-R9")
	prop("C06", "C06-R5")
	prop("C04", "C06-R5")
	prop("C08", "C08-R4")
	prop("C01", "C08-R4")
	prop("C06", "C06-R7")
	prop("C11", "C06-R7")
	prop("C16", "C16-R7")
}

func init() {
	prop("C11", "C13-R8/join")
}

func init() {
	// sharing decided after round-2 seeds that were caught, but not under the property they were written for
	prop("C01", "C08-R3")       // a log stream broken at a buffer wrap loses every later committed transaction (seed C01/d)
	prop("C09", "C08-R3")       // a record broken at a buffer wrap hides the graceful-shutdown record: the next clean reopen runs undo (seed C09/e)
	prop("C02", "C20-R3")       // the log is truncated at every launch: a stale GracefulShutdown record would switch Undo off (seed C02/d)
	prop("C02", "C01-R8")       // same
	prop("C03", "C13-R8/heap")  // what rollback restored must reach the disk (seed C03/d)
	prop("C05", "C19-R1/txnid") // locks are owned by transaction id (seed C05/d)
	prop("C12", "C05-R3")       // an aborted attempt of a statement leaves nothing visible (seed C12/d)
}

func init() {
	prop("C15", "C15-R7")
}

func init() {
	prop("C20", "C20-R5")
	prop("C01", "C20-R5")
}

func init() {
	prop("C20", "C20-R6")
	prop("C02", "C20-R6")
}

func init() {
	prop("C07", "C17-R1") // an index kind whose UpdateEntry cannot return leaves index and table apart after any update
}

func init() {
	prop("C02", "C02-R6")
	prop("C10", "C02-R6")
}

func init() {
	prop("C10", "C10-R5")
	prop("C10", "C10-R6")
	prop("C09", "C10-R6")
}

func init() {
	prop("C03", "C03-R7")
	prop("C05", "C03-R7")
	prop("C07", "C03-R7")
	prop("C02", "C03-R7")
}

func init() {
	prop("C04", "C17-R2") // a reader between the two halves of an index-entry move answers without reaching the row (seed C04/h, hash index fix)
	prop("C07", "C17-R2")
	prop("C05", "C04-R8") // a scan that skips a row another transaction only marked commits on a state no serial order produces (seed C05/g)
	prop("C12", "C19-R2") // a reader without the page latch pairs old offsets with moved bytes (seed C12/g)
}
