package main

// anchors.go — the repository objects the rules are written against, resolved once through the
// type checker (package path, receiver type, name). A missing anchor aborts the rule (hard failure).

import (
	"go/types"

	"golang.org/x/tools/go/ssa"
)

type Anch struct {
	w *World
	// recovery
	LMFlush, LMAppend, LMIsEnabled, LMActivate, LMDeactivate, LMSetNextLSN, LMGetNextLSN, LMGetPersistentLSN *types.Func
	NewLogRecordTxn, NewLogRecordInsertDelete, NewLogRecordUpdate, NewLogRecordNewPage, NewLogRecordDealloc  *types.Func
	NewLogRecordReuse, NewLogRecordGraceful                                                                  *types.Func
	LogRecordType                                                                                            *types.Named
	// disk
	DMWritePage, DMReadPage, DMWriteLog, DMGCLogFile, DMShutDown, DMAllocatePage *types.Func
	// page
	PageCopy, PageData, PageGetData, PageSetLSN, PageGetLSN, PageGetPageID, PageWLatch, PageWUnlatch, PageRLatch, PageRUnlatch *types.Func
	PageIsDirty, PageSetIsDirty, PagePinCount, PageIsDeallocated, PageSetIsDeallocated, PageIncPin, PageDecPin              *types.Func
	PageDataField                                                                                                           *types.Var
	// buffer
	BPMFetch, BPMNew, BPMUnpin, BPMFlushPage, BPMFlushAll, BPMFlushAllDirty, BPMDealloc, BPMGetFrameID, BPMIncPin, BPMDecPin *types.Func
	// access
	TxnIsRecovery, TxnIsShared, TxnIsExclusive, TxnSetState, TxnGetState, TxnSetPrevLSN, TxnGetPrevLSN, TxnAddWriteSet, TxnGetWriteSet, TxnSetWriteSet *types.Func
	LockShared, LockExclusive, LockUpgrade, LMUnlock                                                                                                   *types.Func
	TMBegin, TMCommit, TMAbort, TMReleaseLocks, TMBlockAll, TMResume                                                                                    *types.Func
	CastTablePage                                                                                                                                      *types.Func
	TPInsert, TPUpdate, TPMarkDelete, TPApplyDelete, TPRollbackDelete, TPInit, TPGetTuple                                                              *types.Func
	THInsert, THUpdate, THMarkDelete, THApplyDelete, THRollbackDelete, THGetTuple                                                                      *types.Func
	NewWriteRecord                                                                                                                                     *types.Func
}

var anchCache = map[*World]*Anch{}

func (w *World) A() *Anch {
	if a := anchCache[w]; a != nil {
		return a
	}
	a := &Anch{w: w}
	m := w.MethodObj
	f := w.FuncObj
	a.LMFlush = m("recovery", "LogManager", "Flush")
	a.LMAppend = m("recovery", "LogManager", "AppendLogRecord")
	a.LMIsEnabled = m("recovery", "LogManager", "IsEnabledLogging")
	a.LMActivate = m("recovery", "LogManager", "ActivateLogging")
	a.LMDeactivate = m("recovery", "LogManager", "DeactivateLogging")
	a.LMSetNextLSN = m("recovery", "LogManager", "SetNextLSN")
	a.LMGetNextLSN = m("recovery", "LogManager", "GetNextLSN")
	a.LMGetPersistentLSN = m("recovery", "LogManager", "GetPersistentLSN")
	a.NewLogRecordTxn = f("recovery", "NewLogRecordTxn")
	a.NewLogRecordInsertDelete = f("recovery", "NewLogRecordInsertDelete")
	a.NewLogRecordUpdate = f("recovery", "NewLogRecordUpdate")
	a.NewLogRecordNewPage = f("recovery", "NewLogRecordNewPage")
	a.NewLogRecordDealloc = f("recovery", "NewLogRecordDeallocatePage")
	a.NewLogRecordReuse = f("recovery", "NewLogRecordReusePage")
	a.NewLogRecordGraceful = f("recovery", "NewLogRecordGracefulShutdown")
	a.LogRecordType = w.Named("recovery", "LogRecordType")

	a.DMWritePage = m("storage/disk", "DiskManager", "WritePage")
	a.DMReadPage = m("storage/disk", "DiskManager", "ReadPage")
	a.DMWriteLog = m("storage/disk", "DiskManager", "WriteLog")
	a.DMGCLogFile = m("storage/disk", "DiskManager", "GCLogFile")
	a.DMShutDown = m("storage/disk", "DiskManager", "ShutDown")
	a.DMAllocatePage = m("storage/disk", "DiskManager", "AllocatePage")

	a.PageCopy = m("storage/page", "Page", "Copy")
	a.PageData = m("storage/page", "Page", "Data")
	a.PageGetData = m("storage/page", "Page", "GetData")
	a.PageSetLSN = m("storage/page", "Page", "SetLSN")
	a.PageGetLSN = m("storage/page", "Page", "GetLSN")
	a.PageGetPageID = m("storage/page", "Page", "GetPageID")
	a.PageWLatch = m("storage/page", "Page", "WLatch")
	a.PageWUnlatch = m("storage/page", "Page", "WUnlatch")
	a.PageRLatch = m("storage/page", "Page", "RLatch")
	a.PageRUnlatch = m("storage/page", "Page", "RUnlatch")
	a.PageIsDirty = m("storage/page", "Page", "IsDirty")
	a.PageSetIsDirty = m("storage/page", "Page", "SetIsDirty")
	a.PagePinCount = m("storage/page", "Page", "PinCount")
	a.PageIsDeallocated = m("storage/page", "Page", "IsDeallocated")
	a.PageSetIsDeallocated = m("storage/page", "Page", "SetIsDeallocated")
	a.PageIncPin = m("storage/page", "Page", "IncPinCount")
	a.PageDecPin = m("storage/page", "Page", "DecPinCount")
	a.PageDataField = w.Field("storage/page", "Page", "data")

	a.BPMFetch = m("storage/buffer", "BufferPoolManager", "FetchPage")
	a.BPMNew = m("storage/buffer", "BufferPoolManager", "NewPage")
	a.BPMUnpin = m("storage/buffer", "BufferPoolManager", "UnpinPage")
	a.BPMFlushPage = m("storage/buffer", "BufferPoolManager", "FlushPage")
	a.BPMFlushAll = m("storage/buffer", "BufferPoolManager", "FlushAllPages")
	a.BPMFlushAllDirty = m("storage/buffer", "BufferPoolManager", "FlushAllDirtyPages")
	a.BPMDealloc = m("storage/buffer", "BufferPoolManager", "DeallocatePage")
	a.BPMGetFrameID = m("storage/buffer", "BufferPoolManager", "getFrameID")
	a.BPMIncPin = m("storage/buffer", "BufferPoolManager", "IncPinOfPage")
	a.BPMDecPin = m("storage/buffer", "BufferPoolManager", "DecPinOfPage")

	a.TxnIsRecovery = m("storage/access", "Transaction", "IsRecoveryPhase")
	a.TxnIsShared = m("storage/access", "Transaction", "IsSharedLocked")
	a.TxnIsExclusive = m("storage/access", "Transaction", "IsExclusiveLocked")
	a.TxnSetState = m("storage/access", "Transaction", "SetState")
	a.TxnGetState = m("storage/access", "Transaction", "GetState")
	a.TxnSetPrevLSN = m("storage/access", "Transaction", "SetPrevLSN")
	a.TxnGetPrevLSN = m("storage/access", "Transaction", "GetPrevLSN")
	a.TxnAddWriteSet = m("storage/access", "Transaction", "AddIntoWriteSet")
	a.TxnGetWriteSet = m("storage/access", "Transaction", "GetWriteSet")
	a.TxnSetWriteSet = m("storage/access", "Transaction", "SetWriteSet")
	a.LockShared = m("storage/access", "LockManager", "LockShared")
	a.LockExclusive = m("storage/access", "LockManager", "LockExclusive")
	a.LockUpgrade = m("storage/access", "LockManager", "LockUpgrade")
	a.LMUnlock = m("storage/access", "LockManager", "Unlock")
	a.TMBegin = m("storage/access", "TransactionManager", "Begin")
	a.TMCommit = m("storage/access", "TransactionManager", "Commit")
	a.TMAbort = m("storage/access", "TransactionManager", "Abort")
	a.TMReleaseLocks = m("storage/access", "TransactionManager", "releaseLocks")
	a.TMBlockAll = m("storage/access", "TransactionManager", "BlockAllTransactions")
	a.TMResume = m("storage/access", "TransactionManager", "ResumeTransactions")
	a.CastTablePage = f("storage/access", "CastPageAsTablePage")
	a.TPInsert = m("storage/access", "TablePage", "InsertTuple")
	a.TPUpdate = m("storage/access", "TablePage", "UpdateTuple")
	a.TPMarkDelete = m("storage/access", "TablePage", "MarkDelete")
	a.TPApplyDelete = m("storage/access", "TablePage", "ApplyDelete")
	a.TPRollbackDelete = m("storage/access", "TablePage", "RollbackDelete")
	a.TPInit = m("storage/access", "TablePage", "Init")
	a.TPGetTuple = m("storage/access", "TablePage", "GetTuple")
	a.THInsert = m("storage/access", "TableHeap", "InsertTuple")
	a.THUpdate = m("storage/access", "TableHeap", "UpdateTuple")
	a.THMarkDelete = m("storage/access", "TableHeap", "MarkDelete")
	a.THApplyDelete = m("storage/access", "TableHeap", "ApplyDelete")
	a.THRollbackDelete = m("storage/access", "TableHeap", "RollbackDelete")
	a.THGetTuple = m("storage/access", "TableHeap", "GetTuple")
	a.NewWriteRecord = f("storage/access", "NewWriteRecord")
	anchCache[w] = a
	return a
}

// SSA returns the SSA function of a resolved object (hard failure when it has no body).
func (w *World) SSA(o *types.Func) *ssa.Function {
	f := w.Prog.FuncValue(o)
	if f == nil || f.Blocks == nil {
		fatalf("anchor %s has no SSA body", o.FullName())
	}
	return f
}

// assumeLogging: inside every function, the false edge of IsEnabledLogging() is removed
// (rules about the log speak about runs with logging enabled).
func (a *Anch) assumeLogging() EdgeCut { return CutWhen(IsCallTo(a.LMIsEnabled), false) }

// mustFlushLog: summary "this instruction certainly forces the log to disk".
func (a *Anch) flushSumm() *Summ {
	return NewSumm(a.w, func(in ssa.Instruction) bool { return InstrCallsObj(a.LMFlush)(in) }, a.assumeLogging())
}

// isPageDataSource: the SSA value is (a pointer to / slice of) the byte array of a page.
func (a *Anch) isPageDataSource(v ssa.Value) bool {
	switch x := v.(type) {
	case *ssa.Call:
		o := CalleeObj(x)
		return o != nil && (o == a.PageData || o == a.PageGetData)
	case *ssa.FieldAddr:
		if st, ok := derefStruct(x.X.Type()); ok && st.Field(x.Field) == a.PageDataField {
			return true
		}
	case *ssa.Field:
		if st, ok := x.X.Type().Underlying().(*types.Struct); ok && st.Field(x.Field) == a.PageDataField {
			return true
		}
	}
	return false
}

func derefStruct(t types.Type) (*types.Struct, bool) {
	if p, ok := t.Underlying().(*types.Pointer); ok {
		t = p.Elem()
	}
	st, ok := t.Underlying().(*types.Struct)
	return st, ok
}

// isDirectPageWrite: builtin copy() into page bytes, or an element store into page bytes,
// or a call to Page.Copy.
func (a *Anch) isDirectPageWrite(in ssa.Instruction) bool {
	switch x := in.(type) {
	case *ssa.Call:
		if b, ok := x.Call.Value.(*ssa.Builtin); ok && b.Name() == "copy" && len(x.Call.Args) == 2 {
			return DependsOn(x.Call.Args[0], a.isPageDataSource)
		}
		if o := CalleeObj(x); o != nil && o == a.PageCopy {
			return true
		}
	case *ssa.Store:
		if ia, ok := x.Addr.(*ssa.IndexAddr); ok {
			return DependsOn(ia.X, a.isPageDataSource)
		}
	}
	return false
}

// pageWriteSumm: "this instruction may write page bytes" (transitively through repo functions).
func (a *Anch) pageWriteSumm() *Summ {
	return NewSumm(a.w, a.isDirectPageWrite, a.assumeLogging())
}
