package main

// rules_pins.go — typestate pairing of buffer pins (C14-R1): every FetchPage / NewPage (and derived
// wrapper) is matched by UnpinPage / DecPinOfPage on every non-panicking path, or the pinned page
// leaves the function through a declared transfer (returned, or stored into a long-lived object).

import (
	"fmt"
	"go/constant"
	"os"
	"go/token"
	"go/types"
	"sort"
	"strings"

	"golang.org/x/tools/go/ssa"
)

// packages whose pin handling is decided. The skip list (container/skip_list,
// storage/page/skip_list_page) and the B-tree adapter hold a data-dependent number of pins
// (len(lockedAndPinnedNodes)); they are outside this rule (DESIGN section 3, C14 "not covered").
var pinScope = []string{"storage/access", "execution/executors", "materialization", "catalog", "samehada", "recovery/log_recovery", "container/hash", "storage/index", "planner", "planner/optimizer", "concurrency"}

// functions allowed to let a pinned page escape into an object (with the contract they hand out)
var pinEscapeAllow = map[string]string{
	"container/hash.newHashTableIterator":      "iterator object owns the pin of its current block page; released by the caller through iterator.blockID",
	"(*container/hash.hashTableIterator).next": "moves the iterator's pin from the current block page to the next one",
}

// transfer functions whose result is an object owning one pin (callers are charged with it)
var pinObjectCtors = map[string]bool{"container/hash.newHashTableIterator": true}

type pinModel struct {
	w       *World
	a       *Anch
	getters map[*types.Func]bool // id getters: f(x) names "the page id of x"
	casts   map[*types.Func]bool
	acquire map[*ssa.Function]string // derived wrappers returning a pinned object -> description
}

func newPinModel(w *World) *pinModel {
	a := w.A()
	pm := &pinModel{w: w, a: a, getters: map[*types.Func]bool{}, casts: map[*types.Func]bool{}, acquire: map[*ssa.Function]string{}}
	pm.getters[a.PageGetPageID] = true
	pm.getters[w.MethodObj("storage/page", "RID", "GetPageID")] = true
	pm.getters[w.MethodObj("materialization", "TmpTuple", "GetPageID")] = true
	pm.casts[a.CastTablePage] = true
	pm.casts[w.FuncObj("materialization", "CastPageAsTmpTuplePage")] = true
	pm.casts[a.PageData] = true // the byte array of a page identifies the page (hash header pages are re-cast from Data())
	pm.casts[a.PageGetData] = true
	return pm
}

// path: like LockTable.lockPath, plus id getters (x.GetPageID() == path(x)+"#id") and page casts.
func (pm *pinModel) path(v ssa.Value) string {
	for depth := 0; depth < 40; depth++ {
		v = resolveCell(v)
		switch x := v.(type) {
		case *ssa.Parameter:
			return paramName(x)
		case *ssa.FreeVar:
			return "fv:" + x.Name()
		case *ssa.Global:
			return "g:" + x.Name()
		case *ssa.Alloc:
			return valName("c:", x)
		case *ssa.UnOp:
			if x.Op == token.MUL {
				v = x.X
				continue
			}
			return valName("v:", x)
		case *ssa.FieldAddr:
			st, _ := derefStruct(x.X.Type())
			f := st.Field(x.Field)
			if f.Embedded() && f.Name() == "Page" {
				v = x.X
				continue
			}
			return pm.path(x.X) + "." + f.Name()
		case *ssa.Field:
			st := x.X.Type().Underlying().(*types.Struct)
			return pm.path(x.X) + "." + st.Field(x.Field).Name()
		case *ssa.ChangeType:
			v = x.X
		case *ssa.Convert:
			v = x.X
		case *ssa.MakeInterface:
			v = x.X
		case *ssa.ChangeInterface:
			v = x.X
		case *ssa.TypeAssert:
			v = x.X
		case *ssa.Call:
			o := CalleeObj(x)
			if o != nil && pm.casts[o] && len(x.Call.Args) == 1 {
				v = x.Call.Args[0]
				continue
			}
			if o != nil && pm.getters[o] && len(x.Call.Args) == 1 {
				return pm.path(x.Call.Args[0]) + "#id"
			}
			return valName("v:", x)
		default:
			if v == nil {
				return "?"
			}
			return valName("v:", v)
		}
	}
	return "?"
}

// noInline: helpers that the pin rules model themselves
func (pm *pinModel) noInline(f *ssa.Function) bool {
	k := funcKey(f)
	if _, ok := pinEscapeAllow[k]; ok {
		return true
	}
	if _, ok := pm.acquire[f]; ok {
		return true
	}
	return pinObjectCtors[k]
}

// touchesPins: fn (or a private helper it would inline, two levels) calls a pin primitive or an acquire wrapper
func (pm *pinModel) touchesPins(fn *ssa.Function, depth int) bool {
	touches := false
	visit := func(f *ssa.Function) {
		EachCall(f, func(c ssa.CallInstruction) {
			o := CalleeObj(c)
			if o == pm.a.BPMFetch || o == pm.a.BPMNew || o == pm.a.BPMUnpin || o == pm.a.BPMDecPin {
				touches = true
			}
			if g := c.Common().StaticCallee(); g != nil {
				if _, ok := pm.acquire[g]; ok {
					touches = true
				}
				if depth > 0 && !touches && (&LockWalk{W: pm.w, Fn: fn, NoInline: pm.noInline}).inlinable(g) && pm.touchesPins(g, depth-1) {
					touches = true
				}
			}
		})
	}
	visit(fn)
	for _, an := range fn.AnonFuncs {
		visit(an)
	}
	return touches
}

// helperOnly: fn is a private helper that every (non-test) caller inlines: it is judged at its call sites
func (pm *pinModel) helperOnly(fn *ssa.Function, inScope func(*ssa.Function) bool) bool {
	n := 0
	for _, cs := range pm.w.Callers(fn) {
		top := topFunc(cs.Caller)
		if pm.w.IsTestFunc(top) || (top.Synthetic != "" && len(pm.w.Callers(top)) == 0) {
			continue
		}
		n++
		if !inScope(top) || cs.Caller != top || !(&LockWalk{W: pm.w, Fn: top, NoInline: pm.noInline}).inlinable(fn) {
			return false
		}
	}
	return n > 0 && !pm.w.usedAsValue(fn)
}

var dbgHook func(in ssa.Instruction, st *LState)

// overlayMutator: a method of an overlay page struct (package storage/page, cast from a page's bytes with
// unsafe.Pointer: HashTableBlockPage, HashTableHeaderPage) that stores into its receiver — a write of
// page bytes that does not go through Page.Copy / Data().
func (pm *pinModel) overlayMutator(c *ssa.Call) bool {
	f := c.Call.StaticCallee()
	if f == nil || f.Blocks == nil || f.Pkg == nil || f.Pkg.Pkg.Path() != libMod+"/storage/page" || f.Signature.Recv() == nil || len(f.Params) == 0 {
		return false
	}
	if !strings.Contains(f.Signature.Recv().Type().String(), "HashTable") {
		return false
	}
	recv := ssa.Value(f.Params[0])
	for _, b := range f.Blocks {
		for _, in := range b.Instrs {
			st, ok := in.(*ssa.Store)
			if !ok {
				continue
			}
			ad := st.Addr
			for {
				if fa, ok := ad.(*ssa.FieldAddr); ok {
					ad = fa.X
					continue
				}
				if ia, ok := ad.(*ssa.IndexAddr); ok {
					ad = ia.X
					continue
				}
				break
			}
			if ad == recv {
				return true
			}
		}
	}
	return false
}

type pinIssue struct {
	kind, detail string
	in           ssa.Instruction
}

type pinResult struct {
	acquires      int
	issues        []pinIssue
	returnsPinned bool // some path returns a value aliasing a pin acquired here
	escapes       []string
	truncated     bool
}

// resOf maps an id/pointer path to the resource name if held.
func resOf(st *LState, p string) (string, bool) {
	r := st.root(p)
	for _, suf := range []string{"", "#id", ".blockID", ".blockPage"} {
		if strings.HasSuffix(r, suf) {
			cand := strings.TrimSuffix(r, suf)
			if _, ok := st.held[cand]; ok {
				return cand, true
			}
		}
	}
	return r, false
}

func (pm *pinModel) analyse(fn *ssa.Function) *pinResult {
	w, a := pm.w, pm.a
	res := &pinResult{}
	isAcquire := func(c ssa.CallInstruction) (bool, ssa.Value) {
		o := CalleeObj(c)
		if o == a.BPMFetch {
			args := c.Common().Args
			return true, args[len(args)-1]
		}
		if o == a.BPMNew {
			return true, nil
		}
		if f := c.Common().StaticCallee(); f != nil {
			if _, ok := pm.acquire[f]; ok {
				return true, nil
			}
		}
		return false, nil
	}
	seenIssue := map[string]bool{}
	addIssue := func(kind string, in ssa.Instruction, detail string) {
		k := kind + "|" + w.InstrPos(in) + "|" + detail
		if !seenIssue[k] {
			seenIssue[k] = true
			res.issues = append(res.issues, pinIssue{kind, detail, in})
		}
	}
	acqSeen := map[ssa.Instruction]bool{}
	newPageRes := map[string]bool{} // resources obtained from NewPage: the page exists nowhere but in its frame
	setNextPage := w.MethodObj("storage/access", "TablePage", "SetNextPageID")
	getNextPage := w.MethodObj("storage/access", "TablePage", "GetNextPageID")
	isValidID := w.MethodObj("types", "PageID", "IsValid")
	lw := &LockWalk{W: w, Fn: fn, PathFn: pm.path, MaxStates: 1500000, InlineHelpers: true, NoInline: pm.noInline}
	lw.Classify = func(c ssa.CallInstruction, st *LState) (lockOp, string) {
		o := CalleeObj(c)
		if ok, idExpr := isAcquire(c); ok {
			v, isVal := c.(ssa.Value)
			if !isVal {
				return opNone, ""
			}
			name := valName("v:", v)
			if o == a.BPMNew {
				newPageRes[name] = true
			}
			if st != nil {
				if !acqSeen[c] {
					acqSeen[c] = true
					res.acquires++
				}
				if idExpr != nil {
					if p := pm.path(idExpr); p != "?" {
						st.alias[p] = name + "#id"
					}
				}
			}
			return opLock, name
		}
		if o == a.BPMUnpin {
			args := c.Common().Args
			p := pm.path(args[len(args)-2])
			if st == nil {
				return opUnlock, p // closure summary: translated by the caller
			}
			if r, ok := resOf(st, p); ok {
				if strings.HasSuffix(st.held[r], "D") {
					if cv, isConst := constOf(args[len(args)-1]); isConst && !constant.BoolVal(cv) {
						addIssue("modified-page-unpinned-clean", c, "page pinned as "+r+" was written under this pin and is unpinned with isDirty=false: the change is lost if the frame is evicted before the page is dirtied again")
					}
				}
				if newPageRes[strings.TrimRight(r, "'")] {
					if cv, isConst := constOf(args[len(args)-1]); isConst && !constant.BoolVal(cv) {
						addIssue("modified-page-unpinned-clean", c, "page pinned as "+r+" was created by NewPage in this function (it is not on the data file and NewPage does not mark it dirty) and is unpinned with isDirty=false: when its frame is evicted the page is dropped without ever being written")
					}
				}
				return opUnlock, r
			}
			return opUnlock, st.root(p)
		}
		if o == a.BPMDecPin {
			args := c.Common().Args
			p := pm.path(args[len(args)-1])
			if st == nil {
				return opUnlock, p
			}
			if r, ok := resOf(st, p); ok {
				return opUnlock, r
			}
			return opUnlock, st.root(p)
		}
		return opNone, ""
	}
	// closure summaries carry raw paths such as "fv:currentPage#id": resolve them against held pins
	lw.CallEffect = func(c ssa.CallInstruction, st *LState) (map[string]string, []string) {
		call, ok := c.(*ssa.Call)
		if !ok {
			return nil, nil
		}
		acq, rel, ok2 := lw.closureEffect(call)
		if !ok2 {
			addIssue("closure-conditional", c, "closure performs pin operations under a branch (idiom not modelled)")
			return map[string]string{}, []string{}
		}
		if len(acq) == 0 && len(rel) == 0 {
			return map[string]string{}, []string{}
		}
		var rel2 []string
		for _, p := range rel {
			if r, ok := resOf(st, p); ok {
				rel2 = append(rel2, r)
			} else {
				rel2 = append(rel2, p)
			}
		}
		return acq, rel2
	}
	lw.OnIssue = func(kind string, in ssa.Instruction, name string, st *LState) {
		switch kind {
		case "release-not-held":
			addIssue("unpin-without-pin", in, "UnpinPage of "+name+" which this function did not pin (held: "+strings.Join(st.HeldNames(), ",")+")")
		case "double-acquire":
			// re-fetch of the same register in a loop iteration while the previous one is still held is a leak of the previous
			addIssue("pin-overwritten", in, "page pinned again under "+name+" while the previous pin is still held")
		default:
			addIssue(kind, in, name)
		}
	}
	// pointer nil-checks: on the edge on which a pinned pointer is nil nothing is pinned
	lw.OnEdge = func(b *ssa.BasicBlock, succ int, st *LState) bool {
		// the "written under this pin" mark follows the page through phis (`currentPage = newPage`); the one
		// value-infeasible combination this used to report — a page formatted in this function that already has a
		// next page — is pruned below through the "F" flag
		i := blockIf(b)
		if i == nil {
			return true
		}
		v, neg := condBase(i.Cond)
		if vc, isCall := v.(*ssa.Call); isCall && CalleeObj(vc) == isValidID {
			if g, ok := stripConv(vc.Call.Args[0]).(*ssa.Call); ok && CalleeObj(g) == getNextPage {
				if r, held := resOf(st, pm.path(g.Call.Args[0])); held && strings.Contains(st.held[r], "F") {
					validOnEdge := (succ == 0) != neg
					if validOnEdge {
						return false // a page formatted in this function has no next page yet
					}
				}
			}
		}
		bo, ok := v.(*ssa.BinOp)
		if !ok || (bo.Op != token.EQL && bo.Op != token.NEQ) {
			return true
		}
		isNil := func(x ssa.Value) bool { c, ok := x.(*ssa.Const); return ok && c.IsNil() }
		var other ssa.Value
		if isNil(bo.Y) {
			other = bo.X
		} else if isNil(bo.X) {
			other = bo.Y
		} else {
			// comparison of a page id with a constant (`tmpPageID != InvalidPageID`): the id of a pinned page
			// is never the constant; a variable still holding its constant initial value always is
			var cst *ssa.Const
			var x ssa.Value
			if c, ok := stripConv(bo.Y).(*ssa.Const); ok {
				cst, x = c, bo.X
			} else if c, ok := stripConv(bo.X).(*ssa.Const); ok {
				cst, x = c, bo.Y
			} else {
				return true
			}
			rp := st.root(pm.path(x))
			condTrueMeansEq := (bo.Op == token.EQL) != neg
			edgeIsEq := (succ == 0) == condTrueMeansEq
			if strings.HasPrefix(rp, "const:") {
				same := rp == "const:"+cst.String()
				return edgeIsEq == same
			}
			if _, held := resOf(st, rp); held && strings.HasSuffix(rp, "#id") {
				return !edgeIsEq
			}
			return true
		}
		r, held := resOf(st, pm.path(other))
		if !held {
			return true
		}
		condTrueMeansNil := (bo.Op == token.EQL) != neg
		edgeIsNil := (succ == 0) == condTrueMeansNil
		if edgeIsNil {
			if strings.HasPrefix(st.held[r], "C") {
				return false // already proved non-nil by an earlier check on this path
			}
			delete(st.held, r)
		} else if !strings.HasPrefix(st.held[r], "C") {
			st.held[r] = "C" + strings.TrimPrefix(st.held[r], "W")
		}
		return true
	}
	// escapes: a pinned pointer stored into a non-local location
	mustWrite := a.pageWriteSumm()
	lw.OnInstr = func(in ssa.Instruction, st *LState) {
		if dbgHook != nil {
			dbgHook(in, st)
		}
		if c, ok := in.(*ssa.Call); ok && len(c.Call.Args) > 0 && !c.Call.IsInvoke() {
			o := CalleeObj(c)
			// "F": a page created by NewPage in this function and formatted by TablePage.Init has no next page
			// until SetNextPageID is called on it (prunes the value-infeasible `next page is valid` side below)
			if o == a.TPInit || o == setNextPage {
				if r, held := resOf(st, pm.path(c.Call.Args[0])); held && newPageRes[strings.TrimRight(r, "'")] {
					m := strings.Replace(st.held[r], "F", "", 1)
					if o == a.TPInit {
						m = m[:1] + "F" + m[1:]
					}
					st.held[r] = m
				}
			}
			if o != nil && o != a.PageSetLSN && (mustWrite.MustSite(in) || pm.overlayMutator(c)) {
				if r, held := resOf(st, pm.path(c.Call.Args[0])); held && !strings.HasSuffix(st.held[r], "D") {
					st.held[r] += "D"
				}
			}
			// a declared transfer function that unpins the page its receiver owns with a constant clean flag
			if f := c.Call.StaticCallee(); f != nil {
				if _, isTransfer := pinEscapeAllow[funcKey(f)]; isTransfer && len(f.Params) > 0 {
					if r, held := resOf(st, pm.path(c.Call.Args[0])); held && strings.HasSuffix(st.held[r], "D") {
						recv := paramName(f.Params[0])
						EachCall(f, func(cc ssa.CallInstruction) {
							if CalleeObj(cc) != a.BPMUnpin {
								return
							}
							args := cc.Common().Args
							if !hasPathPrefix(pm.path(args[len(args)-2]), recv) {
								return
							}
							if cv, isConst := constOf(args[len(args)-1]); isConst && !constant.BoolVal(cv) {
								addIssue("modified-page-unpinned-clean", in, "page owned by "+r+" may have been modified under this pin and "+funcKey(f)+" unpins it with isDirty=false at "+w.InstrPos(cc))
							}
						})
						st.held[r] = strings.TrimSuffix(st.held[r], "D") // the object now owns another page
					}
				}
			}
		}
		stI, ok := in.(*ssa.Store)
		if !ok {
			return
		}
		if _, isPtr := stI.Val.Type().Underlying().(*types.Pointer); !isPtr {
			return
		}
		r, held := resOf(st, pm.path(stI.Val))
		if !held {
			return
		}
		// local cells are tracked by the walker
		if _, isAlloc := stI.Addr.(*ssa.Alloc); isAlloc {
			return
		}
		base := stI.Addr
		for {
			if fa, ok := base.(*ssa.FieldAddr); ok {
				base = fa.X
				continue
			}
			if ia, ok := base.(*ssa.IndexAddr); ok {
				base = ia.X
				continue
			}
			break
		}
		if al, ok := base.(*ssa.Alloc); ok && !al.Heap {
			return
		}
		res.escapes = append(res.escapes, w.InstrPos(in))
		delete(st.held, r) // ownership moved into the object
	}
	lw.OnReturn = func(ret *ssa.Return, st *LState) {
		for h := range st.held {
			returned := false
			for i := range ret.Results {
				p := st.root(pm.path(retOperand(ret, i)))
				if hasPathPrefix(p, h) || p == h {
					returned = true
				}
			}
			if returned {
				res.returnsPinned = true
				continue
			}
			addIssue("pin-leak", ret, "returns at "+w.InstrPos(ret)+" with the page pinned as "+h+" still pinned")
		}
	}
	lw.Run()
	res.truncated = lw.Truncated
	if os.Getenv("SDB_DEBUG_STATES") != "" {
		fmt.Fprintf(os.Stderr, "pinwalk %s states=%d\n", funcKey(fn), lw.States)
	}
	return res
}

func init() {
	reg("C14-R1", "pin pairing: in the heap, executor, materialization, catalog, samehada, recovery, hash-index and index-wrapper packages every FetchPage/NewPage (and derived wrapper) is released by UnpinPage/DecPinOfPage on every non-panicking path, or leaves the function through a declared transfer", func(w *World, r *Report) {
		pinRule(w, r, nil, 15, 25)
	})
	reg("C13-R8", "a page written under a pin is unpinned dirty: when a call that certainly writes page bytes (SetNextPageID, Init, ApplyDelete, …) was made through a pinned page, the matching UnpinPage does not pass the constant isDirty=false (tracked while the page stays in one variable)", func(w *World, r *Report) {
		pinRule(w, r, nil, 15, 25, "modified-page-unpinned-clean")
	})
	reg("C13-R8/heap", "C13-R8 restricted to the table-heap layer (storage/access, recovery, catalog, samehada start-up): table rows, catalog rows and next-page links reach the disk", func(w *World, r *Report) {
		pinRule(w, r, func(fn *ssa.Function) bool {
			p := fn.Pkg.Pkg.Path()
			return p == libMod+"/storage/access" || p == libMod+"/recovery/log_recovery" || p == libMod+"/catalog" || p == libMod+"/samehada"
		}, 8, 12, "modified-page-unpinned-clean")
	})
	reg("C13-R8/join", "C13-R8 restricted to the join executors and their temporary pages (a build side that does not fit the pool is read back from pages that must have been written)", func(w *World, r *Report) {
		pinRule(w, r, func(fn *ssa.Function) bool {
			p := fn.Pkg.Pkg.Path()
			return p == libMod+"/materialization" || (p == libMod+"/execution/executors" && strings.Contains(funcKey(fn), "Join"))
		}, 1, 1, "modified-page-unpinned-clean")
	})
	reg("C13-R8/index", "C13-R8 restricted to the index containers that keep their pages across a clean restart (container/hash)", func(w *World, r *Report) {
		pinRule(w, r, func(fn *ssa.Function) bool {
			p := fn.Pkg.Pkg.Path()
			return strings.HasPrefix(p, libMod+"/container/") || p == libMod+"/storage/index"
		}, 3, 4, "modified-page-unpinned-clean")
	})
	reg("C14-R1/recovery", "pin pairing on the restart path (a pin leaked by recovery exhausts a small pool and restart fails): the functions of recovery/log_recovery, the catalog reload and the samehada start-up / index reconstruction functions", func(w *World, r *Report) {
		pinRule(w, r, func(fn *ssa.Function) bool {
			p := fn.Pkg.Pkg.Path()
			if p == libMod+"/recovery/log_recovery" {
				return true
			}
			k := funcKey(fn)
			return k == "samehada.NewSamehadaDB" || k == "samehada.reconstructIndexDataOfATbl" || k == "samehada.ReconstructAllIndexData" || k == "samehada.ReconstructNotKeptIndexData" ||
				k == "catalog.RecoveryCatalogFromCatalogPage" || k == "storage/access.NewTableHeap" || k == "storage/access.InitTableHeap"
		}, 3, 8)
	})
	reg("C14-R1/join", "pin pairing in the join executors and their temporary pages (C11-R4)", func(w *World, r *Report) {
		pinRule(w, r, func(fn *ssa.Function) bool {
			p := fn.Pkg.Pkg.Path()
			if p == libMod+"/materialization" {
				return true
			}
			return p == libMod+"/execution/executors" && strings.Contains(funcKey(fn), "Join")
		}, 2, 2)
	})
}

func pinRule(w *World, r *Report, filter func(fn *ssa.Function) bool, floorFns, floorAcq int, onlyKinds ...string) {
	{
		pm := newPinModel(w)
		inScope := func(fn *ssa.Function) bool {
			if fn.Pkg == nil || w.IsTestFunc(fn) || fn.Parent() != nil || fn.Synthetic != "" {
				return false
			}
			for _, p := range pinScope {
				if fn.Pkg.Pkg.Path() == libMod+"/"+p {
					return true
				}
			}
			return false
		}
		var fns []*ssa.Function
		for _, fn := range w.RepoFuncs {
			if inScope(fn) {
				fns = append(fns, fn)
			}
		}
		// fixpoint over derived acquire wrappers (functions returning a pinned object)
		results := map[*ssa.Function]*pinResult{}
		for round := 0; round < 4; round++ {
			changed := false
			for _, fn := range fns {
				// only functions that can touch pins (directly or through a private helper they inline);
				// a private helper that all its callers inline is judged at its call sites
				touches := pm.touchesPins(fn, 2)
				if touches && pm.helperOnly(fn, inScope) {
					continue
				}
				if !touches {
					continue
				}
				if os.Getenv("SDB_TIMING") != "" {
					fmt.Fprintln(os.Stderr, "pins:", funcKey(fn))
				}
				res := pm.analyse(fn)
				results[fn] = res
				if res.returnsPinned || (pinObjectCtors[funcKey(fn)] && len(res.escapes) > 0) {
					if _, ok := pm.acquire[fn]; !ok {
						pm.acquire[fn] = "returns a pinned page/object"
						changed = true
					}
				}
			}
			if !changed {
				break
			}
		}
		var keys []*ssa.Function
		for fn := range results {
			keys = append(keys, fn)
		}
		sort.Slice(keys, func(i, j int) bool { return funcKey(keys[i]) < funcKey(keys[j]) })
		totalAcq := 0
		nFns := 0
		for _, fn := range keys {
			if filter != nil && !filter(fn) {
				continue
			}
			nFns++
			res := results[fn]
			k := funcKey(fn)
			totalAcq += res.acquires
			if res.truncated {
				r.Undecided(k+":pins", "state space cap hit", "")
				continue
			}
			if _, ok := pm.acquire[fn]; ok {
				r.Note(k+":returns-pinned", "derived acquire wrapper: callers are charged with the pin", pm.acquire[fn])
			}
			if len(res.escapes) > 0 {
				if reason, ok := pinEscapeAllow[k]; ok {
					r.Note(k+":pin-escapes-into-object", "declared transfer", reason)
				} else {
					r.Bad(k+":pin-escapes-into-object", "a pinned page may be stored into a long-lived object only by a declared transfer function", k+" stores a pinned page into an object at "+strings.Join(uniq(res.escapes), ", "))
				}
			}
			// group issues by acquire-independent kind
			if len(res.issues) == 0 {
				if res.acquires > 0 {
					r.Ok(k+":pins-released", fmt.Sprintf("all %d pin sites are released on every path", res.acquires))
				} else {
					r.OkTrivial(k+":pins-released", "only releases pins it was handed")
				}
				continue
			}
			byKind := map[string][]string{}
			for _, is := range res.issues {
				want := is.kind != "modified-page-unpinned-clean" // reported by C13-R8
				if len(onlyKinds) > 0 {
					want = false
					for _, k := range onlyKinds {
						if k == is.kind {
							want = true
						}
					}
				}
				if want {
					byKind[is.kind] = append(byKind[is.kind], w.InstrPos(is.in)+": "+is.detail)
				}
			}
			if len(byKind) == 0 {
				if len(onlyKinds) > 0 {
					r.Ok(k+":"+onlyKinds[0], "no such issue in this function")
				} else if res.acquires > 0 {
					r.Ok(k+":pins-released", fmt.Sprintf("all %d pin sites are released on every path", res.acquires))
				} else {
					r.OkTrivial(k+":pins-released", "only releases pins it was handed")
				}
				continue
			}
			var kinds []string
			for kd := range byKind {
				kinds = append(kinds, kd)
			}
			sort.Strings(kinds)
			for _, kd := range kinds {
				if kd == "unpin-without-pin" {
					if reason, ok := pinEscapeAllow[k]; ok {
						r.Note(k+":"+kd, "declared transfer function releases a pin owned by its object", reason)
						continue
					}
				}
				if kd == "closure-conditional" {
					r.Undecided(k+":"+kd, "idiom not modelled", strings.Join(byKind[kd], "; "))
					continue
				}
				r.Bad(k+":"+kd, "every pin is released exactly once on every path", strings.Join(uniq(byKind[kd]), "; "))
			}
		}
		r.Floor("functions touching pins (in scope)", nFns, floorFns)
		r.Floor("pin acquire sites examined", totalAcq, floorAcq)
	}
}
