package main

// rules_c03_c12.go — write-set discipline and rollback table (C03), request manager protocol (C12).

import (
	"fmt"
	"go/constant"
	"go/token"
	"go/types"
	"sort"
	"strings"

	"golang.org/x/tools/go/ssa"
)

func init() {
	reg("C03-R1", "every WType handed to NewWriteRecord anywhere in the tree has a branch in the write-set loop of TransactionManager.Abort (and of Commit, where INSERT needs none)", func(w *World, r *Report) {
		a := w.A()
		wt := w.Named("storage/access", "WType")
		enum := enumConsts(w, wt)
		used := map[int64][]string{}
		for _, fn := range w.RepoFuncs {
			if w.IsTestFunc(fn) {
				continue
			}
			EachCall(fn, func(c ssa.CallInstruction) {
				if CalleeObj(c) != a.NewWriteRecord {
					return
				}
				for _, arg := range c.Common().Args {
					if types.Identical(arg.Type(), wt) {
						cv, ok := constOf(arg)
						if !ok {
							fatalf("NewWriteRecord called with a non-constant WType at %s", w.InstrPos(c))
						}
						iv, _ := constant.Int64Val(cv)
						used[iv] = append(used[iv], funcKey(fn))
					}
				}
			})
		}
		r.Floor("WTypes constructed", len(used), 3)
		wtFld := w.Field("storage/access", "WriteRecord", "wtype")
		subj := func(v ssa.Value) bool { return fieldLoadOf(v, wtFld) }
		ab := caseSet(w.SSA(a.TMAbort), subj)
		cm := caseSet(w.SSA(a.TMCommit), subj)
		var vals []int64
		for v := range used {
			vals = append(vals, v)
		}
		sort.Slice(vals, func(i, j int) bool { return vals[i] < vals[j] })
		for _, v := range vals {
			n := enum[v].Name()
			r.Check(ab[v], "Abort:case:"+n, "Abort has a rollback branch for write records of kind "+n, "no branch for "+n+" (constructed by "+used[v][0]+")")
			if n == "INSERT" {
				r.Note("Commit:case:INSERT", "Commit needs no action for an inserted row", "by design")
				continue
			}
			r.Check(cm[v], "Commit:case:"+n, "Commit has a branch for write records of kind "+n, "no branch for "+n)
		}
	})

	reg("C03-R2", "every successful TableHeap mutation is recorded in the write set: InsertTuple / UpdateTuple / MarkDelete reach AddIntoWriteSet on every success path (exempt: isForUpdate=true, used only inside TableHeap.UpdateTuple, and an already ABORTED transaction)", func(w *World, r *Report) {
		a := w.A()
		param := func(fn *ssa.Function, name string) *ssa.Parameter {
			for _, p := range fn.Params {
				if p.Name() == name {
					return p
				}
			}
			fatalf("%s has no parameter %s", funcKey(fn), name)
			return nil
		}
		isParam := func(p *ssa.Parameter) func(ssa.Value) bool {
			return func(v ssa.Value) bool { return resolveCell(v) == ssa.Value(p) }
		}
		isAdd := InstrCallsObj(a.TxnAddWriteSet)
		// InsertTuple
		ins := w.SSA(a.THInsert)
		wit := (&PathQ{Fn: ins, Cut: []EdgeCut{CutWhen(isParam(param(ins, "isForUpdate")), true)}, Avoid: isAdd, Target: isReturn}).FromEntry()
		r.Check(wit == nil, "TableHeap.InsertTuple:write-set", "an insert (not part of an update) is always recorded", "path: "+w.DescribeWitness(ins, wit))
		// MarkDelete
		md := w.SSA(a.THMarkDelete)
		isMarked := func(v ssa.Value) bool {
			e, ok := resolveCell(v).(*ssa.Extract)
			if !ok || e.Index != 0 {
				return false
			}
			c, ok := e.Tuple.(*ssa.Call)
			return ok && CalleeObj(c) == a.TPMarkDelete
		}
		wit = (&PathQ{Fn: md, Cut: []EdgeCut{CutWhen(isParam(param(md, "isForUpdate")), true), CutWhen(isMarked, false)}, Avoid: isAdd, Target: func(in ssa.Instruction) bool { return mayReturnBool(in, 0, true) }}).FromEntry()
		r.Check(wit == nil, "TableHeap.MarkDelete:write-set", "a successful delete mark (not part of an update) is always recorded", "path: "+w.DescribeWitness(md, wit))
		// UpdateTuple
		up := w.SSA(a.THUpdate)
		abortedV, _ := constant.Int64Val(w.Const("storage/access", "ABORTED").Val())
		notAborted := CutWhen(func(v ssa.Value) bool { // txn.GetState() != ABORTED  -> remove the aborted side
			b, ok := v.(*ssa.BinOp)
			if !ok || (b.Op != token.NEQ && b.Op != token.EQL) {
				return false
			}
			isState := func(x ssa.Value) bool { return IsCallTo(a.TxnGetState)(stripConv(x)) }
			isAb := func(x ssa.Value) bool {
				cv, ok := constOf(x)
				if !ok {
					return false
				}
				iv, ok := constant.Int64Val(cv)
				return ok && iv == abortedV
			}
			return (isState(b.X) && isAb(b.Y)) || (isState(b.Y) && isAb(b.X))
		}, false)
		// NEQ true means not aborted: we must remove the edge on which state == ABORTED i.e. BinOp(NEQ) false. CutWhen(match,false) removes the edge on which the BinOp is false. (an EQL form would need the opposite; checked below)
		nState := 0
		for _, b := range up.Blocks {
			if i := blockIf(b); i != nil {
				if v, _ := condBase(i.Cond); v != nil {
					if bo, ok := v.(*ssa.BinOp); ok && bo.Op == token.EQL && DependsOn(bo, IsCallTo(a.TxnGetState)) {
						fatalf("TableHeap.UpdateTuple compares the transaction state with ==: idiom not modelled")
					}
					if bo, ok := v.(*ssa.BinOp); ok && bo.Op == token.NEQ && DependsOn(bo, IsCallTo(a.TxnGetState)) {
						nState++
					}
				}
			}
		}
		r.Floor("state tests in TableHeap.UpdateTuple", nState, 1)
		// success = first result may be true on the path taken (boolean phis are bound per path)
		isUpdatedByPage := func(v ssa.Value) bool {
			e, ok := resolveCell(v).(*ssa.Extract)
			if !ok || e.Index != 0 {
				return false
			}
			c, ok := e.Tuple.(*ssa.Call)
			return ok && CalleeObj(c) == a.TPUpdate
		}
		pageSaysUpdated := CutWhen(isUpdatedByPage, false)
		nRet := 0
		for _, b := range up.Blocks {
			for _, in := range b.Instrs {
				if _, ok := in.(*ssa.Return); ok {
					nRet++
				}
			}
		}
		r.Floor("returns of TableHeap.UpdateTuple", nRet, 1)
		success := func(in ssa.Instruction) bool {
			ret, ok := in.(*ssa.Return)
			if !ok || len(ret.Results) == 0 {
				return false
			}
			return canBeBool(Bound(retOperand(ret, 0)), true, map[ssa.Value]bool{})
		}
		// (a) in-place success: the page reported success
		wit = (&PathQ{Fn: up, Cut: []EdgeCut{notAborted, pageSaysUpdated}, Avoid: isAdd, Target: success}).FromEntry()
		r.Check(wit == nil, "TableHeap.UpdateTuple:write-set", "a successful update by a live transaction is always recorded", "path: "+w.DescribeWitness(up, wit))
		// (b) relocation success: after the re-insert of the relocated tuple, a `true` return passes AddIntoWriteSet
		reins := sitesCalling(up, a.THInsert)
		r.Floor("re-insert sites in TableHeap.UpdateTuple", len(reins), 1)
		wit = (&PathQ{Fn: up, Cut: []EdgeCut{notAborted}, Avoid: isAdd, Target: success}).FromAfter(reins)
		r.Check(wit == nil, "TableHeap.UpdateTuple:write-set-after-relocation", "a relocating update by a live transaction is always recorded", "path: "+w.DescribeWitness(up, wit))
		// write records built by UpdateTuple carry before image, after image and both RIDs
		n := 0
		EachCall(up, func(c ssa.CallInstruction) {
			if CalleeObj(c) != a.NewWriteRecord {
				return
			}
			n++
			args := c.Common().Args
			k := ordinalIn(up, c, a.NewWriteRecord)
			r.Check(DependsOn(args[3], func(v ssa.Value) bool {
				al, ok := v.(*ssa.Alloc)
				return ok && strings.Contains(al.Type().String(), "tuple.Tuple")
			}) || DependsOn(args[3], IsCallTo(a.TPUpdate)), "TableHeap.UpdateTuple:record-has-before-image"+k, "the UPDATE write record carries the before image", "tuple1 argument at "+w.InstrPos(c)+" is not the old tuple")
			r.Check(DependsOn(args[4], IsCallTo(a.TPUpdate)), "TableHeap.UpdateTuple:record-has-after-image"+k, "the UPDATE write record carries the after image (TablePage.UpdateTuple result)", "tuple2 argument at "+w.InstrPos(c)+" does not come from TablePage.UpdateTuple")
		})
		r.Floor("UPDATE write records built", n, 2)
		// isForUpdate=true only from TableHeap.UpdateTuple
		for _, o := range []*types.Func{a.THInsert, a.THMarkDelete} {
			fn := w.SSA(o)
			for _, cs := range w.Callers(fn) {
				if w.IsTestFunc(cs.Caller) {
					continue
				}
				args := cs.Instr.Common().Args
				cv, ok := constOf(args[len(args)-1])
				key := fmt.Sprintf("isForUpdate:%s<-%s%s", o.Name(), funcKey(topFunc(cs.Caller)), ordinalIn(cs.Caller, cs.Instr.(ssa.Instruction), o))
				if !ok {
					r.Undecided(key, "isForUpdate argument must be a constant", "non-constant at "+w.InstrPos(cs.Instr))
					continue
				}
				if constant.BoolVal(cv) {
					r.Check(topFunc(cs.Caller) == up, key, "only TableHeap.UpdateTuple may suppress the write record (it writes one UPDATE record itself)", funcKey(cs.Caller)+" calls "+o.Name()+" with isForUpdate=true at "+w.InstrPos(cs.Instr))
				} else {
					r.Ok(key, "caller lets the heap record the write")
				}
			}
		}
	})

	reg("C03-R3", "rollback table: in TransactionManager.Abort the write set is consumed last-in-first-out and each record kind runs its inverse (DELETE->RollbackDelete; INSERT->ApplyDelete + Index.DeleteEntry; UPDATE->ApplyDelete(new)+RollbackDelete(old) or UpdateTuple(before image, isRollback=true), and Index.UpdateEntry)", func(w *World, r *Report) {
		a := w.A()
		ab := w.SSA(a.TMAbort)
		wtFld := w.Field("storage/access", "WriteRecord", "wtype")
		subj := func(v ssa.Value) bool { return fieldLoadOf(v, wtFld) }
		enum := enumConsts(w, w.Named("storage/access", "WType"))
		delEntry := w.MethodObj("storage/index", "Index", "DeleteEntry")
		updEntry := w.MethodObj("storage/index", "Index", "UpdateEntry")
		insEntry := w.MethodObj("storage/index", "Index", "InsertEntry")
		watch := []*types.Func{a.THRollbackDelete, a.TPRollbackDelete, a.TPApplyDelete, a.THApplyDelete, a.TPUpdate, a.THUpdate, a.TPInsert, a.THInsert, a.TPMarkDelete, a.THMarkDelete, delEntry, updEntry, insEntry}
		expect := map[string][]string{
			"DELETE": {"RollbackDelete"},
			"INSERT": {"ApplyDelete", "DeleteEntry"},
			"UPDATE": {"ApplyDelete", "RollbackDelete", "UpdateEntry", "UpdateTuple"},
		}
		for v, c := range enum {
			want, ok := expect[c.Name()]
			if !ok {
				continue
			}
			reach := (&PathQ{Fn: ab, Cut: []EdgeCut{specCut(subj, v)}}).ReachableInstrs()
			got := map[string]bool{}
			isWatched := func(o *types.Func) bool {
				for _, x := range watch {
					if o == x {
						return true
					}
				}
				return false
			}
			for o := range w.CalledThroughHelpers(reach, isWatched, 3) {
				if isWatched(o) {
					got[o.Name()] = true
				}
			}
			r.Check(strings.Join(sortedKeys(got), ",") == strings.Join(want, ","), "Abort:inverse-of:"+c.Name(), "the rollback branch of "+c.Name()+" runs exactly the inverse operations {"+strings.Join(want, ",")+"}", "branch for "+c.Name()+" calls {"+strings.Join(sortedKeys(got), ",")+"}")
		}
		// UpdateTuple in the rollback branch restores the before image with isRollbackOrUndo = true
		tuple1 := w.Field("storage/access", "WriteRecord", "tuple1")
		for _, s := range sitesCalling(ab, a.TPUpdate) {
			c := s.(*ssa.Call)
			args := c.Call.Args
			cv, ok := constOf(args[len(args)-1])
			r.Check(ok && constant.BoolVal(cv), "Abort:UpdateTuple-isRollback", "in-place rollback calls UpdateTuple with isRollbackOrUndo=true", "last argument at "+w.InstrPos(s)+" is not the constant true")
			r.Check(DependsOn(args[1], func(v ssa.Value) bool { return fieldLoadOf(v, tuple1) }), "Abort:UpdateTuple-installs-before-image", "in-place rollback installs the before image (item.tuple1)", "tuple argument at "+w.InstrPos(s)+" is not item.tuple1")
		}
		// LIFO: the record processed is writeSet[len(writeSet)-1] and the slice shrinks by one per iteration
		lifo := false
		shrink := false
		for _, b := range ab.Blocks {
			for _, in := range b.Instrs {
				switch x := in.(type) {
				case *ssa.IndexAddr:
					if strings.Contains(x.X.Type().String(), "WriteRecord") {
						if bo, ok := x.Index.(*ssa.BinOp); ok && bo.Op == token.SUB && DependsOn(bo.X, func(v ssa.Value) bool {
							c, ok := v.(*ssa.Call)
							if !ok {
								return false
							}
							bi, ok := c.Call.Value.(*ssa.Builtin)
							return ok && bi.Name() == "len"
						}) {
							if cv, ok := constOf(bo.Y); ok {
								if iv, _ := constant.Int64Val(cv); iv == 1 {
									lifo = true
								}
							}
						}
					}
				case *ssa.Slice:
					if strings.Contains(x.X.Type().String(), "WriteRecord") && x.High != nil {
						if bo, ok := x.High.(*ssa.BinOp); ok && bo.Op == token.SUB {
							shrink = true
						}
					}
				}
			}
		}
		r.Check(lifo, "Abort:LIFO-element", "the record rolled back is the last element of the write set", "no writeSet[len(writeSet)-1] access in Abort")
		r.Check(shrink, "Abort:LIFO-shrink", "the write set shrinks from the end", "no writeSet[:len-1] reslice in Abort")
		// the loop runs until the set is empty: loop header depends on len(writeSet)
	})

	reg("C03-R5", "index rollback mirrors the forward update: in the UPDATE branch of TransactionManager.Abort every non-nil index gets an UpdateEntry whenever the row was relocated (rid1 != rid2), as UpdateExecutor moved every index entry to the new RID", func(w *World, r *Report) {
		a := w.A()
		ab := w.SSA(a.TMAbort)
		updEntry := w.MethodObj("storage/index", "Index", "UpdateEntry")
		keyAttrs := w.MethodObj("storage/index", "Index", "GetKeyAttrs")
		rid1 := w.Field("storage/access", "WriteRecord", "rid1")
		rid2 := w.Field("storage/access", "WriteRecord", "rid2")
		isRidCmp := func(v ssa.Value) bool {
			bo, ok := v.(*ssa.BinOp)
			if !ok || (bo.Op != token.NEQ && bo.Op != token.EQL) {
				return false
			}
			d1 := func(x ssa.Value) bool { return DependsOn(x, func(y ssa.Value) bool { return fieldLoadOf(y, rid1) }) }
			d2 := func(x ssa.Value) bool { return DependsOn(x, func(y ssa.Value) bool { return fieldLoadOf(y, rid2) }) }
			return (d1(bo.X) && d2(bo.Y)) || (d2(bo.X) && d1(bo.Y))
		}
		// keep the "relocated" side of every rid1/rid2 comparison
		relocated := func(b *ssa.BasicBlock, succ int) bool {
			i := blockIf(b)
			if i == nil {
				return false
			}
			v, neg := condBase(i.Cond)
			if !isRidCmp(v) {
				return false
			}
			bo := v.(*ssa.BinOp)
			differWhenTrue := bo.Op == token.NEQ
			binTrueOnEdge := (succ == 0) != neg
			return binTrueOnEdge != differWhenTrue // remove the edge on which the RIDs are equal
		}
		starts := sitesCalling(ab, keyAttrs)
		r.Floor("per-index bodies in Abort (GetKeyAttrs sites)", len(starts), 1)
		nCmp := 0
		for _, b := range ab.Blocks {
			if i := blockIf(b); i != nil {
				if v, _ := condBase(i.Cond); isRidCmp(v) {
					nCmp++
				}
			}
		}
		r.Floor("rid1/rid2 comparisons in Abort", nCmp, 1)
		wit := (&PathQ{Fn: ab, Cut: []EdgeCut{relocated}, Avoid: InstrCallsObj(updEntry), Target: func(in ssa.Instruction) bool {
			if isReturn(in) {
				return true
			}
			for _, s := range starts {
				if s == in {
					return true
				}
			}
			if sl, ok := in.(*ssa.Slice); ok && strings.Contains(sl.X.Type().String(), "WriteRecord") {
				return true
			}
			return false
		}}).FromAfter(starts)
		r.Check(wit == nil, "Abort:UPDATE-index-entry-restored-when-row-moved", "when the aborted update relocated the row, every index entry is moved back (UpdateEntry) regardless of whether the key changed", "path through the per-index rollback without UpdateEntry although rid1 != rid2: "+w.DescribeWitness(ab, wit))
	})

	reg("C12-R1", "each request is answered exactly once: in RequestManager.Run a received result leads to exactly one of {re-queue (handleAbortedByCCTxn), reply on the caller's channel}; ExecuteSQLForTxnTh sends exactly one result on every path", func(w *World, r *Report) {
		run := w.Fn("samehada", "RequestManager", "Run")
		handle := w.MethodObj("samehada", "RequestManager", "handleAbortedByCCTxn")
		callerCh := w.Field("samehada", "reqResult", "callerCh")
		isReply := func(in ssa.Instruction) bool {
			s, ok := in.(*ssa.Send)
			return ok && DependsOn(s.Chan, func(v ssa.Value) bool { return fieldLoadOf(v, callerCh) })
		}
		isHandle := InstrCallsObj(handle)
		isRecv := func(in ssa.Instruction) bool {
			u, ok := in.(*ssa.UnOp)
			return ok && u.Op == token.ARROW
		}
		var recvs, outs []ssa.Instruction
		for _, b := range run.Blocks {
			for _, in := range b.Instrs {
				if isRecv(in) {
					recvs = append(recvs, in)
				}
				if isReply(in) || isHandle(in) {
					outs = append(outs, in)
				}
			}
		}
		r.Floor("receives in Run", len(recvs), 1)
		nReply, nHandle := 0, 0
		for _, in := range outs {
			if isReply(in) {
				nReply++
			} else {
				nHandle++
			}
		}
		r.Floor("reply sites in Run", nReply, 1)
		r.Floor("requeue sites in Run", nHandle, 1)
		recvVal := recvs[0].(ssa.Value)
		nonNil := nilCompareCut(func(v ssa.Value) bool { return resolveCell(v) == recvVal }, true)
		wit := (&PathQ{Fn: run, Cut: []EdgeCut{nonNil}, Avoid: func(in ssa.Instruction) bool { return isReply(in) || isHandle(in) }, Target: func(in ssa.Instruction) bool { return isRecv(in) || isReturn(in) }}).FromAfter(recvs)
		r.Check(wit == nil, "Run:result-answered-or-requeued", "a received result is always either re-queued or sent to its caller", "path: "+w.DescribeWitness(run, wit))
		wit = (&PathQ{Fn: run, Avoid: isRecv, Target: func(in ssa.Instruction) bool { return isReply(in) || isHandle(in) }}).FromAfter(outs)
		r.Check(wit == nil, "Run:at-most-one-answer", "a received result is never both re-queued and answered, nor answered twice", "path: "+w.DescribeWitness(run, wit))
		// re-queue only for QueryAbortedErr
		qerr := w.Obj("samehada", "QueryAbortedErr")
		isQErr := func(v ssa.Value) bool {
			g, ok := v.(*ssa.Global)
			return ok && g.Object() == qerr
		}
		wit = (&PathQ{Fn: run, Avoid: ifDependsOn(isQErr), Target: isHandle}).FromEntry()
		r.Check(wit == nil, "Run:requeue-only-on-QueryAbortedErr", "a request is re-queued only after comparing its error with QueryAbortedErr", "path: "+w.DescribeWitness(run, wit))
		// the reply goes to the channel stored in the result (its own caller)
		// handleAbortedByCCTxn re-queues the same request id / query / caller channel at the head
		h := w.SSA(handle)
		que := w.Field("samehada", "RequestManager", "execQue")
		okStore := false
		for _, b := range h.Blocks {
			for _, in := range b.Instrs {
				if st, ok := in.(*ssa.Store); ok && isFieldAddrOf(st.Addr, que) {
					okStore = DependsOn(st.Val, func(v ssa.Value) bool { return fieldLoadOf(v, callerCh) }) &&
						DependsOn(st.Val, func(v ssa.Value) bool { return fieldLoadOf(v, w.Field("samehada", "reqResult", "query")) }) &&
						DependsOn(st.Val, func(v ssa.Value) bool { return fieldLoadOf(v, w.Field("samehada", "reqResult", "reqID")) })
				}
			}
		}
		r.Check(okStore, "handleAbortedByCCTxn:requeues-same-request", "the re-queued entry carries the aborted request's id, query text and caller channel", "execQue is not rebuilt from result.reqID/query/callerCh")
		// worker
		th := w.Fn("samehada", "SamehadaDB", "ExecuteSQLForTxnTh")
		isSend := func(in ssa.Instruction) bool { _, ok := in.(*ssa.Send); return ok }
		wit = (&PathQ{Fn: th, Avoid: isSend, Target: isReturn}).FromEntry()
		r.Check(wit == nil, "ExecuteSQLForTxnTh:sends-on-every-path", "the worker reports a result on every path", "path: "+w.DescribeWitness(th, wit))
		var sends []ssa.Instruction
		for _, b := range th.Blocks {
			for _, in := range b.Instrs {
				if isSend(in) {
					sends = append(sends, in)
				}
			}
		}
		wit = (&PathQ{Fn: th, Target: isSend}).FromAfter(sends)
		r.Check(wit == nil, "ExecuteSQLForTxnTh:sends-once", "the worker reports at most one result", "path: "+w.DescribeWitness(th, wit))
		// the result sent carries the request's own id / caller channel
		for _, s := range sends {
			v := s.(*ssa.Send).X
			qr := th.Params[len(th.Params)-1]
			r.Check(DependsOn(v, func(x ssa.Value) bool { return x == ssa.Value(qr) }), "ExecuteSQLForTxnTh:result-tagged-with-request"+sendOrdinal(th, s), "the result is tagged with the request it belongs to", "result at "+w.InstrPos(s)+" does not depend on the request parameter")
		}
	})

	reg("C12-R2", "ExecuteSQLRetValues: QueryAbortedErr is returned only after the transaction was rolled back (TransactionManager.Abort); every transaction begun there is ended exactly once (C12-R3)", func(w *World, r *Report) {
		a := w.A()
		fn := w.Fn("samehada", "SamehadaDB", "ExecuteSQLRetValues")
		qerr := w.Obj("samehada", "QueryAbortedErr")
		isQErrRet := func(in ssa.Instruction) bool {
			ret, ok := in.(*ssa.Return)
			if !ok || len(ret.Results) == 0 {
				return false
			}
			return DependsOn(retOperand(ret, 0), func(v ssa.Value) bool {
				g, ok := v.(*ssa.Global)
				return ok && g.Object() == qerr
			})
		}
		n := 0
		for _, b := range fn.Blocks {
			for _, in := range b.Instrs {
				if isQErrRet(in) {
					n++
				}
			}
		}
		r.Floor("returns of QueryAbortedErr", n, 1)
		wit := (&PathQ{Fn: fn, Avoid: InstrCallsObj(a.TMAbort), Target: isQErrRet}).FromEntry()
		r.Check(wit == nil, "ExecuteSQLRetValues:abort-before-QueryAbortedErr", "the statement is rolled back before it is reported as aborted (and retried)", "path: "+w.DescribeWitness(fn, wit))
		// an ABORTED transaction is never committed: the commit after execution is behind the state test
		exec := w.MethodObj("execution/executors", "ExecutionEngine", "Execute")
		ex := sitesCalling(fn, exec)
		r.Floor("Execute sites", len(ex), 1)
		wit = (&PathQ{Fn: fn, Avoid: ifDependsOn(IsCallTo(a.TxnGetState)), Target: InstrCallsObj(a.TMCommit, a.TMAbort)}).FromAfter(ex)
		r.Check(wit == nil, "ExecuteSQLRetValues:outcome-decided-by-state", "commit vs. abort after execution is decided by the transaction state", "path: "+w.DescribeWitness(fn, wit))
		// result rows are produced only on the commit side
		conv := w.FuncObj("samehada/samehada_util", "ConvTupleListToValues")
		wit = (&PathQ{Fn: fn, Avoid: InstrCallsObj(a.TMCommit), Target: InstrCallsObj(conv)}).FromEntry()
		r.Check(wit == nil, "ExecuteSQLRetValues:rows-only-after-commit", "rows are handed to the caller only after the transaction committed", "path: "+w.DescribeWitness(fn, wit))
	})

	reg("C12-R3", "every transaction started with TransactionManager.Begin outside tests is ended by exactly one Commit or Abort on every non-panicking path of the function that started it", func(w *World, r *Report) {
		a := w.A()
		n := 0
		for _, fn := range w.RepoFuncs {
			if w.IsTestFunc(fn) {
				continue
			}
			begins := sitesCalling(fn, a.TMBegin)
			if len(begins) == 0 {
				continue
			}
			n++
			k := funcKey(fn)
			isEnd := InstrCallsObj(a.TMCommit, a.TMAbort)
			deferredEnd := false
			for _, b := range fn.Blocks {
				for _, in := range b.Instrs {
					if d, ok := in.(*ssa.Defer); ok {
						if o := CalleeObj(d); o == a.TMCommit || o == a.TMAbort {
							deferredEnd = true
						}
					}
				}
			}
			end := func(in ssa.Instruction) bool {
				if isEnd(in) {
					return true
				}
				if _, ok := in.(*ssa.RunDefers); ok && deferredEnd {
					return true
				}
				return false
			}
			wit := (&PathQ{Fn: fn, Avoid: end, Target: isReturn}).FromAfter(begins)
			r.Check(wit == nil, k+":begin-is-ended", "a begun transaction is committed or aborted before the function returns", "path: "+w.DescribeWitness(fn, wit))
			var ends []ssa.Instruction
			for _, b := range fn.Blocks {
				for _, in := range b.Instrs {
					if isEnd(in) {
						ends = append(ends, in)
					}
				}
			}
			wit = (&PathQ{Fn: fn, Avoid: InstrCallsObj(a.TMBegin), Target: end}).FromAfter(ends)
			r.Check(wit == nil, k+":ended-once", "a transaction is not ended twice", "path: "+w.DescribeWitness(fn, wit))
		}
		r.Floor("functions beginning transactions", n, 3)
	})
}

func sendOrdinal(fn *ssa.Function, in ssa.Instruction) string {
	var poss []token.Pos
	for _, b := range fn.Blocks {
		for _, x := range b.Instrs {
			if _, ok := x.(*ssa.Send); ok {
				poss = append(poss, x.Pos())
			}
		}
	}
	sort.Slice(poss, func(i, j int) bool { return poss[i] < poss[j] })
	for i, p := range poss {
		if p == in.Pos() {
			return fmt.Sprintf("#%d", i+1)
		}
	}
	return "#?"
}

func init() {
	reg("C12-R6", "the dispatcher cannot be blocked by a caller: RequestManager.Run is the only receiver of the wake-up/result channel, so its sends must not wait for a caller — every channel that reaches a callerCh field (queryRequest / reqResult) is made with a constant capacity >= 1 (one reply per request: C12-R1), or is a copy of another callerCh field; Run sends on nothing else", func(w *World, r *Report) {
		run := w.Fn("samehada", "RequestManager", "Run")
		cq := w.Field("samehada", "queryRequest", "callerCh")
		cr := w.Field("samehada", "reqResult", "callerCh")
		isCallerChLoad := func(v ssa.Value) bool { return fieldLoadOf(v, cq) || fieldLoadOf(v, cr) }
		// sends in Run (and in the helpers it calls on the dispatcher goroutine)
		nSend := 0
		for _, fn := range []*ssa.Function{run, w.Fn("samehada", "RequestManager", "handleAbortedByCCTxn"), w.Fn("samehada", "RequestManager", "executeQuedTxns"), w.Fn("samehada", "RequestManager", "RetrieveRequest")} {
			for _, b := range fn.Blocks {
				for _, in := range b.Instrs {
					s, ok := in.(*ssa.Send)
					if !ok {
						continue
					}
					nSend++
					r.Check(DependsOn(s.Chan, isCallerChLoad), fn.Name()+":sends-only-replies"+ordinalOfSend(fn, s), "the dispatcher goroutine sends only on per-request reply channels", "send at "+w.InstrPos(s)+" on a channel that is not a callerCh: its capacity is not covered by this rule")
				}
			}
		}
		r.Floor("sends on the dispatcher goroutine", nSend, 1)
		// every store into a callerCh field
		nStore, nMake := 0, 0
		for _, fn := range w.RepoFuncs {
			if w.IsTestFunc(fn) {
				continue
			}
			for _, b := range fn.Blocks {
				for _, in := range b.Instrs {
					st, ok := in.(*ssa.Store)
					if !ok || !(isFieldAddrOf(st.Addr, cq) || isFieldAddrOf(st.Addr, cr)) {
						continue
					}
					nStore++
					key := funcKey(fn) + ":callerCh-origin" + storeOrdinalAny(fn, st)
					val := stripConv(st.Val)
					if isCallerChLoad(val) {
						r.Ok(key, "copy of another request's reply channel")
						continue
					}
					al, isAlloc := val.(*ssa.Alloc)
					if !isAlloc {
						r.Bad(key, "a reply channel is made with capacity >= 1 where the request is created", "value stored at "+w.InstrPos(st)+" is neither a fresh channel cell nor a copy of a callerCh field")
						continue
					}
					good, seen := true, false
					for _, s2 := range storesInto(al) {
						mc, ok := stripConv(s2.Val).(*ssa.MakeChan)
						if !ok {
							good = false
							continue
						}
						seen = true
						nMake++
						cv, isConst := constOf(mc.Size)
						if !isConst {
							good = false
							continue
						}
						if n, _ := constant.Int64Val(constant.ToInt(cv)); n < 1 {
							good = false
						}
					}
					r.Check(good && seen, key, "a reply channel is made with capacity >= 1 where the request is created", "the channel stored at "+w.InstrPos(st)+" is unbuffered (or of unknown capacity): the dispatcher blocks on the reply while the caller is still blocked on the full wake-up channel, and nobody drains that channel any more")
				}
			}
		}
		r.Floor("stores into callerCh fields", nStore, 2)
		r.Floor("reply channels made", nMake, 1)
	})
}

func ordinalOfSend(fn *ssa.Function, s *ssa.Send) string {
	n := 0
	for _, b := range fn.Blocks {
		for _, in := range b.Instrs {
			if x, ok := in.(*ssa.Send); ok {
				n++
				if x == s {
					return "#" + itoa(n)
				}
			}
		}
	}
	return ""
}

func storeOrdinalAny(fn *ssa.Function, st *ssa.Store) string {
	n := 0
	for _, b := range fn.Blocks {
		for _, in := range b.Instrs {
			if x, ok := in.(*ssa.Store); ok {
				if fa, ok := x.Addr.(*ssa.FieldAddr); ok {
					if fa2, ok := st.Addr.(*ssa.FieldAddr); ok && fa.Field == fa2.Field && fa.X.Type() == fa2.X.Type() {
						n++
						if x == st {
							return "#" + itoa(n)
						}
					}
				}
			}
		}
	}
	return ""
}
