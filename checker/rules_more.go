package main

// rules_more.go — second wave of rules: specialisation rules for the lock manager (C16-R5),
// per-index bodies of Commit/Abort (C07-R5), request-manager counters and wake-ups (C12-R5),
// sticky dirty flag (C13-R6).

import (
	"go/constant"
	"go/token"
	"go/types"
	"strings"

	"golang.org/x/tools/go/ssa"
)

func init() {
	reg("C16-R5", "no grant against a foreign exclusive lock: with the row's exclusiveLockTable entry present and owned by another transaction assumed, LockShared / LockExclusive / LockUpgrade reach neither a lock-table or lock-set update nor `return true` (outside recovery)", func(w *World, r *Report) {
		a := w.A()
		xt := w.Field("storage/access", "LockManager", "exclusiveLockTable")
		st := w.Field("storage/access", "LockManager", "sharedLockTable")
		getID := w.MethodObj("storage/access", "Transaction", "GetTransactionID")
		setS := w.MethodObj("storage/access", "Transaction", "SetSharedLockSet")
		setX := w.MethodObj("storage/access", "Transaction", "SetExclusiveLockSet")
		isXLookup := func(v ssa.Value) bool {
			l, ok := v.(*ssa.Lookup)
			return ok && fieldLoadOf(l.X, xt)
		}
		okTrue := CutWhen(func(v ssa.Value) bool {
			e, ok := v.(*ssa.Extract)
			return ok && e.Index == 1 && isXLookup(e.Tuple)
		}, false)
		// truth of a value under the assumption "the exclusive owner is another transaction"
		ownerCmp := func(v ssa.Value) (bool, bool) {
			base, neg := condBase(v)
			bo, ok := base.(*ssa.BinOp)
			if !ok || (bo.Op != token.EQL && bo.Op != token.NEQ) {
				return false, false
			}
			own := func(x ssa.Value) bool { return DependsOn(x, isXLookup) }
			me := func(x ssa.Value) bool { return DependsOn(x, IsCallTo(getID)) }
			if !((own(bo.X) && me(bo.Y)) || (own(bo.Y) && me(bo.X))) {
				return false, false
			}
			val := bo.Op == token.NEQ
			if neg {
				val = !val
			}
			return val, true
		}
		ownerIsOther := func(b *ssa.BasicBlock, succ int) bool {
			i := blockIf(b)
			if i == nil {
				return false
			}
			val, ok := ownerCmp(i.Cond)
			return ok && (succ == 0) != val // remove the edge on which owner == me
		}
		rec := CutWhen(IsCallTo(a.TxnIsRecovery), true)
		for _, o := range []*types.Func{a.LockShared, a.LockExclusive, a.LockUpgrade} {
			fn := w.SSA(o)
			n := 0
			for _, b := range fn.Blocks {
				for s := range b.Succs {
					if ownerIsOther(b, s) {
						n++
					}
				}
			}
			for _, b := range fn.Blocks {
				for _, in := range b.Instrs {
					if ret, ok := in.(*ssa.Return); ok && len(ret.Results) > 0 {
						if _, ok := ownerCmp(retOperand(ret, 0)); ok {
							n++ // `return owner == me`
						}
					}
				}
			}
			r.Floor(o.Name()+" owner comparisons", n, 1)
			isEffect := func(in ssa.Instruction) bool {
				if mu, ok := in.(*ssa.MapUpdate); ok {
					return fieldLoadOf(mu.Map, xt) || fieldLoadOf(mu.Map, st)
				}
				return InstrCallsObj(setS, setX)(in)
			}
			cuts := []EdgeCut{rec, okTrue, ownerIsOther}
			wit := (&PathQ{Fn: fn, Cut: cuts, Target: isEffect}).FromEntry()
			r.Check(wit == nil, o.Name()+":no-grant-against-foreign-X", "no lock-table / lock-set update while another transaction holds the row exclusively", "path: "+w.DescribeWitness(fn, wit))
			wit = (&PathQ{Fn: fn, Cut: cuts, Target: func(in ssa.Instruction) bool {
				ret, ok := in.(*ssa.Return)
				return ok && len(ret.Results) > 0 && canBeBoolK(retOperand(ret, 0), true, map[ssa.Value]bool{}, ownerCmp)
			}}).FromEntry()
			r.Check(wit == nil, o.Name()+":denied-against-foreign-X", "the request is denied (`return false`) while another transaction holds the row exclusively", "`return true` reachable: "+w.DescribeWitness(fn, wit))
		}
	})

	reg("C07-R5", "index maintenance at transaction end is unconditional per index: in TransactionManager.Commit (DELETE records) and Abort (INSERT records) every non-nil index of the table gets DeleteEntry with the record's tuple and RID", func(w *World, r *Report) {
		a := w.A()
		delEntry := w.MethodObj("storage/index", "Index", "DeleteEntry")
		wtFld := w.Field("storage/access", "WriteRecord", "wtype")
		t1 := w.Field("storage/access", "WriteRecord", "tuple1")
		r1 := w.Field("storage/access", "WriteRecord", "rid1")
		subj := func(v ssa.Value) bool { return fieldLoadOf(v, wtFld) }
		getIdx := w.MethodObj("catalog/catalog_interface", "CatalogInterface", "GetRollbackNeededIndexes")
		type inst struct {
			fn   *ssa.Function
			kind string
		}
		for _, it := range []inst{{w.SSA(a.TMCommit), "DELETE"}, {w.SSA(a.TMAbort), "INSERT"}} {
			kv, _ := constant.Int64Val(w.Const("storage/access", it.kind).Val())
			spec := specCut(subj, kv)
			// the per-index body starts on the non-nil side of `idx != nil`; idx is an element of the slice returned by GetRollbackNeededIndexes
			isIdx := func(v ssa.Value) bool { return DependsOn(v, IsCallTo(getIdx)) }
			var starts []*ssa.BasicBlock
			reach := (&PathQ{Fn: it.fn, Cut: []EdgeCut{spec}}).ReachableInstrs()
			for _, b := range it.fn.Blocks {
				i := blockIf(b)
				if i == nil || !reach[i] {
					continue
				}
				for s, succ := range b.Succs {
					// keep the non-nil edge
					if nilCompareCut(isIdx, true)(b, s) {
						continue
					}
					if v, _ := condBase(i.Cond); v != nil {
						if bo, ok := v.(*ssa.BinOp); ok && (bo.Op == token.EQL || bo.Op == token.NEQ) && (isIdx(bo.X) || isIdx(bo.Y)) {
							if _, isIface := bo.X.Type().Underlying().(*types.Interface); isIface {
								starts = append(starts, succ)
							}
						}
					}
				}
			}
			name := it.fn.Name() + ":" + it.kind
			r.Floor(name+" per-index bodies", len(starts), 1)
			for _, sb := range starts {
				wit := (&PathQ{Fn: it.fn, Cut: []EdgeCut{spec}, Avoid: InstrCallsObj(delEntry), Target: func(in ssa.Instruction) bool {
					if isReturn(in) {
						return true
					}
					if sl, ok := in.(*ssa.Slice); ok && strings.Contains(sl.X.Type().String(), "WriteRecord") {
						return true
					}
					// next iteration of the index loop: the range's index increment block is recognised by the Next-like phi; use the If itself
					return false
				}}).FromAfterPos(sb)
				r.Check(wit == nil, name+":DeleteEntry-for-every-index", "every non-nil index gets DeleteEntry for a "+it.kind+" write record", "path through the per-index body without DeleteEntry: "+w.DescribeWitness(it.fn, wit))
			}
			// arguments: the record's own tuple and RID
			for in := range reach {
				c, ok := in.(ssa.CallInstruction)
				if !ok || CalleeObj(c) != delEntry {
					continue
				}
				args := c.Common().Args
				r.Check(DependsOn(args[0], func(v ssa.Value) bool { return fieldLoadOf(v, t1) }) && DependsOn(args[1], func(v ssa.Value) bool { return fieldLoadOf(v, r1) }), name+":DeleteEntry-gets-record-tuple-and-rid"+ordinalIn(it.fn, c, delEntry), "the entry removed is the one of the write record (tuple1, rid1)", "arguments at "+w.InstrPos(c))
			}
		}
	})

	reg("C12-R5", "dispatcher bookkeeping: every result received by RequestManager.Run decrements curExectingReqNum; executeQuedTxns increments it and starts exactly one worker; AppendRequest enqueues before it wakes the dispatcher; the dispatcher re-examines the queue after every wake-up", func(w *World, r *Report) {
		run := w.Fn("samehada", "RequestManager", "Run")
		cnt := w.Field("samehada", "RequestManager", "curExectingReqNum")
		que := w.Field("samehada", "RequestManager", "execQue")
		inCh := w.Field("samehada", "RequestManager", "inCh")
		stepStore := func(op token.Token) func(ssa.Instruction) bool {
			return func(in ssa.Instruction) bool {
				st, ok := in.(*ssa.Store)
				if !ok || !isFieldAddrOf(st.Addr, cnt) {
					return false
				}
				bo, ok := st.Val.(*ssa.BinOp)
				return ok && bo.Op == op && DependsOn(bo.X, func(v ssa.Value) bool { return fieldLoadOf(v, cnt) })
			}
		}
		isRecv := func(in ssa.Instruction) bool {
			u, ok := in.(*ssa.UnOp)
			return ok && u.Op == token.ARROW
		}
		var recvs []ssa.Instruction
		for _, b := range run.Blocks {
			for _, in := range b.Instrs {
				if isRecv(in) {
					recvs = append(recvs, in)
				}
			}
		}
		r.Floor("receives in Run", len(recvs), 1)
		recvVal := recvs[0].(ssa.Value)
		nonNil := nilCompareCut(func(v ssa.Value) bool { return resolveCell(v) == recvVal }, true)
		wit := (&PathQ{Fn: run, Cut: []EdgeCut{nonNil}, Avoid: stepStore(token.SUB), Target: func(in ssa.Instruction) bool { return isRecv(in) || isReturn(in) }}).FromAfter(recvs)
		r.Check(wit == nil, "Run:result-frees-a-worker-slot", "a received result always decrements the in-flight counter (otherwise the pool of 24 workers drains and callers block for ever)", "path: "+w.DescribeWitness(run, wit))
		// after every wake-up the queue is examined (branch on len(execQue)) unless the manager is stopping
		active := w.Field("samehada", "RequestManager", "isExecutionActive")
		ifQue := ifDependsOn(func(v ssa.Value) bool { return fieldLoadOf(v, que) })
		stopEdge := CutWhen(func(v ssa.Value) bool { return fieldLoadOf(v, active) }, false)
		wit = (&PathQ{Fn: run, Cut: []EdgeCut{stopEdge}, Avoid: ifQue, Target: isRecv}).FromAfter(recvs)
		r.Check(wit == nil, "Run:queue-examined-after-every-wakeup", "after every wake-up the dispatcher looks at the queue before it sleeps again", "path: "+w.DescribeWitness(run, wit))
		ex := w.Fn("samehada", "RequestManager", "executeQuedTxns")
		wit = (&PathQ{Fn: ex, Avoid: stepStore(token.ADD), Target: isReturn}).FromEntry()
		r.Check(wit == nil, "executeQuedTxns:counts-the-worker", "starting a worker increments the in-flight counter", "path: "+w.DescribeWitness(ex, wit))
		nGo := 0
		worker := w.MethodObj("samehada", "SamehadaDB", "ExecuteSQLForTxnTh")
		for _, b := range ex.Blocks {
			for _, in := range b.Instrs {
				if g, ok := in.(*ssa.Go); ok && CalleeObj(g) == worker {
					nGo++
				}
			}
		}
		r.Check(nGo == 1, "executeQuedTxns:starts-one-worker", "exactly one worker goroutine is started per dequeued request", "go statements found: "+itoa(nGo))
		retrieve := w.MethodObj("samehada", "RequestManager", "RetrieveRequest")
		r.Check(len(sitesCalling(ex, retrieve)) == 1, "executeQuedTxns:dequeues-one-request", "exactly one request is dequeued per worker", "RetrieveRequest call sites: "+itoa(len(sitesCalling(ex, retrieve))))
		// AppendRequest: enqueue precedes wake-up, wake-up on every path, returns the caller's own channel
		ap := w.Fn("samehada", "RequestManager", "AppendRequest")
		isEnq := func(in ssa.Instruction) bool {
			st, ok := in.(*ssa.Store)
			return ok && isFieldAddrOf(st.Addr, que)
		}
		isWake := func(in ssa.Instruction) bool {
			s, ok := in.(*ssa.Send)
			return ok && DependsOn(s.Chan, func(v ssa.Value) bool { return fieldLoadOf(v, inCh) })
		}
		wit = (&PathQ{Fn: ap, Avoid: isEnq, Target: isWake}).FromEntry()
		r.Check(wit == nil, "AppendRequest:enqueue-before-wakeup", "the request is in the queue before the dispatcher is woken", "path: "+w.DescribeWitness(ap, wit))
		wit = (&PathQ{Fn: ap, Avoid: isWake, Target: isReturn}).FromEntry()
		r.Check(wit == nil, "AppendRequest:always-wakes-dispatcher", "every appended request wakes the dispatcher", "path: "+w.DescribeWitness(ap, wit))
		// the channel returned is the one stored in the queued request
		for _, b := range ap.Blocks {
			for _, in := range b.Instrs {
				if ret, ok := in.(*ssa.Return); ok {
					rv := retOperand(ret, 0)
					okSame := false
					for _, bb := range ap.Blocks {
						for _, x := range bb.Instrs {
							if st, ok := x.(*ssa.Store); ok && isFieldAddrOf(st.Addr, w.Field("samehada", "queryRequest", "callerCh")) && st.Val == rv {
								okSame = true
							}
						}
					}
					r.Check(okSame, "AppendRequest:returns-the-queued-channel", "the caller waits on the channel that was stored in its queued request", "returned channel at "+w.InstrPos(ret)+" is not the one stored in qr.callerCh")
				}
			}
		}
		// ExecuteSQL waits for exactly that channel
		es := w.Fn("samehada", "SamehadaDB", "ExecuteSQL")
		appendReq := w.MethodObj("samehada", "RequestManager", "AppendRequest")
		okWait := false
		for _, b := range es.Blocks {
			for _, in := range b.Instrs {
				if u, ok := in.(*ssa.UnOp); ok && u.Op == token.ARROW && DependsOn(u.X, IsCallTo(appendReq)) {
					okWait = true
				}
			}
		}
		r.Check(okWait, "ExecuteSQL:waits-on-own-channel", "ExecuteSQL receives from the channel AppendRequest returned for its own statement", "no receive from AppendRequest's result in ExecuteSQL")
	})

	reg("C13-R6", "the dirty flag is sticky until write-back: in UnpinPage, with the page assumed already dirty, SetIsDirty is never called with anything but the constant true; inside the pool SetIsDirty(false) happens only in FlushPage (which writes the page)", func(w *World, r *Report) {
		a := w.A()
		un := w.SSA(a.BPMUnpin)
		dirty := CutWhen(IsCallTo(a.PageIsDirty), false)
		n := 0
		for in := range (&PathQ{Fn: un, Cut: []EdgeCut{dirty}}).ReachableInstrs() {
			c, ok := in.(*ssa.Call)
			if !ok || CalleeObj(c) != a.PageSetIsDirty {
				continue
			}
			n++
			// the argument is judged on each path with boolean phis resolved (`SetIsDirty(pg.IsDirty() || isDirty)`
			// passes the constant true on the only path a dirty page can take)
			site := in
			wit := (&PathQ{Fn: un, Cut: []EdgeCut{dirty}, Target: func(x ssa.Instruction) bool {
				if x != site {
					return false
				}
				cv, isConst := constOf(Bound(c.Call.Args[len(c.Call.Args)-1]))
				return !(isConst && constant.BoolVal(cv))
			}}).FromEntry()
			r.Check(wit == nil, "UnpinPage:dirty-page-stays-dirty"+ordinalIn(un, in, a.PageSetIsDirty), "unpinning a dirty page with isDirty=false does not clear its dirty flag", "SetIsDirty at "+w.InstrPos(in)+" can clear (or overwrite with the caller's flag) the dirty bit of a page that is already dirty: its earlier changes are then never written back")
		}
		r.Floor("SetIsDirty sites reachable for a dirty page in UnpinPage", n, 1)
		// the IsDirty test exists
		nIf := 0
		for _, b := range un.Blocks {
			if i := blockIf(b); i != nil && DependsOn(i.Cond, IsCallTo(a.PageIsDirty)) {
				nIf++
			}
		}
		r.Floor("branches on IsDirty() in UnpinPage", nIf, 1)
		// who clears the flag
		for _, fn := range w.RepoFuncs {
			if w.IsTestFunc(fn) {
				continue
			}
			EachCall(fn, func(c ssa.CallInstruction) {
				if CalleeObj(c) != a.PageSetIsDirty {
					return
				}
				args := c.Common().Args
				cv, isConst := constOf(args[len(args)-1])
				if isConst && constant.BoolVal(cv) {
					return
				}
				k := funcKey(topFunc(fn))
				switch k {
				case "(*storage/buffer.BufferPoolManager).FlushPage":
					// the flag is cleared BEFORE the bytes are handed to WritePage: a writer that dirties the page while
					// the write is in flight must not have its mark wiped by a late clear
					site := c.(ssa.Instruction)
					wit := (&PathQ{Fn: fn, Avoid: func(in ssa.Instruction) bool { return in == site }, Target: InstrCallsObj(a.DMWritePage)}).FromEntry()
					r.Check(wit == nil, "FlushPage:dirty-cleared-before-write", "FlushPage clears the dirty flag before it starts writing the page", "path reaching WritePage with the dirty flag not yet cleared: "+w.DescribeWitness(fn, wit))
					wit = (&PathQ{Fn: fn, Target: func(in ssa.Instruction) bool { return in == site }}).FromAfter(sitesCalling(fn, a.DMWritePage))
					r.Check(wit == nil, "FlushPage:no-clear-after-write", "the dirty flag is not cleared after the write started (it may have been set again by a concurrent writer)", "path: "+w.DescribeWitness(fn, wit))
				case "(*storage/buffer.BufferPoolManager).UnpinPage":
					// covered above
				default:
					r.Bad("SetIsDirty(false):"+k, "only the pool's flush clears the dirty flag", k+" clears or overwrites the dirty flag at "+w.InstrPos(c))
				}
			})
		}
	})
}

func init() {
	reg("C13-R7", "file offsets of pages are computed in 64-bit arithmetic: in package disk, every multiplication / addition / shift on the way from a page-id parameter to the offset given to Seek / ReadAt / WriteAt has a 64-bit result type (a 32-bit product of page id and page size wraps for files of 2 GiB and more, mapping two page ids to one disk slot)", func(w *World, r *Report) {
		n := 0
		for _, fn := range w.RepoFuncs {
			if fn.Pkg == nil || fn.Pkg.Pkg.Path() != libMod+"/storage/disk" || w.IsTestFunc(fn) {
				continue
			}
			// parameters of page-id type
			var idParams []*ssa.Parameter
			for _, p := range fn.Params {
				if strings.HasSuffix(p.Type().String(), "types.PageID") {
					idParams = append(idParams, p)
				}
			}
			if len(idParams) == 0 {
				continue
			}
			EachCall(fn, func(c ssa.CallInstruction) {
				o := CalleeObj(c)
				if o == nil || o.Pkg() == nil {
					return
				}
				var off ssa.Value
				args := c.Common().Args
				switch o.Name() {
				case "Seek":
					if len(args) >= 2 {
						off = args[len(args)-2]
					}
				case "ReadAt", "WriteAt":
					off = args[len(args)-1]
				default:
					return
				}
				if off == nil {
					return
				}
				sl := BackSlice(off)
				dependsOnID := false
				for v := range sl.Vals {
					for _, p := range idParams {
						if v == ssa.Value(p) {
							dependsOnID = true
						}
					}
				}
				if !dependsOnID {
					return
				}
				n++
				var bad []string
				for v := range sl.Vals {
					bo, ok := v.(*ssa.BinOp)
					if !ok {
						continue
					}
					switch bo.Op {
					case token.MUL, token.ADD, token.SHL:
					default:
						continue
					}
					// only operations that (transitively) involve the page id
					inv := false
					for _, p := range idParams {
						pp := p
						if DependsOn(bo, func(x ssa.Value) bool { return x == ssa.Value(pp) }) {
							inv = true
						}
					}
					if !inv {
						continue
					}
					b, ok := bo.Type().Underlying().(*types.Basic)
					if !ok || !(b.Kind() == types.Int64 || b.Kind() == types.Uint64) {
						bad = append(bad, bo.Op.String()+" at "+w.InstrPos(bo)+" has type "+bo.Type().String())
					}
				}
				k := funcKey(fn) + ":" + o.Name() + ordinalIn(fn, c.(ssa.Instruction), o)
				r.Check(len(bad) == 0, "offset-64bit:"+k, "the page's file offset is computed at 64-bit width", strings.Join(uniq(bad), "; ")+": the product wraps for large page ids")
			})
		}
		r.Floor("offset computations from a page id in package disk", n, 3)
	})
}

func init() {
	reg("C04-R8", "sequential scans visit delete-marked rows: the slot-advance helpers (TablePage.GetTupleFirstRID / GetNextTupleRID) can still return a slot when IsDeleted(size) is assumed true for it — whether a marked row is visible is decided by the row lock in GetTuple (reader aborts on a foreign uncommitted delete), never by silently skipping the row", func(w *World, r *Report) {
		isDel := w.FuncObj("storage/access", "IsDeleted")
		n := 0
		for _, nm := range []string{"GetTupleFirstRID", "GetNextTupleRID"} {
			fn := w.Fn("storage/access", "TablePage", nm)
			n++
			marked := CutWhen(func(v ssa.Value) bool {
				c, ok := v.(*ssa.Call)
				return ok && CalleeObj(c) == isDel
			}, false)
			wit := (&PathQ{Fn: fn, Cut: []EdgeCut{marked}, Target: returnsNonNilFirst}).FromEntry()
			r.Check(wit != nil, "TablePage."+nm+":marked-rows-are-visited", "a delete-marked slot is still handed to the scan (the lock check decides)", "with IsDeleted(size)=true for the inspected slot "+nm+" cannot return it: a row with an uncommitted delete by another transaction silently disappears from sequential scans instead of making the reader wait/abort")
		}
		r.Floor("slot-advance helpers", n, 2)
	})

	reg("C20-R4", "nothing is recovered after the last page flush before the log truncation: in NewSamehadaDB every path from a Redo / Undo call to GCLogFile passes FlushAllPages (otherwise what Undo wrote is not on disk when the log that could redo/undo it is deleted)", func(w *World, r *Report) {
		a := w.A()
		fn := w.Fn("samehada", "", "NewSamehadaDB")
		redo := w.MethodObj("recovery/log_recovery", "LogRecovery", "Redo")
		undo := w.MethodObj("recovery/log_recovery", "LogRecovery", "Undo")
		sites := sitesCalling(fn, redo, undo)
		r.Floor("Redo/Undo sites", len(sites), 2)
		for _, s := range sites {
			o := CalleeObj(s.(ssa.CallInstruction))
			wit := (&PathQ{Fn: fn, Avoid: InstrCallsObj(a.BPMFlushAll, a.BPMFlushAllDirty), Target: InstrCallsObj(a.DMGCLogFile)}).FromAfter([]ssa.Instruction{s})
			r.Check(wit == nil, "NewSamehadaDB:flush-between-"+o.Name()+"-and-GCLogFile", "the pages changed by "+o.Name()+" are flushed before the log is truncated", "path from "+o.Name()+" to GCLogFile without FlushAllPages: "+w.DescribeWitness(fn, wit))
		}
	})
}

// cutTxnState removes the edges on which `txn.GetState() ==/!= ABORTED` says that the state is ABORTED
// (cutAborted=true) or is not ABORTED (cutAborted=false), whatever the spelling.
func cutTxnState(w *World, cutAborted bool) EdgeCut {
	a := w.A()
	abortedV, _ := constant.Int64Val(w.Const("storage/access", "ABORTED").Val())
	return func(b *ssa.BasicBlock, succ int) bool {
		i := blockIf(b)
		if i == nil {
			return false
		}
		v, neg := condBase(i.Cond)
		bo, ok := v.(*ssa.BinOp)
		if !ok || (bo.Op != token.NEQ && bo.Op != token.EQL) {
			return false
		}
		isState := func(x ssa.Value) bool { return IsCallTo(a.TxnGetState)(stripConv(x)) }
		isAb := func(x ssa.Value) bool {
			cv, ok := constOf(x)
			if !ok {
				return false
			}
			iv, ok := constant.Int64Val(cv)
			return ok && iv == abortedV
		}
		if !((isState(bo.X) && isAb(bo.Y)) || (isState(bo.Y) && isAb(bo.X))) {
			return false
		}
		binTrue := (succ == 0) != neg
		edgeAborted := binTrue == (bo.Op == token.EQL)
		return edgeAborted == cutAborted
	}
}

func init() {
	reg("C05-R3", "no write on behalf of an already aborted transaction: in UpdateExecutor.Next and DeleteExecutor.Next every path from the child's Next() to the heap mutation (TableHeap.UpdateTuple / MarkDelete) passes the not-ABORTED side of a test of the transaction state — a scan child reports a lost lock race only through the state, and the heap does not record the write of an ABORTED transaction in its write set, so such a write would survive the rollback", func(w *World, r *Report) {
		a := w.A()
		execNext := w.MethodObj("execution/executors", "Executor", "Next")
		notAb := cutTxnState(w, false)
		for _, it := range []struct {
			typ string
			mut *types.Func
		}{{"UpdateExecutor", a.THUpdate}, {"DeleteExecutor", a.THMarkDelete}} {
			fn := w.Fn("execution/executors", it.typ, "Next")
			var starts []ssa.Instruction
			for _, b := range fn.Blocks {
				for _, in := range b.Instrs {
					if c, ok := in.(ssa.CallInstruction); ok && CalleeObj(c) == execNext {
						starts = append(starts, in)
					}
				}
			}
			r.Floor(it.typ+".Next child Next() calls", len(starts), 1)
			n := countCutEdges(fn, []EdgeCut{notAb})
			r.Floor(it.typ+".Next tests of the transaction state", n, 1)
			wit := (&PathQ{Fn: fn, Cut: []EdgeCut{notAb}, Target: InstrCallsObj(it.mut)}).FromAfter(starts)
			r.Check(wit == nil, it.typ+".Next:no-write-for-aborted-txn", "the row delivered by the child is written only after the transaction state was found not ABORTED", "path from child.Next() to "+it.mut.Name()+" without a state test: "+w.DescribeWitness(fn, wit))
		}
	})
}

func init() {
	reg("C15-R6", "free-space tests cannot wrap: in the page-layout packages (storage/access, materialization, storage/page/…, container/hash) no ordered comparison takes an unsigned difference a − b of two run-time values as an operand unless a dominating test establishes a >= b — `free − need < limit` is true for the wrong reason when need > free, and the page write behind it runs past the page", func(w *World, r *Report) {
		inScope := func(p string) bool {
			for _, s := range []string{"/storage/access", "/materialization", "/storage/page", "/container/hash", "/storage/tuple"} {
				if strings.HasPrefix(p, libMod+s) {
					return true
				}
			}
			return false
		}
		isUnsigned := func(t types.Type) bool {
			b, ok := t.Underlying().(*types.Basic)
			return ok && b.Info()&types.IsUnsigned != 0
		}
		nCmp := 0
		for _, fn := range w.RepoFuncs {
			if fn.Pkg == nil || !inScope(fn.Pkg.Pkg.Path()) || w.IsTestFunc(fn) {
				continue
			}
			live := (&PathQ{Fn: fn}).ReachableInstrs() // constant-false debug blocks are not code
			for _, b := range fn.Blocks {
				for _, in := range b.Instrs {
					cmp, ok := in.(*ssa.BinOp)
					if !ok || !live[in] || (cmp.Op != token.LSS && cmp.Op != token.LEQ && cmp.Op != token.GTR && cmp.Op != token.GEQ) {
						continue
					}
					for _, opnd := range []ssa.Value{cmp.X, cmp.Y} {
						sub, ok := stripConv(opnd).(*ssa.BinOp)
						if !ok || sub.Op != token.SUB || !isUnsigned(sub.Type()) {
							continue
						}
						if _, isConst := constOf(sub.Y); isConst {
							continue // x - constant: layout constants, decided by the layout rules
						}
						if _, isConst := constOf(sub.X); isConst {
							continue
						}
						nCmp++
						// a dominating test a >= b (any spelling) on the same operands
						guarded := false
						ax, ay := symKey(sub.X, nil, 0), symKey(sub.Y, nil, 0)
						for d, child := b.Idom(), b; d != nil && !guarded; child, d = d, d.Idom() {
							i := blockIf(d)
							if i == nil {
								continue
							}
							base, neg := condBase(i.Cond)
							g, ok := base.(*ssa.BinOp)
							if !ok {
								continue
							}
							gx, gy := symKey(g.X, nil, 0), symKey(g.Y, nil, 0)
							var geWhenTrue, known bool
							switch {
							case gx == ax && gy == ay && (g.Op == token.GEQ || g.Op == token.GTR):
								geWhenTrue, known = true, true
							case gx == ax && gy == ay && g.Op == token.LSS:
								geWhenTrue, known = false, true
							case gx == ay && gy == ax && (g.Op == token.LEQ || g.Op == token.LSS):
								geWhenTrue, known = true, true
							case gx == ay && gy == ax && g.Op == token.GTR:
								geWhenTrue, known = false, true
							}
							if !known {
								continue
							}
							if neg {
								geWhenTrue = !geWhenTrue
							}
							want := d.Succs[0]
							if !geWhenTrue {
								want = d.Succs[1]
							}
							if (want == child || want.Dominates(child)) && len(want.Preds) == 1 {
								guarded = true
							}
						}
						r.Check(guarded, funcKey(fn)+":unsigned-difference-compared"+w.posOrdinal(fn, cmp), "an unsigned difference is compared only where it cannot wrap", "comparison at "+w.InstrPos(cmp)+" uses "+sub.X.Name()+" - "+sub.Y.Name()+" (unsigned, both run-time values) without a dominating test that the first is not smaller")
					}
				}
			}
		}
		r.Note("unsigned-difference-comparisons-examined", "number of ordered comparisons over an unsigned difference of two run-time values", itoa(nCmp))
	})
}

// posOrdinal numbers the BinOps of fn in block order (stable key that is not a line number).
func (w *World) posOrdinal(fn *ssa.Function, x *ssa.BinOp) string {
	n := 0
	for _, b := range fn.Blocks {
		for _, in := range b.Instrs {
			if bo, ok := in.(*ssa.BinOp); ok && bo.Op == x.Op {
				n++
				if bo == x {
					return "#" + itoa(n)
				}
			}
		}
	}
	return ""
}

func init() {
	reg("C16-R6", "releasing locks touches the caller's entries only: in LockManager.Unlock the exclusive entry of a row is deleted only on the side on which its owner equals the caller's transaction id; the shared list of a row is replaced only by the result of removeTxnID(list, caller id); removeTxnID drops an element only on the side on which it equals the id; the loop over the released rows has no early exit", func(w *World, r *Report) {
		a := w.A()
		xt := w.Field("storage/access", "LockManager", "exclusiveLockTable")
		st := w.Field("storage/access", "LockManager", "sharedLockTable")
		getID := w.MethodObj("storage/access", "Transaction", "GetTransactionID")
		fn := w.SSA(a.LMUnlock)
		isXLookup := func(v ssa.Value) bool {
			l, ok := v.(*ssa.Lookup)
			return ok && fieldLoadOf(l.X, xt)
		}
		// edges on which owner != caller are kept, the owner == caller edge is removed
		ownerIsMe := func(b *ssa.BasicBlock, succ int) bool {
			i := blockIf(b)
			if i == nil {
				return false
			}
			base, neg := condBase(i.Cond)
			bo, ok := base.(*ssa.BinOp)
			if !ok || (bo.Op != token.EQL && bo.Op != token.NEQ) {
				return false
			}
			own := func(x ssa.Value) bool { return DependsOn(x, isXLookup) }
			me := func(x ssa.Value) bool { return DependsOn(x, IsCallTo(getID)) }
			if !((own(bo.X) && me(bo.Y)) || (own(bo.Y) && me(bo.X))) {
				return false
			}
			binTrue := (succ == 0) != neg
			return binTrue == (bo.Op == token.EQL)
		}
		isDelX := func(in ssa.Instruction) bool {
			c, ok := in.(*ssa.Call)
			if !ok {
				return false
			}
			b, ok := c.Call.Value.(*ssa.Builtin)
			return ok && b.Name() == "delete" && fieldLoadOf(c.Call.Args[0], xt)
		}
		nDel := 0
		for _, b := range fn.Blocks {
			for _, in := range b.Instrs {
				if isDelX(in) {
					nDel++
				}
			}
		}
		r.Floor("deletes from exclusiveLockTable in Unlock", nDel, 1)
		r.Floor("owner tests in Unlock", countCutEdges(fn, []EdgeCut{ownerIsMe}), 1)
		wit := (&PathQ{Fn: fn, Cut: []EdgeCut{ownerIsMe}, Target: isDelX}).FromEntry()
		r.Check(wit == nil, "Unlock:exclusive-entry-deleted-only-for-its-owner", "an exclusive entry is deleted only when the caller owns it", "delete reachable without the owner test: "+w.DescribeWitness(fn, wit))
		// shared list
		rm := w.FuncObj("storage/access", "removeTxnID")
		nUpd := 0
		for _, b := range fn.Blocks {
			for _, in := range b.Instrs {
				mu, ok := in.(*ssa.MapUpdate)
				if !ok || !fieldLoadOf(mu.Map, st) {
					continue
				}
				nUpd++
				c, isCall := stripConv(mu.Value).(*ssa.Call)
				good := isCall && CalleeObj(c) == rm && DependsOn(c.Call.Args[1], IsCallTo(getID)) &&
					DependsOn(c.Call.Args[0], func(x ssa.Value) bool { l, ok := x.(*ssa.Lookup); return ok && fieldLoadOf(l.X, st) })
				r.Check(good, "Unlock:shared-list-loses-only-the-caller"+itoaOrd(nUpd), "the shared holders of a row are replaced by the same list without the caller", "map update at "+w.InstrPos(in)+" does not store removeTxnID(current list, caller id)")
			}
		}
		r.Floor("sharedLockTable updates in Unlock", nUpd, 1)
		// removeTxnID
		rf := w.SSA(rm)
		var idP *ssa.Parameter
		for _, p := range rf.Params {
			if strings.HasSuffix(p.Type().String(), "types.TxnID") {
				idP = p
			}
		}
		if idP == nil {
			fatalf("removeTxnID: no TxnID parameter")
		}
		eqID := func(b *ssa.BasicBlock, succ int) bool {
			i := blockIf(b)
			if i == nil {
				return false
			}
			base, neg := condBase(i.Cond)
			bo, ok := base.(*ssa.BinOp)
			if !ok || (bo.Op != token.EQL && bo.Op != token.NEQ) {
				return false
			}
			isP := func(x ssa.Value) bool { return resolveCell(stripConv(x)) == ssa.Value(idP) }
			if !isP(bo.X) && !isP(bo.Y) {
				return false
			}
			binTrue := (succ == 0) != neg
			return binTrue == (bo.Op == token.EQL)
		}
		var listP *ssa.Parameter
		for _, p := range rf.Params {
			if _, ok := p.Type().Underlying().(*types.Slice); ok {
				listP = p
			}
		}
		isDrop := func(in ssa.Instruction) bool { // list[:i] … list[i+1:] re-slicing of the holder list itself
			sl, ok := in.(*ssa.Slice)
			return ok && (sl.Low != nil || sl.High != nil) && listP != nil && resolveCell(sl.X) == ssa.Value(listP)
		}
		wit = (&PathQ{Fn: rf, Cut: []EdgeCut{eqID}, Target: isDrop}).FromEntry()
		r.Check(wit == nil && countCutEdges(rf, []EdgeCut{eqID}) > 0, "removeTxnID:drops-only-the-given-id", "an element is cut out of the holder list only when it equals the given transaction id", "re-slicing reachable without the equality test: "+w.DescribeWitness(rf, wit))
	})
}
