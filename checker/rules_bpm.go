package main

// rules_bpm.go — buffer pool: write-ahead ordering at the storage boundary (C08), pool mutex
// discipline (C01-R7/C13-R4, C13-R1), victim protocol and page-id retirement (C13-R2/R3).

import (
	"fmt"
	"go/constant"
	"go/token"
	"go/types"
	"sort"
	"strings"

	"golang.org/x/tools/go/ssa"
)

// methodsOf lists the SSA functions of all methods (with bodies) declared on the named type.
func (w *World) methodsOf(pkg, typ string) []*ssa.Function {
	n := w.Named(pkg, typ)
	var out []*ssa.Function
	for i := 0; i < n.NumMethods(); i++ {
		if f := w.Prog.FuncValue(n.Method(i)); f != nil && f.Blocks != nil {
			out = append(out, f)
		}
	}
	sort.Slice(out, func(i, j int) bool { return out[i].Name() < out[j].Name() })
	return out
}

func init() {
	reg("C01-R7", "BufferPoolManager.mutex pairing: every method returns with the pool mutex released on every path (no exit keeps it locked, no double lock, no unlock of an unheld mutex); getFrameID is entered and left with the mutex held", func(w *World, r *Report) {
		n := 0
		hs := w.bpmHelpers()
		for _, fn := range w.methodsOf("storage/buffer", "BufferPoolManager") {
			n++
			h, isHelper := hs[fn]
			init := map[string]string{}
			mu := bpmRecvMutex(fn)
			if h.EntryHeld {
				init[mu] = "W"
			}
			var issues []string
			if h.Mixed {
				issues = append(issues, "its exits disagree on whether b.mutex is held")
			}
			lw := &LockWalk{W: w, Fn: fn, Init: init,
				OnReturn: func(ret *ssa.Return, st *LState) {
					held := st.Holds(mu, false)
					if isHelper && !h.Mixed && held != h.ExitHeld {
						issues = append(issues, "returns at "+w.InstrPos(ret)+" against its summarised contract")
					}
					if token.IsExported(fn.Name()) && !callerHoldsBPMExported[fn.Name()] && held {
						issues = append(issues, "returns at "+w.InstrPos(ret)+" with b.mutex still locked")
					}
					if callerHoldsBPMExported[fn.Name()] && !held {
						issues = append(issues, "returns at "+w.InstrPos(ret)+" with the mutex released although its callers hold it")
					}
				},
				OnIssue: func(kind string, in ssa.Instruction, name string, st *LState) {
					if strings.HasSuffix(name, ".mutex") {
						issues = append(issues, kind+" of "+name+" at "+w.InstrPos(in))
					}
				},
			}
			lw.CallEffect = w.bpmCallEffect(fn, hs, func(in ssa.Instruction, msg string) { issues = append(issues, msg) })
			lw.Run()
			if lw.Truncated {
				r.Undecided("BPM."+fn.Name()+":mutex-pairing", "state space cap hit", "")
				continue
			}
			issues = uniq(issues)
			r.Check(len(issues) == 0, "BPM."+fn.Name()+":mutex-released-on-all-exits", "pool mutex is released on every exit", strings.Join(issues, "; "))
		}
		r.Floor("BufferPoolManager methods", n, 12)
	})

	reg("C13-R1", "pool metadata (pageTable, freeList, pages[], replacer, reUsablePageList, and the frames' dirty flag and pin count) is read and written only with b.mutex held (caller-holds: getFrameID; recovery-only setters and test-only getters are allow-listed by name and their callers checked)", func(w *World, r *Report) {
		guarded := map[*types.Var]bool{}
		for _, f := range []string{"pageTable", "freeList", "pages", "replacer", "reUsablePageList"} {
			guarded[w.Field("storage/buffer", "BufferPoolManager", f)] = true
		}
		exempt := map[string]string{
			"SetReusablePageIDs": "recovery only (single-threaded start-up); callers checked",
			"GetReusablePageIDs": "recovery only (single-threaded start-up); callers checked",
			"GetPages":           "test helper; no non-test caller",
			"GetPoolSize":        "test helper; no non-test caller",
		}
		nAcc, nFrame := 0, 0
		// the frame's dirty flag and pin count are pool bookkeeping too: eviction reads them under b.mutex alone
		a := w.A()
		frameMeta := map[*types.Func]bool{a.PageIsDirty: true, a.PageSetIsDirty: true, a.PageIncPin: true, a.PageDecPin: true, a.PagePinCount: true}
		hs := w.bpmHelpers()
		// a caller-holds helper is reachable only from the pool's own methods (whose call sites are walked below)
		for f, h := range hs {
			if !h.EntryHeld || token.IsExported(f.Name()) {
				continue
			}
			for _, cs := range w.Callers(f) {
				top := topFunc(cs.Caller)
				if w.IsTestFunc(top) || top.Synthetic != "" {
					continue // promoted-method wrappers of embedding types have no callers of their own for an unexported method
				}
				if top != cs.Caller || top.Signature.Recv() == nil || !strings.Contains(top.Signature.Recv().Type().String(), "buffer.BufferPoolManager") {
					r.Bad("BPM."+f.Name()+":caller-holds-called-from:"+funcKey(cs.Caller), "functions entered with b.mutex held are called only from pool methods", funcKey(cs.Caller)+" calls "+f.Name())
				}
			}
		}
		for _, fn := range w.methodsOf("storage/buffer", "BufferPoolManager") {
			if _, ok := exempt[fn.Name()]; ok {
				continue
			}
			mu := bpmRecvMutex(fn)
			init := map[string]string{}
			if hs[fn].EntryHeld {
				init[mu] = "W"
			}
			var bad []string
			lw := &LockWalk{W: w, Fn: fn, Init: init,
				CallEffect: w.bpmCallEffect(fn, hs, func(in ssa.Instruction, msg string) { bad = append(bad, msg) }),
				OnInstr: func(in ssa.Instruction, st *LState) {
					if c, ok := in.(ssa.CallInstruction); ok && frameMeta[CalleeObj(c)] {
						nFrame++
						if !st.Holds(mu, false) {
							bad = append(bad, "frame bookkeeping "+CalleeObj(c).Name()+" at "+w.InstrPos(in))
						}
						return
					}
					fa, ok := in.(*ssa.FieldAddr)
					if !ok {
						return
					}
					sst, ok := derefStruct(fa.X.Type())
					if !ok || !guarded[sst.Field(fa.Field)] {
						return
					}
					nAcc++
					if !st.Holds(mu, false) {
						bad = append(bad, sst.Field(fa.Field).Name()+" at "+w.InstrPos(in))
					}
				}}
			lw.Run()
			bad = uniq(bad)
			r.Check(len(bad) == 0, "BPM."+fn.Name()+":metadata-under-mutex", "every access to pool metadata happens with b.mutex held", "unguarded access: "+strings.Join(bad, ", "))
		}
		r.Floor("guarded field accesses examined", nAcc, 30)
		r.Floor("frame dirty-flag / pin-count accesses examined", nFrame, 10)
		// exempt functions: who calls them
		wmc(w, r, "BufferPoolManager.SetReusablePageIDs", map[*types.Func]bool{w.MethodObj("storage/buffer", "BufferPoolManager", "SetReusablePageIDs"): true}, map[string]string{
			"(*recovery/log_recovery.LogRecovery).Redo": "recovery, before any other goroutine exists",
		}, 1)
		wmc(w, r, "BufferPoolManager.GetReusablePageIDs", map[*types.Func]bool{w.MethodObj("storage/buffer", "BufferPoolManager", "GetReusablePageIDs"): true}, map[string]string{
			"samehada.NewSamehadaDB": "start-up, before any other goroutine exists",
		}, 1)
		wmc(w, r, "BufferPoolManager.GetPages", map[*types.Func]bool{w.MethodObj("storage/buffer", "BufferPoolManager", "GetPages"): true}, map[string]string{}, 0)
		wmc(w, r, "BufferPoolManager.GetPoolSize", map[*types.Func]bool{w.MethodObj("storage/buffer", "BufferPoolManager", "GetPoolSize"): true}, map[string]string{}, 0)
		// fields are not touched from outside the type's methods
		for f := range guarded {
			users := map[string]bool{}
			for _, fn := range w.RepoFuncs {
				if w.IsTestFunc(fn) {
					continue
				}
				for _, b := range fn.Blocks {
					for _, in := range b.Instrs {
						if fa, ok := in.(*ssa.FieldAddr); ok {
							if sst, ok := derefStruct(fa.X.Type()); ok && sst.Field(fa.Field) == f {
								users[funcKey(topFunc(fn))] = true
							}
						}
					}
				}
			}
			for u := range users {
				ok := strings.HasPrefix(u, "(*storage/buffer.BufferPoolManager).") || u == "storage/buffer.NewBufferPoolManager"
				r.Check(ok, "BPM-field:"+f.Name()+":user:"+u, "pool metadata is touched only by BufferPoolManager methods", u+" touches BufferPoolManager."+f.Name())
			}
		}
	})

	reg("C13-R2", "victim protocol in FetchPage and NewPage: a frame taken from the replacer is re-used only after the pin-count check, after a dirty resident page was written back, and after its page-table entry was deleted; the new mapping and the frame content are installed together", func(w *World, r *Report) {
		a := w.A()
		pagesF := w.Field("storage/buffer", "BufferPoolManager", "pages")
		tableF := w.Field("storage/buffer", "BufferPoolManager", "pageTable")
		for _, o := range []*types.Func{a.BPMFetch, a.BPMNew} {
			fn := w.SSA(o)
			name := "BPM." + o.Name()
			gf := sitesCalling(fn, a.BPMGetFrameID)
			r.Floor(name+" getFrameID sites", len(gf), 1)
			gfCall := gf[0].(*ssa.Call)
			isFromFree := func(v ssa.Value) bool {
				e, ok := resolveCell(v).(*ssa.Extract)
				return ok && e.Tuple == ssa.Value(gfCall) && e.Index == 1
			}
			// install sites
			isFrameStore := func(in ssa.Instruction) bool {
				st, ok := in.(*ssa.Store)
				if !ok {
					return false
				}
				ia, ok := st.Addr.(*ssa.IndexAddr)
				return ok && fieldLoadOf(ia.X, pagesF)
			}
			isMapInstall := func(in ssa.Instruction) bool {
				mu, ok := in.(*ssa.MapUpdate)
				return ok && fieldLoadOf(mu.Map, tableF)
			}
			isMapDelete := func(in ssa.Instruction) bool {
				c, ok := in.(*ssa.Call)
				if !ok {
					return false
				}
				bi, ok := c.Call.Value.(*ssa.Builtin)
				return ok && bi.Name() == "delete" && fieldLoadOf(c.Call.Args[0], tableF)
			}
			nStores := 0
			for _, b := range fn.Blocks {
				for _, in := range b.Instrs {
					if isFrameStore(in) {
						nStores++
					}
				}
			}
			r.Floor(name+" frame installs", nStores, 1)
			// victim path: frame not from the free list and a page is resident in it
			vcut := []EdgeCut{CutWhen(isFromFree, true), nilCheckCut(pagesF, true)}
			// (1) frame install only after getFrameID
			mustPrecede(w, r, fn, name+":install-after-getFrameID", "a frame is overwritten only after getFrameID handed it out", InstrCallsObj(a.BPMGetFrameID), isFrameStore)
			// (2) on the victim path the install is preceded by a branch on PinCount(), by delete(pageTable, old)
			ifPin := func(in ssa.Instruction) bool {
				i, ok := in.(*ssa.If)
				return ok && DependsOn(i.Cond, IsCallTo(a.PagePinCount))
			}
			wit := (&PathQ{Fn: fn, Cut: vcut, Avoid: ifPin, Target: isFrameStore}).FromAfter(gf)
			r.Check(wit == nil, name+":victim-pin-count-checked", "a resident page is evicted only after its pin count was checked", "path: "+w.DescribeWitness(fn, wit))
			wit = (&PathQ{Fn: fn, Cut: vcut, Avoid: isMapDelete, Target: isFrameStore}).FromAfter(gf)
			r.Check(wit == nil, name+":victim-mapping-deleted", "the evicted page's page-table entry is deleted before the frame is re-used", "path: "+w.DescribeWitness(fn, wit))
			// (3) dirty victim is written back: with the clean edge and the deallocated edge removed, WritePage is unavoidable
			dcut := append([]EdgeCut{CutWhen(IsCallTo(a.PageIsDirty), false), CutWhen(IsCallTo(a.PageIsDeallocated), true)}, vcut...)
			wit = (&PathQ{Fn: fn, Cut: dcut, Avoid: InstrCallsObj(a.DMWritePage), Target: isFrameStore}).FromAfter(gf)
			r.Check(wit == nil, name+":dirty-victim-written-back", "a dirty victim is written to disk before its frame is re-used", "path: "+w.DescribeWitness(fn, wit))
			// the written bytes and id belong to the victim (WritePage args depend on the victim page value)
			for _, s := range sitesCalling(fn, a.DMWritePage) {
				c := s.(*ssa.Call)
				args := c.Call.Args
				isVictim := func(x ssa.Value) bool {
					ia, ok := x.(*ssa.IndexAddr)
					return ok && fieldLoadOf(ia.X, pagesF)
				}
				r.Check(DependsOn(args[0], isVictim) && DependsOn(args[1], isVictim), name+":write-back-uses-victim-id-and-bytes", "the write-back stores the victim's bytes under the victim's id", "WritePage arguments at "+w.InstrPos(s)+" are not derived from b.pages[frame]")
			}
			// (4) the panic on pinned victim is a real exit: the pin-count branch has an edge to panic
			// (5) map install and frame install happen together (both or neither before return)
			var installs []ssa.Instruction
			for _, b := range fn.Blocks {
				for _, in := range b.Instrs {
					if isMapInstall(in) {
						installs = append(installs, in)
					}
				}
			}
			r.Floor(name+" page-table installs", len(installs), 1)
			wit = (&PathQ{Fn: fn, Avoid: isFrameStore, Target: isReturn}).FromAfter(installs)
			r.Check(wit == nil, name+":mapping-and-frame-installed-together", "a new page-table entry is always accompanied by the frame store", "path: "+w.DescribeWitness(fn, wit))
			// the installed mapping uses the frame obtained from getFrameID
			for _, in := range installs {
				mu := in.(*ssa.MapUpdate)
				r.Check(DependsOn(mu.Value, func(x ssa.Value) bool { return x == ssa.Value(gfCall) }), name+":mapping-uses-obtained-frame", "the new mapping points at the frame getFrameID returned", "map value at "+w.InstrPos(in)+" does not depend on getFrameID()")
			}
		}
		// UnpinPage: a frame enters the replacer only when its pin count dropped to zero
		un := w.SSA(a.BPMUnpin)
		unpinRepl := w.MethodObj("storage/buffer", "ClockReplacer", "Unpin")
		ifPin := func(in ssa.Instruction) bool {
			i, ok := in.(*ssa.If)
			return ok && DependsOn(i.Cond, IsCallTo(a.PagePinCount))
		}
		r.Floor("replacer.Unpin sites in UnpinPage", len(sitesCalling(un, unpinRepl)), 1)
		wit := (&PathQ{Fn: un, Avoid: ifPin, Target: InstrCallsObj(unpinRepl)}).FromEntry()
		r.Check(wit == nil, "BPM.UnpinPage:replacer-only-at-pin-zero", "a frame becomes evictable only after a branch on its pin count", "path: "+w.DescribeWitness(un, wit))
		wit = (&PathQ{Fn: un, Avoid: InstrCallsObj(a.PageDecPin), Target: InstrCallsObj(unpinRepl)}).FromEntry()
		r.Check(wit == nil, "BPM.UnpinPage:decrement-before-replacer", "the pin count is decremented before the frame is offered to the replacer", "path: "+w.DescribeWitness(un, wit))
		// FetchPage hit path pins the page and removes the frame from the replacer
		fe := w.SSA(a.BPMFetch)
		pinRepl := w.MethodObj("storage/buffer", "ClockReplacer", "Pin")
		incs := sitesCalling(fe, a.PageIncPin)
		r.Floor("IncPinCount sites in FetchPage", len(incs), 1)
		wit = (&PathQ{Fn: fe, Avoid: InstrCallsObj(pinRepl), Target: isReturn}).FromAfter(incs)
		r.Check(wit == nil, "BPM.FetchPage:hit-removes-frame-from-replacer", "a page-table hit pins the page and takes its frame out of the replacer", "path: "+w.DescribeWitness(fe, wit))
		// dirty flag is sticky in UnpinPage: SetIsDirty(false) reachable only when IsDirty() false and arg false — value-level, not decided.
	})

	reg("C13-R3", "page ids are retired (appended to reUsablePageList, page-table entry deleted) only for the page sitting in a frame that the same function obtained from getFrameID (the victim protocol)", func(w *World, r *Report) {
		a := w.A()
		reuseF := w.Field("storage/buffer", "BufferPoolManager", "reUsablePageList")
		tableF := w.Field("storage/buffer", "BufferPoolManager", "pageTable")
		n := 0
		for _, fn := range w.methodsOf("storage/buffer", "BufferPoolManager") {
			if fn.Name() == "SetReusablePageIDs" {
				continue // recovery-only setter, callers checked by C13-R1
			}
			var retire []ssa.Instruction
			for _, b := range fn.Blocks {
				for _, in := range b.Instrs {
					switch x := in.(type) {
					case *ssa.Store:
						if isFieldAddrOf(x.Addr, reuseF) {
							// growing store: value depends on append(...)
							if DependsOn(x.Val, func(v ssa.Value) bool {
								c, ok := v.(*ssa.Call)
								if !ok {
									return false
								}
								bi, ok := c.Call.Value.(*ssa.Builtin)
								return ok && bi.Name() == "append"
							}) {
								retire = append(retire, in)
							}
						}
					case *ssa.Call:
						if bi, ok := x.Call.Value.(*ssa.Builtin); ok && bi.Name() == "delete" && fieldLoadOf(x.Call.Args[0], tableF) {
							retire = append(retire, in)
						}
					}
				}
			}
			if len(retire) == 0 {
				continue
			}
			n++
			wit := (&PathQ{Fn: fn, Avoid: InstrCallsObj(a.BPMGetFrameID), Target: func(in ssa.Instruction) bool {
				for _, x := range retire {
					if x == in {
						return true
					}
				}
				return false
			}}).FromEntry()
			r.Check(wit == nil, "BPM."+fn.Name()+":retire-only-with-frame-in-hand", "a page id is recycled / unmapped only for the page in a frame this call took out of the replacer", "retirement without getFrameID: "+w.DescribeWitness(fn, wit))
		}
		r.Floor("functions retiring page ids", n, 2)
	})

	reg("C08-R1", "write-ahead at the storage boundary: inside the pool every DiskManager.WritePage of a victim is preceded by LogManager.Flush; a pool flush primitive that does not force the log itself (FlushPage / FlushAllPages / FlushAllDirtyPages) is called from outside the pool only after a log flush in the caller, inside the logging-off start-up window, on a catalog page constant, or from a listed unlogged-index site", func(w *World, r *Report) {
		a := w.A()
		fs := a.flushSumm()
		bufPkg := libMod + "/storage/buffer"
		// primitives needing a flush by their caller
		needs := map[*ssa.Function]bool{}
		isWrite := InstrCallsObj(a.DMWritePage)
		changed := true
		sitesNeeding := func(fn *ssa.Function) []ssa.Instruction {
			var out []ssa.Instruction
			for _, b := range fn.Blocks {
				for _, in := range b.Instrs {
					if isWrite(in) {
						out = append(out, in)
						continue
					}
					if c, ok := in.(ssa.CallInstruction); ok {
						if _, d := in.(*ssa.Defer); d {
							continue
						}
						for _, cal := range w.Callees(c) {
							if needs[cal] {
								out = append(out, in)
								break
							}
						}
					}
				}
			}
			return out
		}
		var bufFns []*ssa.Function
		for _, fn := range w.RepoFuncs {
			if fn.Pkg != nil && fn.Pkg.Pkg.Path() == bufPkg && !w.IsTestFunc(fn) {
				bufFns = append(bufFns, fn)
			}
		}
		nWrite := 0
		for changed {
			changed = false
			for _, fn := range bufFns {
				if needs[fn] {
					continue
				}
				for _, s := range sitesNeeding(fn) {
					wit := (&PathQ{Fn: fn, Avoid: fs.MustSite, Target: func(in ssa.Instruction) bool { return in == s }}).FromEntry()
					if wit != nil {
						needs[fn] = true
						changed = true
						break
					}
				}
			}
		}
		for _, fn := range bufFns {
			for _, s := range sitesNeeding(fn) {
				if !isWrite(s) {
					continue
				}
				nWrite++
				key := "buffer:" + strings.TrimPrefix(funcKey(fn), "(*storage/buffer.BufferPoolManager).") + ":WritePage" + ordinalIn(fn, s, a.DMWritePage)
				if needs[fn] {
					r.Note(key, "pool primitive writes a page without forcing the log itself; its callers are checked", w.InstrPos(s))
				} else {
					r.Ok(key, "LogManager.Flush precedes this WritePage on every path of "+funcKey(fn))
				}
			}
		}
		r.Floor("WritePage sites in package buffer", nWrite, 3)
		// FetchPage/NewPage must be self-contained (victims cannot be covered by any caller)
		for _, o := range []*types.Func{a.BPMFetch, a.BPMNew} {
			r.Check(!needs[w.SSA(o)], "buffer:"+o.Name()+":victim-write-self-flushing", "the victim write-back forces the log inside "+o.Name(), o.Name()+" can reach DiskManager.WritePage without a preceding LogManager.Flush")
		}
		delete(needs, w.SSA(a.BPMFetch)) // reported above; do not repeat the finding at every caller
		delete(needs, w.SSA(a.BPMNew))
		// external callers of needing primitives
		catalogConsts := map[int64]string{}
		for _, nm := range []string{"TableCatalogPageID", "ColumnsCatalogPageID"} {
			v, _ := constant.Int64Val(w.Const("catalog", nm).Val())
			catalogConsts[v] = nm
		}
		allow := map[string]string{
			"container/hash.NewLinearProbeHashTable": "header page of a hash index: index pages carry no log records (indexes are rebuilt, not recovered)",
		}
		// promoted-method wrappers (ParentBufMgrImpl embeds *BufferPoolManager) are transparent
		for again := true; again; {
			again = false
			for f := range needs {
				for _, cs := range w.Callers(f) {
					if cs.Caller.Synthetic != "" && !needs[cs.Caller] {
						needs[cs.Caller] = true
						again = true
					}
				}
			}
		}
		var prims []*ssa.Function
		for f := range needs {
			prims = append(prims, f)
		}
		sort.Slice(prims, func(i, j int) bool { return funcKey(prims[i]) < funcKey(prims[j]) })
		nExt := 0
		for _, p := range prims {
			for _, cs := range w.Callers(p) {
				caller := cs.Caller
				if w.IsTestFunc(caller) || (caller.Pkg != nil && caller.Pkg.Pkg.Path() == bufPkg) || needs[caller] {
					continue
				}
				if _, d := cs.Instr.(*ssa.Defer); d {
					continue
				}
				if caller.Pkg == nil || !isRepoPath(caller.Pkg.Pkg.Path()) {
					r.Note("external:"+funcKey(caller)+"->"+p.Name(), "third-party caller (B-tree library flushing its own, unlogged, index pages through ParentBufMgrImpl)", "")
					continue
				}
				nExt++
				site := cs.Instr.(ssa.Instruction)
				pobj, _ := p.Object().(*types.Func)
				key := funcKey(topFunc(caller)) + "->" + p.Name() + ordinalIn(caller, site, pobj)
				if reason, ok := allow[funcKey(topFunc(caller))]; ok {
					r.Note(key, "allow-listed flush site", reason)
					continue
				}
				// catalog page constant?
				if p.Name() == "FlushPage" {
					args := cs.Instr.Common().Args
					if cv, ok := constOf(args[len(args)-1]); ok {
						if iv, ok := constant.Int64Val(cv); ok {
							if nm, ok := catalogConsts[iv]; ok {
								r.Note(key, "flush of catalog page "+nm+" (C08 speaks of user-table pages)", w.InstrPos(site))
								continue
							}
						}
					}
				}
				target := func(in ssa.Instruction) bool { return in == site }
				// logging-off window: DeactivateLogging precedes on every path and no ActivateLogging in between
				pre := (&PathQ{Fn: caller, Avoid: InstrCallsObj(a.LMDeactivate), Target: target}).FromEntry()
				post := (&PathQ{Fn: caller, Target: target}).FromAfter(sitesCalling(caller, a.LMActivate))
				if pre == nil && post == nil && len(sitesCalling(caller, a.LMDeactivate)) > 0 {
					r.Ok(key+":logging-off-window", "flush happens inside the logging-deactivated start-up window (nothing is logged there)")
					continue
				}
				wit := (&PathQ{Fn: caller, Cut: []EdgeCut{a.assumeLogging()}, Avoid: fs.MustSite, Target: target}).FromEntry()
				r.Check(wit == nil, key, "the log is forced before the pool writes pages", fmt.Sprintf("%s reaches %s at %s without a preceding LogManager.Flush: %s", funcKey(caller), p.Name(), w.InstrPos(site), w.DescribeWitness(caller, wit)))
			}
		}
		if len(prims) > 0 {
			r.Floor("external callers of non-flushing pool primitives", nExt, 4)
		}
	})
}

// exported functions of BufferPoolManager that are entered with b.mutex held (every call site is checked);
// unexported helpers are summarised from their bodies (bpmHelpers)
var callerHoldsBPMExported = map[string]bool{"PrintReplacerInternalState": true, "ReturnBuffer": true}

// bpmHelper is the mutex contract of one BufferPoolManager method, derived from its body: whether it must be
// entered with b.mutex held, and whether it returns with it held. Extracting a private helper out of a pool
// method ("caller must have b.mutex") therefore needs no table edit.
type bpmHelper struct {
	EntryHeld, ExitHeld bool
	Mixed               bool // exits disagree: no contract
}

var bpmGuardedFields = []string{"pageTable", "freeList", "pages", "replacer", "reUsablePageList"}

func bpmRecvMutex(fn *ssa.Function) string { return "p:" + fn.Params[0].Name() + ".mutex" }

// bpmCallEffect applies the helpers' contracts at call sites (same receiver only).
func (w *World) bpmCallEffect(fn *ssa.Function, hs map[*ssa.Function]bpmHelper, onBad func(in ssa.Instruction, msg string)) func(c ssa.CallInstruction, st *LState) (map[string]string, []string) {
	mu := bpmRecvMutex(fn)
	return func(c ssa.CallInstruction, st *LState) (map[string]string, []string) {
		f := c.Common().StaticCallee()
		h, ok := hs[f]
		if !ok || f == nil || len(c.Common().Args) == 0 || c.Common().Args[0] != ssa.Value(fn.Params[0]) {
			return nil, nil
		}
		if h.Mixed {
			if onBad != nil {
				onBad(c, "call of "+f.Name()+", whose exits disagree on b.mutex")
			}
			return nil, nil
		}
		held := st.Holds(mu, false)
		if h.EntryHeld && !held {
			if onBad != nil {
				onBad(c, "call of caller-holds function "+f.Name()+" at "+w.InstrPos(c)+" without the mutex")
			}
			return nil, nil
		}
		if h.EntryHeld && !h.ExitHeld {
			return nil, []string{mu}
		}
		if !h.EntryHeld && h.ExitHeld {
			if held {
				if onBad != nil {
					onBad(c, "call of "+f.Name()+", which locks b.mutex, at "+w.InstrPos(c)+" with the mutex held")
				}
				return nil, nil
			}
			return map[string]string{mu: "W"}, nil
		}
		return nil, nil
	}
}

func (w *World) bpmHelpers() map[*ssa.Function]bpmHelper {
	if w.bpmHelperCache != nil {
		return w.bpmHelperCache
	}
	guarded := map[*types.Var]bool{}
	for _, f := range bpmGuardedFields {
		guarded[w.Field("storage/buffer", "BufferPoolManager", f)] = true
	}
	hs := map[*ssa.Function]bpmHelper{}
	var cands []*ssa.Function
	for _, fn := range w.methodsOf("storage/buffer", "BufferPoolManager") {
		if callerHoldsBPMExported[fn.Name()] {
			hs[fn] = bpmHelper{EntryHeld: true, ExitHeld: true}
		} else if !token.IsExported(fn.Name()) {
			cands = append(cands, fn)
		}
	}
	// probe: does the body need the mutex on entry? (release of the unheld mutex, guarded field touched without
	// it, caller-holds helper called without it); iterate because helpers call helpers
	for round := 0; round < 4; round++ {
		changed := false
		for _, fn := range cands {
			fn := fn
			mu := bpmRecvMutex(fn)
			try := func(entryHeld bool) (needs bool, exits map[bool]bool) {
				exits = map[bool]bool{}
				init := map[string]string{}
				if entryHeld {
					init[mu] = "W"
				}
				lw := &LockWalk{W: w, Fn: fn, Init: init,
					OnInstr: func(in ssa.Instruction, st *LState) {
						if fa, ok := in.(*ssa.FieldAddr); ok {
							if sst, ok := derefStruct(fa.X.Type()); ok && guarded[sst.Field(fa.Field)] && !st.Holds(mu, false) {
								needs = true
							}
						}
					},
					OnReturn: func(ret *ssa.Return, st *LState) { exits[st.Holds(mu, false)] = true },
					OnIssue: func(kind string, in ssa.Instruction, name string, st *LState) {
						if kind == "release-not-held" && strings.HasSuffix(name, ".mutex") {
							needs = true
						}
					},
				}
				lw.CallEffect = w.bpmCallEffect(fn, hs, func(ssa.Instruction, string) { needs = true })
				lw.Run()
				return
			}
			needs, exits := try(false)
			h := bpmHelper{}
			if needs {
				_, exits = try(true)
				h.EntryHeld = true
			}
			if len(exits) > 1 {
				h.Mixed = true
			} else {
				for k := range exits {
					h.ExitHeld = k
				}
			}
			if old, ok := hs[fn]; !ok || old != h {
				hs[fn] = h
				changed = true
			}
		}
		if !changed {
			break
		}
	}
	w.bpmHelperCache = hs
	return hs
}

func uniq(s []string) []string {
	seen := map[string]bool{}
	var out []string
	for _, x := range s {
		if !seen[x] {
			seen[x] = true
			out = append(out, x)
		}
	}
	return out
}

// nilCheckCut removes, for Ifs comparing an element of b.<fld>[...] with nil, the edge on which the
// element is nil (keepNonNil) — i.e. specialises to "a page is resident in the frame".
func nilCheckCut(fld *types.Var, keepNonNil bool) EdgeCut {
	return func(b *ssa.BasicBlock, succ int) bool {
		i := blockIf(b)
		if i == nil {
			return false
		}
		v, neg := condBase(i.Cond)
		bo, ok := v.(*ssa.BinOp)
		if !ok || (bo.Op.String() != "==" && bo.Op.String() != "!=") {
			return false
		}
		isNil := func(x ssa.Value) bool { c, ok := x.(*ssa.Const); return ok && c.IsNil() }
		var other ssa.Value
		if isNil(bo.Y) {
			other = bo.X
		} else if isNil(bo.X) {
			other = bo.Y
		} else {
			return false
		}
		if !DependsOn(other, func(x ssa.Value) bool {
			ia, ok := x.(*ssa.IndexAddr)
			return ok && fieldLoadOf(ia.X, fld)
		}) {
			return false
		}
		// truth of "other == nil" on this edge
		eq := bo.Op.String() == "=="
		condTrueMeansNil := eq != neg
		edgeIsNil := (succ == 0) == condTrueMeansNil
		return edgeIsNil == keepNonNil
	}
}

func init() {
	reg("C13-R9", "the replacer is driven by the victim protocol only: ClockReplacer.Unpin (\"this frame may be evicted\") is called only by UnpinPage, where the frame holds the page that is mapped to it and its pin count has just dropped to zero; Pin only by FetchPage's cache-hit path; Victim only by getFrameID — a frame whose page object is stale (already evicted) is never offered for eviction again", func(w *World, r *Report) {
		wmc(w, r, "ClockReplacer.Unpin", map[*types.Func]bool{w.MethodObj("storage/buffer", "ClockReplacer", "Unpin"): true}, map[string]string{
			"(*storage/buffer.BufferPoolManager).UnpinPage": "pin count reached zero for the page mapped to the frame",
		}, 1)
		wmc(w, r, "ClockReplacer.Pin", map[*types.Func]bool{w.MethodObj("storage/buffer", "ClockReplacer", "Pin"): true}, map[string]string{
			"(*storage/buffer.BufferPoolManager).FetchPage": "cache hit: the resident page is pinned again",
		}, 1)
		wmc(w, r, "ClockReplacer.Victim", map[*types.Func]bool{w.MethodObj("storage/buffer", "ClockReplacer", "Victim"): true}, map[string]string{
			"(*storage/buffer.BufferPoolManager).getFrameID": "the only source of victim frames",
		}, 1)
	})

	reg("C13-R10", "a frame id does not outlive the critical section it was read in: a value looked up in pageTable under b.mutex indexes b.pages only before that mutex is released — after an Unlock the frame may hold another page (evicted and re-used meanwhile), so marking / reading `b.pages[frameID]` then touches the wrong page", func(w *World, r *Report) {
		pt := w.Field("storage/buffer", "BufferPoolManager", "pageTable")
		pages := w.Field("storage/buffer", "BufferPoolManager", "pages")
		mu := w.Field("storage/buffer", "BufferPoolManager", "mutex")
		lt := w.LockTable()
		nUse := 0
		for _, fn := range w.methodsOf("storage/buffer", "BufferPoolManager") {
			var lookups []ssa.Instruction
			for _, b := range fn.Blocks {
				for _, in := range b.Instrs {
					if l, ok := in.(*ssa.Lookup); ok && fieldLoadOf(l.X, pt) {
						lookups = append(lookups, in)
					}
				}
			}
			if len(lookups) == 0 {
				continue
			}
			isUnlock := func(in ssa.Instruction) bool {
				c, ok := in.(ssa.CallInstruction)
				if !ok || CalleeObj(c) == nil || lt.ops[CalleeObj(c)] != opUnlock {
					return false
				}
				if _, isDefer := in.(*ssa.Defer); isDefer {
					return false
				}
				args := c.Common().Args
				return len(args) > 0 && DependsOn(args[0], func(x ssa.Value) bool { return isFieldAddrOf(x, mu) || fieldLoadOf(x, mu) })
			}
			var bad []string
			for _, b := range fn.Blocks {
				for _, in := range b.Instrs {
					ia, ok := in.(*ssa.IndexAddr)
					if !ok || !fieldLoadOf(ia.X, pages) {
						continue
					}
					for _, l := range lookups {
						lv := l.(ssa.Value)
						if !DependsOn(ia.Index, func(x ssa.Value) bool { return x == lv }) {
							continue
						}
						nUse++
						// is there an Unlock k with l ->* k ->* use (the second leg not re-executing l)?
						use := in
						for _, kb := range fn.Blocks {
							for _, k := range kb.Instrs {
								if !isUnlock(k) {
									continue
								}
								leg1 := (&PathQ{Fn: fn, Target: func(x ssa.Instruction) bool { return x == k }}).FromAfter([]ssa.Instruction{l})
								if leg1 == nil {
									continue
								}
								leg2 := (&PathQ{Fn: fn, Avoid: func(x ssa.Instruction) bool { return x == l }, Target: func(x ssa.Instruction) bool { return x == use }}).FromAfter([]ssa.Instruction{k})
								if leg2 != nil {
									bad = append(bad, fmt.Sprintf("frame id read at %s is used to index b.pages at %s after b.mutex was released at %s", w.InstrPos(l), w.InstrPos(use), w.InstrPos(k)))
								}
							}
						}
					}
				}
			}
			r.Check(len(bad) == 0, "BPM."+fn.Name()+":frame-id-used-inside-its-critical-section", "frame ids read from pageTable index b.pages only before the pool mutex is released", strings.Join(uniq(bad), "; "))
		}
		r.Floor("uses of a looked-up frame id as index of b.pages", nUse, 3)
	})

	reg("C09-R5", "a clean shutdown (and a checkpoint) writes every dirty page: in FlushAllDirtyPages, with IsDirty() assumed true, no path reaches the end of the loop iteration (the page's RUnlatch) without adding the page to the list that is flushed — no other condition may exclude a dirty page (a deallocated one still determines the length of the data file, from which the next launch derives the next page id)", func(w *World, r *Report) {
		a := w.A()
		fn := w.SSA(a.BPMFlushAllDirty)
		sites := sitesCalling(fn, a.PageIsDirty)
		r.Floor("IsDirty tests in FlushAllDirtyPages", len(sites), 1)
		isCollect := func(in ssa.Instruction) bool {
			c, ok := in.(*ssa.Call)
			if !ok {
				return false
			}
			b, ok := c.Call.Value.(*ssa.Builtin)
			if !ok || b.Name() != "append" {
				return false
			}
			sl, ok := c.Type().Underlying().(*types.Slice)
			return ok && strings.HasSuffix(sl.Elem().String(), "types.PageID")
		}
		wit := (&PathQ{Fn: fn, Cut: []EdgeCut{CutWhen(IsCallTo(a.PageIsDirty), false)}, Avoid: isCollect, Target: func(in ssa.Instruction) bool {
			return isReturn(in) || InstrCallsObj(a.PageRUnlatch)(in)
		}}).FromAfter(sites)
		r.Check(wit == nil, "FlushAllDirtyPages:every-dirty-page-is-collected", "every page found dirty is put on the list of pages to flush", "a dirty page can be skipped: "+w.DescribeWitness(fn, wit))
	})
}

func init() {
	reg("C13-R11", "pin accounting of resident pages: FetchPage's cache-hit path (a page returned without ReadPage) increments the pin count and tells the replacer (Pin) before the pool mutex is released; UnpinPage decrements the pin count, and offers the frame for eviction (replacer.Unpin) only on the side of a test on which the pin count is not positive — a frame that someone still has pinned is never evictable", func(w *World, r *Report) {
		a := w.A()
		incPin := w.MethodObj("storage/page", "Page", "IncPinCount")
		decPin := w.MethodObj("storage/page", "Page", "DecPinCount")
		pinCnt := w.MethodObj("storage/page", "Page", "PinCount")
		rPin := w.MethodObj("storage/buffer", "ClockReplacer", "Pin")
		rUnpin := w.MethodObj("storage/buffer", "ClockReplacer", "Unpin")
		fetch := w.SSA(a.BPMFetch)
		// returns of a page (non-nil result) that are not preceded by ReadPage = cache hit
		dmRead := w.family(a.DMReadPage)
		isRead := func(in ssa.Instruction) bool {
			c, ok := in.(ssa.CallInstruction)
			return ok && CalleeObj(c) != nil && (dmRead[CalleeObj(c)] || dmRead[CalleeObj(c).Origin()])
		}
		isPageRet := func(in ssa.Instruction) bool {
			ret, ok := in.(*ssa.Return)
			if !ok || len(ret.Results) != 1 {
				return false
			}
			c, isConst := retOperand(ret, 0).(*ssa.Const)
			return !(isConst && c.IsNil())
		}
		getFrame := InstrCallsObj(a.BPMGetFrameID)
		for _, what := range []struct {
			name string
			obj  *types.Func
		}{{"pin-count-incremented", incPin}, {"replacer-told", rPin}} {
			wit := (&PathQ{Fn: fetch, Avoid: func(in ssa.Instruction) bool { return isRead(in) || getFrame(in) || InstrCallsObj(what.obj)(in) }, Target: isPageRet}).FromEntry()
			r.Check(wit == nil, "FetchPage:cache-hit:"+what.name, "a resident page is handed out only after "+what.obj.Name()+" was called", "path returning a resident page without it: "+w.DescribeWitness(fetch, wit))
		}
		// UnpinPage
		un := w.SSA(a.BPMUnpin)
		sitesU := sitesCalling(un, rUnpin)
		r.Floor("replacer.Unpin sites in UnpinPage", len(sitesU), 1)
		wit := (&PathQ{Fn: un, Avoid: InstrCallsObj(decPin), Target: InstrCallsObj(rUnpin)}).FromEntry()
		r.Check(wit == nil, "UnpinPage:decrements-before-offering", "the pin count is decremented before the frame is offered for eviction", "path: "+w.DescribeWitness(un, wit))
		// the guard: a comparison of PinCount() with 0; remove the edge on which the count is <= 0
		zeroSide := func(b *ssa.BasicBlock, succ int) bool {
			i := blockIf(b)
			if i == nil {
				return false
			}
			v, neg := condBase(i.Cond)
			bo, ok := v.(*ssa.BinOp)
			if !ok {
				return false
			}
			isCnt := func(x ssa.Value) bool { return IsCallTo(pinCnt)(stripConv(x)) }
			isZero := func(x ssa.Value) bool {
				cv, ok := constOf(x)
				if !ok {
					return false
				}
				iv, ok := constant.Int64Val(constant.ToInt(cv))
				return ok && iv == 0
			}
			var nonPositiveWhenTrue bool
			switch {
			case isCnt(bo.X) && isZero(bo.Y) && (bo.Op == token.LEQ || bo.Op == token.EQL):
				nonPositiveWhenTrue = true
			case isCnt(bo.X) && isZero(bo.Y) && (bo.Op == token.GTR || bo.Op == token.NEQ):
				nonPositiveWhenTrue = false
			case isZero(bo.X) && isCnt(bo.Y) && (bo.Op == token.GEQ || bo.Op == token.EQL):
				nonPositiveWhenTrue = true
			case isZero(bo.X) && isCnt(bo.Y) && (bo.Op == token.LSS || bo.Op == token.NEQ):
				nonPositiveWhenTrue = false
			default:
				return false
			}
			binTrue := (succ == 0) != neg
			return binTrue == nonPositiveWhenTrue
		}
		r.Floor("tests of the pin count against zero in UnpinPage", countCutEdges(un, []EdgeCut{zeroSide}), 1)
		wit = (&PathQ{Fn: un, Cut: []EdgeCut{zeroSide}, Target: InstrCallsObj(rUnpin)}).FromEntry()
		r.Check(wit == nil, "UnpinPage:offered-only-when-unpinned", "the frame is offered for eviction only when its pin count is not positive", "replacer.Unpin reachable with a positive pin count: "+w.DescribeWitness(un, wit))
	})
}
