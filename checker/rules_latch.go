package main

// rules_latch.go — pairing of mutexes / RW latches / page latches acquired and released inside one
// function (C17-R3, the TS half of C19): no exit with a lock held, no double acquire, no release of
// a lock the function does not hold — except in the declared hand-over functions.

import (
	"sort"
	"strings"

	"golang.org/x/tools/go/ssa"
)

// functions that take part in a cross-function latch hand-over (the protocol is declared here and
// trusted, not verified: see DESIGN section 3, C17 "not covered")
var latchHandOver = map[string]string{
	"(*container/skip_list.SkipList).FindNode":                                    "latch coupling descent: returns with the found node (and, for insert/remove, the corner nodes) latched and pinned",
	"(*container/skip_list.SkipList).FindNodeWithEntryIdxForItr":                  "returns with the found node read-latched and pinned",
	"container/skip_list.latchOpWithOpType":                                       "latch/unlatch dispatcher: acquires or releases according to its op argument",
	"(*storage/page/skip_list_page.SkipListBlockPage).Insert":                     "releases the latch and pin of the receiver that FindNode handed over",
	"(*storage/page/skip_list_page.SkipListBlockPage).Remove":                     "releases the latch and pin of the receiver that FindNode handed over",
	"(*storage/page/skip_list_page.SkipListBlockPage).SplitNode":                  "operates on nodes latched by validateNoChangeAndGetLock; releases them through unlockAndUnpinNodes",
	"storage/page/skip_list_page.validateNoChangeAndGetLock":                      "validate-and-relatch: returns the list of nodes it latched",
	"storage/page/skip_list_page.unlockAndUnpinNodes":                             "releases every node of the list built by validateNoChangeAndGetLock",
	"(*storage/page/skip_list_page.SkipListBlockPage).newNodeAndUpdateChain":      "works on the latched node list of its caller",
	"(*container/skip_list.SkipListIterator).initRIDList":                         "walks level-0 nodes hand over hand starting from the node FindNodeWithEntryIdxForItr returned latched",
	"(*storage/access.TransactionManager).BlockAllTransactions":                   "checkpoint protocol: takes the global latch, ResumeTransactions releases it",
	"(*storage/access.TransactionManager).ResumeTransactions":                     "checkpoint protocol: releases the latch taken by BlockAllTransactions",
	"(*storage/access.TransactionManager).Begin":                                  "transaction protocol: takes the global latch shared; Commit/Abort release it (C05-R2)",
	"(*storage/access.TransactionManager).Commit":                                 "transaction protocol: releases the global latch taken by Begin (C05-R2)",
	"(*storage/access.TransactionManager).Abort":                                  "transaction protocol: releases the global latch taken by Begin (C05-R2)",
	"(*storage/buffer.BufferPoolManager).getFrameID":                              "entered and left with b.mutex held (C01-R7)",
	"(*storage/buffer.BufferPoolManager).PrintReplacerInternalState":              "entered with b.mutex held (C01-R7)",
	"(*storage/buffer.BufferPoolManager).ReturnBuffer":                            "entered with b.mutex held (C01-R7)",
	"(*concurrency.CheckpointManager).BeginCheckpoint":                            "checkpoint protocol (calls BlockAllTransactions)",
	"(*concurrency.CheckpointManager).EndCheckpoint":                              "checkpoint protocol (calls ResumeTransactions)",
	"(*container/skip_list.SkipList).GetValue":                                    "consumer of FindNode's hand-over: reads the node, then unlatches and unpins it",
	"(*common.readerWriterLatch).WLock":                                           "latch implementation",
	"(*common.readerWriterLatch).WUnlock":                                         "latch implementation",
	"(*common.readerWriterLatch).RLock":                                           "latch implementation",
	"(*common.readerWriterLatch).RUnlock":                                         "latch implementation",
	"(*storage/page.Page).WLatch":                                                 "latch implementation",
	"(*storage/page.Page).WUnlatch":                                               "latch implementation",
	"(*storage/page.Page).RLatch":                                                 "latch implementation",
	"(*storage/page.Page).RUnlatch":                                               "latch implementation",
}

func init() {
	reg("C17-R3", "latch pairing: every mutex / RW latch / page latch acquired in a function is released on every non-panicking exit of that function, never acquired twice, never released unheld — except in the declared hand-over functions of the skip list, the checkpoint and the transaction protocol", func(w *World, r *Report) {
		lt := w.LockTable()
		n, nOps := 0, 0
		used := map[string]bool{}
		for _, fn := range w.RepoFuncs {
			if w.IsTestFunc(fn) || fn.Parent() != nil || fn.Synthetic != "" {
				continue
			}
			has := false
			for _, f := range WithNested(fn) {
				EachCall(f, func(c ssa.CallInstruction) {
					if op, _ := lt.classify(c); op != opNone {
						has = true
						nOps++
					}
				})
			}
			if !has {
				continue
			}
			k := funcKey(fn)
			if fn.Pkg != nil && fn.Pkg.Pkg.Path() == libMod+"/common" && fn.Signature.Recv() != nil {
				switch fn.Name() {
				case "Lock", "Unlock", "RLock", "RUnlock", "WLock", "WUnlock":
					r.Note(k+":latch-implementation", "method of a lock type in package common", "implements the primitive itself")
					continue
				}
			}
			if reason, ok := latchHandOver[k]; ok {
				used[k] = true
				r.Note(k+":hand-over", "declared cross-function latch protocol (trusted)", reason)
				continue
			}
			n++
			var issues []string
			params := map[string]bool{}
			lw := &LockWalk{W: w, Fn: fn,
				OnReturn: func(ret *ssa.Return, st *LState) {
					for _, h := range st.HeldNames() {
						issues = append(issues, "returns at "+w.InstrPos(ret)+" holding "+h)
					}
				},
				OnIssue: func(kind string, in ssa.Instruction, name string, st *LState) {
					issues = append(issues, kind+" "+name+" at "+w.InstrPos(in))
				}}
			_ = params
			lw.Run()
			if lw.Truncated {
				r.Undecided(k+":latch-pairing", "state space cap hit", "")
				continue
			}
			issues = uniq(issues)
			sort.Strings(issues)
			if len(issues) > 6 {
				issues = append(issues[:6], "…")
			}
			r.Check(len(issues) == 0, k+":latch-pairing", "locks and latches are paired inside the function", strings.Join(issues, "; "))
		}
		r.Floor("functions with lock operations checked", n, 40)
		r.Floor("lock operations seen", nOps, 150)
		for k := range latchHandOver {
			if !used[k] {
				r.Note(k+":hand-over-unused", "hand-over table entry matches no function with lock operations on this tree", "")
			}
		}
	})
}
