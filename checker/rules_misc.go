package main

// rules_misc.go — C08-R3 (log buffer discipline), C04-R3 / C07-R4 (ownership of tuple bytes and index containers).

import (
	"go/types"
	"strings"

	"golang.org/x/tools/go/ssa"
)

func init() {
	reg("C08-R3", "log records are written whole: in LogManager.AppendLogRecord the record header is (re)written after every (re)acquisition of the log latch before the function returns, the offset always advances by the record size; in Flush the buffer swap happens under both locks, WriteLog runs under wlogMutex and persistentLSN is set after it", func(w *World, r *Report) {
		a := w.A()
		ap := w.SSA(a.LMAppend)
		bufF := w.Field("recovery", "LogManager", "logBuffer")
		offF := w.Field("recovery", "LogManager", "offset")
		sizeF := w.Field("recovery", "LogRecord", "Size")
		hdr := w.MethodObj("recovery", "LogRecord", "GetLogHeaderData")
		wlock := w.MethodObj("common", "ReaderWriterLatch", "WLock")
		isHeaderCopy := func(in ssa.Instruction) bool {
			c, ok := in.(*ssa.Call)
			if !ok {
				return false
			}
			bi, ok := c.Call.Value.(*ssa.Builtin)
			if !ok || bi.Name() != "copy" {
				return false
			}
			return DependsOn(c.Call.Args[0], func(v ssa.Value) bool { return fieldLoadOf(v, bufF) }) && DependsOn(c.Call.Args[1], IsCallTo(hdr))
		}
		locks := sitesCalling(ap, wlock)
		r.Floor("latch acquisitions in AppendLogRecord", len(locks), 3)
		nHdr := 0
		for _, b := range ap.Blocks {
			for _, in := range b.Instrs {
				if isHeaderCopy(in) {
					nHdr++
				}
			}
		}
		r.Floor("header copies in AppendLogRecord", nHdr, 2)
		for _, l := range locks {
			wit := (&PathQ{Fn: ap, Avoid: isHeaderCopy, Target: isReturn}).FromAfter([]ssa.Instruction{l})
			r.Check(wit == nil, "AppendLogRecord:header-after-relatch"+ordinalIn(ap, l, wlock), "after this acquisition of the log latch the record header is written into the (possibly swapped) buffer before returning", "path: "+w.DescribeWitness(ap, wit))
		}
		isAdvance := func(in ssa.Instruction) bool {
			st, ok := in.(*ssa.Store)
			return ok && isFieldAddrOf(st.Addr, offF) && DependsOn(st.Val, func(v ssa.Value) bool { return fieldLoadOf(v, sizeF) }) && DependsOn(st.Val, func(v ssa.Value) bool { return fieldLoadOf(v, offF) })
		}
		wit := (&PathQ{Fn: ap, Avoid: isAdvance, Target: isReturn}).FromEntry()
		r.Check(wit == nil, "AppendLogRecord:offset-advances-by-record-size", "the buffer offset advances by logRecord.Size on every path", "path: "+w.DescribeWitness(ap, wit))
		// capacity checks: both the header and the whole record are checked against the remaining space (branch on offset and HeaderSize / Size)
		ifOnOffset := func(in ssa.Instruction) bool {
			i, ok := in.(*ssa.If)
			return ok && DependsOn(i.Cond, func(v ssa.Value) bool { return fieldLoadOf(v, offF) })
		}
		wit = (&PathQ{Fn: ap, Avoid: ifOnOffset, Target: isHeaderCopy}).FromEntry()
		r.Check(wit == nil, "AppendLogRecord:space-check-before-header", "the header is copied only after the remaining buffer space was tested", "path: "+w.DescribeWitness(ap, wit))
		ifOnSize := func(in ssa.Instruction) bool {
			i, ok := in.(*ssa.If)
			return ok && DependsOn(i.Cond, func(v ssa.Value) bool { return fieldLoadOf(v, sizeF) }) && DependsOn(i.Cond, func(v ssa.Value) bool { return fieldLoadOf(v, offF) })
		}
		wit = (&PathQ{Fn: ap, Avoid: ifOnSize, Target: isAdvance}).FromEntry()
		r.Check(wit == nil, "AppendLogRecord:space-check-before-payload", "the payload is placed only after the record size was tested against the remaining space", "path: "+w.DescribeWitness(ap, wit))
		// Flush
		fl := w.SSA(a.LMFlush)
		recv := "p:" + fl.Params[0].Name()
		var bad []string
		seenWrite := false
		lw := &LockWalk{W: w, Fn: fl,
			OnInstr: func(in ssa.Instruction, st *LState) {
				if InstrCallsObj(a.DMWriteLog)(in) {
					seenWrite = true
					if !st.Holds(recv+".wlogMutex", false) {
						bad = append(bad, "WriteLog at "+w.InstrPos(in)+" without wlogMutex")
					}
					if st.Holds(recv+".latch", false) {
						bad = append(bad, "WriteLog at "+w.InstrPos(in)+" while the append latch is held (appenders would block on I/O)")
					}
				}
				if s, ok := in.(*ssa.Store); ok && (isFieldAddrOf(s.Addr, bufF) || isFieldAddrOf(s.Addr, w.Field("recovery", "LogManager", "flushBuffer"))) {
					if !st.Holds(recv+".wlogMutex", false) || !st.Holds(recv+".latch", true) {
						bad = append(bad, "buffer swap at "+w.InstrPos(in)+" without both wlogMutex and the append latch")
					}
				}
			}}
		lw.Run()
		r.Check(len(bad) == 0 && seenWrite, "Flush:swap-and-write-discipline", "buffers are swapped under both locks; the log write happens under wlogMutex only", strings.Join(uniq(bad), "; "))
		// WriteLog gets the flushed prefix of the buffer that was swapped out
		for _, s := range sitesCalling(fl, a.DMWriteLog) {
			c := s.(ssa.CallInstruction)
			arg := c.Common().Args[len(c.Common().Args)-1]
			r.Check(DependsOn(arg, func(v ssa.Value) bool { return fieldLoadOf(v, w.Field("recovery", "LogManager", "flushBuffer")) }) && DependsOn(arg, func(v ssa.Value) bool { return fieldLoadOf(v, offF) }), "Flush:writes-swapped-buffer-prefix", "WriteLog receives flushBuffer[:offset] (offset read before it was reset)", "argument at "+w.InstrPos(s))
		}
		// offset reset under the latch happens on every path
		isReset := func(in ssa.Instruction) bool {
			st, ok := in.(*ssa.Store)
			if !ok || !isFieldAddrOf(st.Addr, offF) {
				return false
			}
			_, isConst := st.Val.(*ssa.Const)
			return isConst
		}
		wit = (&PathQ{Fn: fl, Avoid: isReset, Target: InstrCallsObj(a.DMWriteLog)}).FromEntry()
		r.Check(wit == nil, "Flush:offset-reset-before-write", "the append offset is reset (buffer handed over) before the write", "path: "+w.DescribeWitness(fl, wit))
		persist := w.Field("recovery", "LogManager", "persistentLSN")
		isPersist := func(in ssa.Instruction) bool {
			st, ok := in.(*ssa.Store)
			return ok && isFieldAddrOf(st.Addr, persist)
		}
		wit = (&PathQ{Fn: fl, Avoid: InstrCallsObj(a.DMWriteLog), Target: isPersist}).FromEntry()
		r.Check(wit == nil, "Flush:persistentLSN-after-write", "persistentLSN is advanced only after WriteLog", "path: "+w.DescribeWitness(fl, wit))
	})

	reg("C04-R3", "tuple bytes leave a heap page only through TablePage methods: no function outside the TablePage methods takes Data()/GetData() of a page obtained through CastPageAsTablePage", func(w *World, r *Report) {
		a := w.A()
		n := 0
		for _, fn := range w.RepoFuncs {
			if w.IsTestFunc(fn) {
				continue
			}
			top := topFunc(fn)
			if top.Signature.Recv() != nil && strings.HasSuffix(top.Signature.Recv().Type().String(), "access.TablePage") {
				continue
			}
			var bad []string
			EachCall(fn, func(c ssa.CallInstruction) {
				o := CalleeObj(c)
				if o != a.PageData && o != a.PageGetData && o != a.PageCopy {
					return
				}
				n++
				if DependsOn(c.Common().Args[0], IsCallTo(a.CastTablePage)) {
					bad = append(bad, w.InstrPos(c))
				}
			})
			if len(bad) > 0 {
				r.Bad("raw-heap-page-bytes:"+funcKey(top), "heap page bytes are touched only by TablePage methods (which check locks and log)", funcKey(top)+" takes raw bytes of a heap page at "+strings.Join(bad, ", "))
			}
		}
		r.Ok("raw-heap-page-bytes:none-outside-TablePage", "no function outside TablePage takes raw bytes of a heap page")
		r.Floor("Data()/GetData()/Copy call sites outside TablePage examined", n, 10)
	})

	reg("C07-R4", "index containers are mutated only through the index.Index wrappers (which hold the wrapper lock and encode keys consistently)", func(w *World, r *Report) {
		sl := mergeSets(map[*types.Func]bool{w.MethodObj("container/skip_list", "SkipList", "Insert"): true}, map[*types.Func]bool{w.MethodObj("container/skip_list", "SkipList", "Remove"): true})
		wmc(w, r, "SkipList.Insert/Remove", sl, map[string]string{
			"(*storage/index.SkipListIndex).insertEntryInner":     "wrapper",
			"(*storage/index.SkipListIndex).deleteEntryInner":     "wrapper",
			"(*storage/index.UniqSkipListIndex).insertEntryInner": "wrapper",
			"(*storage/index.UniqSkipListIndex).deleteEntryInner": "wrapper",
		}, 4)
		ht := mergeSets(map[*types.Func]bool{w.MethodObj("container/hash", "LinearProbeHashTable", "Insert"): true}, map[*types.Func]bool{w.MethodObj("container/hash", "LinearProbeHashTable", "Remove"): true})
		wmc(w, r, "LinearProbeHashTable.Insert/Remove", ht, map[string]string{
			"(*storage/index.LinearProbeHashTableIndex).InsertEntry":      "wrapper",
			"(*storage/index.LinearProbeHashTableIndex).DeleteEntry":      "wrapper",
			"(*storage/index.LinearProbeHashTableIndex).insertEntryInner": "wrapper",
			"(*storage/index.LinearProbeHashTableIndex).deleteEntryInner": "wrapper",
		}, 2)
	})
}
