package main

// rules_round2.go — rules written after the second round of independently seeded regressions.

import (
	"fmt"
	"go/constant"
	"go/token"
	"go/types"
	"sort"
	"strings"

	"golang.org/x/tools/go/ssa"
)

func init() {
	reg("C01-R11", "a page that is only partly on the data file is read as a page that was never written: after a short read DiskManagerImpl.ReadPage zeroes the whole buffer (a zeroing loop over the buffer that starts at index 0, or clear()) — keeping the head of a torn page keeps its page LSN and slot directory while the tuple bytes at the end of the page are missing, and redo skips the page", func(w *World, r *Report) {
		fn := w.Fn("storage/disk", "DiskManagerImpl", "ReadPage")
		var buf *ssa.Parameter
		for _, p := range fn.Params {
			if _, ok := p.Type().Underlying().(*types.Slice); ok {
				buf = p
			}
		}
		if buf == nil {
			fatalf("ReadPage: no slice parameter")
		}
		n, good := 0, 0
		var why []string
		for _, b := range fn.Blocks {
			for _, in := range b.Instrs {
				if c, ok := in.(*ssa.Call); ok {
					if bi, ok := c.Call.Value.(*ssa.Builtin); ok && bi.Name() == "clear" && len(c.Call.Args) == 1 && resolveCell(c.Call.Args[0]) == ssa.Value(buf) {
						n++
						good++
					}
				}
				st, ok := in.(*ssa.Store)
				if !ok {
					continue
				}
				ia, ok := st.Addr.(*ssa.IndexAddr)
				if !ok || resolveCell(ia.X) != ssa.Value(buf) {
					continue
				}
				cv, isConst := constOf(st.Val)
				if !isConst {
					continue
				}
				if iv, _ := constant.Int64Val(constant.ToInt(cv)); iv != 0 {
					continue
				}
				n++
				ph, isPhi := stripConv(ia.Index).(*ssa.Phi)
				if !isPhi {
					why = append(why, "zero store at "+w.InstrPos(in)+" is not inside a loop over the buffer")
					continue
				}
				hdr := ph.Block()
				fromZero := false
				for k, e := range ph.Edges {
					if hdr.Dominates(hdr.Preds[k]) {
						continue
					}
					f := linForm(e, nil, 0)
					fromZero = f.C == 0 && len(f.T) == 0
				}
				if fromZero {
					good++
				} else {
					why = append(why, "the zeroing loop at "+w.InstrPos(in)+" does not start at index 0: the bytes that were read stay in the buffer")
				}
			}
		}
		r.Floor("zero fills of the read buffer in ReadPage", n, 1)
		r.Check(n > 0 && good == n, "ReadPage:short-read-yields-an-empty-page", "a short read leaves no byte of the partial page in the buffer", strings.Join(why, "; "))
	})

	reg("C03-R6", "in-place rollback cannot relocate the row: every way from TransactionManager.Abort to TablePage.UpdateTuple passes isRollbackOrUndo = true — directly with the constant, or through TableHeap.UpdateTuple only if the heap function hands its own isRollback parameter on to the page (a page-level update without the flag refuses to shrink the row, the heap then deletes and re-inserts it at another RID while the indexes keep the old one)", func(w *World, r *Report) {
		a := w.A()
		ab := w.SSA(a.TMAbort)
		n := 0
		flagOf := func(c ssa.CallInstruction) ssa.Value { args := c.Common().Args; return args[len(args)-1] }
		for _, s := range sitesCalling(ab, a.TPUpdate) {
			n++
			cv, ok := constOf(flagOf(s.(ssa.CallInstruction)))
			r.Check(ok && constant.BoolVal(cv), "Abort:page-level-rollback-flag"+ordinalIn(ab, s, a.TPUpdate), "the page-level rollback passes isRollbackOrUndo=true", "flag at "+w.InstrPos(s)+" is not the constant true")
		}
		th := w.SSA(a.THUpdate)
		var rbParam *ssa.Parameter
		for _, p := range th.Params {
			if p.Name() == "isRollback" {
				rbParam = p
			}
		}
		for _, s := range sitesCalling(ab, a.THUpdate) {
			n++
			cv, ok := constOf(flagOf(s.(ssa.CallInstruction)))
			callerTrue := ok && constant.BoolVal(cv)
			handsOn := rbParam != nil
			for _, ps := range sitesCalling(th, a.TPUpdate) {
				f := flagOf(ps.(ssa.CallInstruction))
				if cv, ok := constOf(f); ok && constant.BoolVal(cv) {
					continue
				}
				if rbParam == nil || !DependsOn(f, func(x ssa.Value) bool { return x == ssa.Value(rbParam) }) {
					handsOn = false
				}
			}
			r.Check(callerTrue && handsOn, "Abort:heap-level-rollback-keeps-the-flag"+ordinalIn(ab, s, a.THUpdate), "a rollback that goes through TableHeap.UpdateTuple reaches the page with isRollbackOrUndo=true", "Abort calls TableHeap.UpdateTuple at "+w.InstrPos(s)+", which updates the page without the rollback flag: a shrinking restore is turned into delete + insert at another RID")
		}
		r.Floor("UpdateTuple calls in Abort (page or heap level)", n, 1)
	})

	reg("C04-R9", "an index entry of a row that this transaction deleted itself is skipped, not treated as the end of the scan: in PointScanWithIndexExecutor.Init the ErrSelfDeletedCase side neither adds the row to the result nor leaves the loop over the RIDs of the key (duplicate keys: the other rows still have to be returned)", func(w *World, r *Report) {
		fn := w.Fn("execution/executors", "PointScanWithIndexExecutor", "Init")
		selfDel := w.Const("storage/access", "ErrSelfDeletedCase") // a constant of the string-based error type
		found := w.Field("execution/executors", "PointScanWithIndexExecutor", "foundTuples")
		isSD := func(v ssa.Value) bool {
			return DependsOn(v, func(x ssa.Value) bool {
				c, ok := x.(*ssa.Const)
				return ok && c.Value != nil && types.Identical(c.Type(), selfDel.Type()) && constant.Compare(c.Value, token.EQL, selfDel.Val())
			})
		}
		// every test of the error against ErrSelfDeletedCase is resolved as "it is that error"
		assumeSD := func(b *ssa.BasicBlock, succ int) bool {
			i := blockIf(b)
			if i == nil {
				return false
			}
			base, neg := condBase(i.Cond)
			bo, ok := base.(*ssa.BinOp)
			if !ok || (bo.Op != token.EQL && bo.Op != token.NEQ) || !(isSD(bo.X) || isSD(bo.Y)) {
				return false
			}
			binTrue := (succ == 0) != neg
			return binTrue != (bo.Op == token.EQL) // remove the side on which the error is something else
		}
		n := countCutEdges(fn, []EdgeCut{assumeSD})
		a := w.A()
		gets := sitesCalling(fn, a.THGetTuple)
		r.Floor("TableHeap.GetTuple calls in PointScanWithIndexExecutor.Init", len(gets), 1)
		var hdr *ssa.BasicBlock
		for _, g := range gets {
			if h := loopHeaderOf(g.Block()); h != nil {
				hdr = h
			}
		}
		if hdr == nil {
			r.Bad("PointScan.Init:rid-loop", "the rows of a key are fetched in a loop over its RIDs", "GetTuple is not called inside a loop")
		} else {
			inHdr := func(in ssa.Instruction) bool { return in.Block() == hdr }
			wit := (&PathQ{Fn: fn, Cut: []EdgeCut{assumeSD}, Avoid: inHdr, Target: isReturn}).FromAfter(gets)
			r.Check(wit == nil, "PointScan.Init:self-deleted-entry-does-not-end-the-scan", "after an entry of a self-deleted row the scan goes on with the next RID of the key", "with the error assumed to be ErrSelfDeletedCase the scan can end without visiting the remaining RIDs: "+w.DescribeWitness(fn, wit))
			isAdd := func(in ssa.Instruction) bool {
				st, ok := in.(*ssa.Store)
				return ok && isFieldAddrOf(st.Addr, found) && DependsOn(st.Val, func(x ssa.Value) bool {
					c, ok := x.(*ssa.Call)
					if !ok {
						return false
					}
					bi, ok := c.Call.Value.(*ssa.Builtin)
					return ok && bi.Name() == "append"
				})
			}
			wit = (&PathQ{Fn: fn, Cut: []EdgeCut{assumeSD}, Avoid: inHdr, Target: isAdd}).FromAfter(gets)
			r.Check(wit == nil, "PointScan.Init:self-deleted-row-is-not-returned", "a row deleted by the same transaction is not added to the result", "path: "+w.DescribeWitness(fn, wit))
		}
		r.Floor("tests of ErrSelfDeletedCase inside the RID loop of PointScanWithIndexExecutor.Init", n, 1)
	})

	reg("C06-R5", "a sequential scan walks over every following page until it finds a row: in TableHeapIterator.Next the fetch of the following page lies on a cycle of the control flow (it can be repeated), so pages that hold no visible row — emptied by deletes — do not end the scan", func(w *World, r *Report) {
		a := w.A()
		fn := w.Fn("storage/access", "TableHeapIterator", "Next")
		getNext := w.MethodObj("storage/access", "TablePage", "GetNextPageID")
		n := 0
		for _, s := range sitesCalling(fn, a.BPMFetch) {
			c := s.(*ssa.Call)
			if !DependsOn(c.Call.Args[len(c.Call.Args)-1], IsCallTo(getNext)) {
				continue
			}
			n++
			site := s
			// a cycle through the page advance itself, not the `goto start` taken after a row was read
			wit := (&PathQ{Fn: fn, Avoid: InstrCallsObj(a.TPGetTuple), Target: func(in ssa.Instruction) bool { return in == site }}).FromAfter([]ssa.Instruction{site})
			r.Check(wit != nil, "TableHeapIterator.Next:page-advance-is-repeatable"+itoaOrd(n), "the step to the following page can be taken again when that page has no row to offer", "FetchPage(next page id) at "+w.InstrPos(s)+" is executed at most once per call: a page without visible rows ends the scan although further pages follow")
		}
		r.Floor("fetches of the following page in TableHeapIterator.Next", n, 1)
	})

	reg("C08-R4", "a checkpoint forces the log after the transactions are blocked: in CheckpointManager.BeginCheckpoint no path reaches FlushAllDirtyPages without BlockAllTransactions, and between BlockAllTransactions and FlushAllDirtyPages LogManager.Flush runs — a transaction that is still running after the log force keeps appending records (an aborting one never forces the log itself), and its pages would be written ahead of them", func(w *World, r *Report) {
		a := w.A()
		fn := w.Fn("concurrency", "CheckpointManager", "BeginCheckpoint")
		block := w.MethodObj("storage/access", "TransactionManager", "BlockAllTransactions")
		isFlushPages := InstrCallsObj(a.BPMFlushAllDirty, a.BPMFlushAll)
		fs := a.flushSumm()
		r.Floor("page flushes in BeginCheckpoint", len(sitesCalling(fn, a.BPMFlushAllDirty))+len(sitesCalling(fn, a.BPMFlushAll)), 1)
		wit := (&PathQ{Fn: fn, Avoid: InstrCallsObj(block), Target: isFlushPages}).FromEntry()
		r.Check(wit == nil, "BeginCheckpoint:pages-flushed-only-with-transactions-blocked", "dirty pages are written only after all transactions were blocked", "path: "+w.DescribeWitness(fn, wit))
		wit = (&PathQ{Fn: fn, Avoid: fs.MustSite, Target: isFlushPages}).FromAfter(sitesCalling(fn, block))
		r.Check(wit == nil, "BeginCheckpoint:log-forced-after-blocking", "the log is forced after the transactions were blocked and before the pages are written", "path from BlockAllTransactions to the page flush without LogManager.Flush: "+w.DescribeWitness(fn, wit))
	})

	reg("C06-R7", "index range bounds are private copies of the WHERE constants: every store to Range.Min / Range.Max in the optimizer stores the result of a call (GetDeepCopy, a constructor), never a pointer that the caller still holds — the statistics code swaps and overwrites the values it is given while candidate plans are costed, and the residual selection of the same statement reads the same constants", func(w *World, r *Report) {
		fMin, fMax := w.Field("planner/optimizer", "Range", "Min"), w.Field("planner/optimizer", "Range", "Max")
		n := 0
		for _, fn := range w.RepoFuncs {
			if fn.Pkg == nil || fn.Pkg.Pkg.Path() != libMod+"/planner/optimizer" || w.IsTestFunc(fn) {
				continue
			}
			for _, b := range fn.Blocks {
				for _, in := range b.Instrs {
					st, ok := in.(*ssa.Store)
					if !ok || !(isFieldAddrOf(st.Addr, fMin) || isFieldAddrOf(st.Addr, fMax)) {
						continue
					}
					n++
					_, isCall := stripConv(st.Val).(*ssa.Call)
					which := "Min"
					if isFieldAddrOf(st.Addr, fMax) {
						which = "Max"
					}
					r.Check(isCall, funcKey(fn)+":range-bound-is-a-private-copy:"+which+storeOrdinal(fn, in, map[string]*types.Var{"Min": fMin, "Max": fMax}[which]), "the bound stored is a fresh value", "store at "+w.InstrPos(in)+" keeps a pointer the caller still holds")
				}
			}
		}
		r.Floor("stores to Range.Min/Max in the optimizer", n, 4)
	})

	reg("C16-R7", "a holder is recorded once: in LockShared the caller is added to a row's shared holders only where it is known not to be one already — with the `already contained` test and the `row has no entry yet` test removed, the update of sharedLockTable is unreachable (a duplicate entry makes the transaction's own upgrade or exclusive request fail for ever: it is never the sole holder)", func(w *World, r *Report) {
		a := w.A()
		fn := w.SSA(a.LockShared)
		st := w.Field("storage/access", "LockManager", "sharedLockTable")
		contain := w.FuncObj("storage/access", "isContainTxnID")
		notContained := CutWhen(IsCallTo(contain), false)
		noEntry := CutWhen(func(v ssa.Value) bool {
			e, ok := v.(*ssa.Extract)
			if !ok || e.Index != 1 {
				return false
			}
			l, ok := e.Tuple.(*ssa.Lookup)
			return ok && fieldLoadOf(l.X, st)
		}, false)
		isUpd := func(in ssa.Instruction) bool {
			mu, ok := in.(*ssa.MapUpdate)
			return ok && fieldLoadOf(mu.Map, st)
		}
		n := 0
		for _, b := range fn.Blocks {
			for _, in := range b.Instrs {
				if isUpd(in) {
					n++
				}
			}
		}
		r.Floor("updates of sharedLockTable in LockShared", n, 1)
		r.Floor("`already a holder` tests in LockShared", countCutEdges(fn, []EdgeCut{notContained}), 1)
		wit := (&PathQ{Fn: fn, Cut: []EdgeCut{notContained, noEntry}, Target: isUpd}).FromEntry()
		r.Check(wit == nil, "LockShared:holder-added-only-when-absent", "the caller is appended to the holders only when it is not among them", "holder list updated without the test: "+w.DescribeWitness(fn, wit))
	})
}

var _ = fmt.Sprintf

func init() {
	reg("C15-R7", "the slot directory is read where it is written: each getter/setter pair of TablePage (tuple offset, tuple size, tuple count, free-space pointer) addresses the page bytes with the same linear expression of the slot number; the offset and the size field of a slot do not overlap and the stride covers both; getFreeSpaceRemaining subtracts exactly the start of the slot directory and one stride per slot from the free-space pointer; InsertTuple lowers the free-space pointer by the tuple's size and setTuple stores, for the slot, the very position it copied the bytes to and the tuple's size", func(w *World, r *Report) {
		a := w.A()
		pure := map[*types.Func]bool{w.MethodObj("storage/tuple", "Tuple", "Size"): true}
		for _, nm := range []string{"GetFreeSpacePointer", "GetTupleCount"} {
			pure[w.MethodObj("storage/access", "TablePage", nm)] = true
		}
		// address expression: the Low of the first slice of page bytes in the accessor
		addr := func(name string) (LinForm, bool) {
			fn := w.Fn("storage/access", "TablePage", name)
			for _, b := range fn.Blocks {
				for _, in := range b.Instrs {
					if sl, ok := in.(*ssa.Slice); ok && sl.Low != nil && DependsOn(sl.X, a.isPageDataSource) {
						return linForm(sl.Low, nil, 0), true
					}
				}
			}
			return LinForm{}, false
		}
		pairs := [][2]string{{"GetTupleOffsetAtSlot", "SetTupleOffsetAtSlot"}, {"GetTupleSize", "SetTupleSize"}, {"GetTupleCount", "SetTupleCount"}, {"GetFreeSpacePointer", "SetFreeSpacePointer"}}
		forms := map[string]LinForm{}
		for _, p := range pairs {
			g, ok1 := addr(p[0])
			s, ok2 := addr(p[1])
			if !ok2 {
				// setters that go through Page.Copy(offset, bytes)
				fn := w.Fn("storage/access", "TablePage", p[1])
				EachCall(fn, func(c ssa.CallInstruction) {
					if CalleeObj(c) == a.PageCopy && !ok2 {
						s, ok2 = linForm(c.Common().Args[1], nil, 0), true
					}
				})
			}
			forms[p[0]] = g
			r.Check(ok1 && ok2 && g.Equal(s), "TablePage:"+p[0]+"/"+p[1]+":same-address", p[0]+" reads the bytes "+p[1]+" writes", fmt.Sprintf("getter addresses [%s], setter addresses [%s]", g, s))
		}
		off, size := forms["GetTupleOffsetAtSlot"], forms["GetTupleSize"]
		stride := int64(0)
		for _, c := range off.T {
			stride = c
		}
		sameStride := len(off.T) == 1 && len(size.T) == 1 && off.Sub(size).IsZero() == false && len(off.Sub(size).T) == 0
		gap := size.C - off.C
		r.Check(sameStride && gap >= 4 && stride >= gap+4, "TablePage:slot-fields-do-not-overlap", "the offset and size fields of a slot are 4 bytes apart and the stride covers both", fmt.Sprintf("offset field at [%s], size field at [%s]", off, size))
		// free-space formula
		fr := w.Fn("storage/access", "TablePage", "getFreeSpaceRemaining")
		var got LinForm
		okRet := false
		for _, b := range fr.Blocks {
			if ret, ok := b.Instrs[len(b.Instrs)-1].(*ssa.Return); ok && len(ret.Results) == 1 {
				got, okRet = linForm(retOperand(ret, 0), pure, 0), true
			}
		}
		want := LinForm{-off.C, map[string]int64{"GetFreeSpacePointer(" + fr.Params[0].Name() + ")": 1, "GetTupleCount(" + fr.Params[0].Name() + ")": -stride}}
		r.Check(okRet && got.Equal(want), "TablePage.getFreeSpaceRemaining:formula", "free space = free-space pointer − start of the slot directory − stride × tuple count", fmt.Sprintf("computed [%s], layout says [%s]", got, want))
		// InsertTuple / setTuple
		ins := w.SSA(a.TPInsert)
		setFSP := w.MethodObj("storage/access", "TablePage", "SetFreeSpacePointer")
		n := 0
		for _, s := range sitesCalling(ins, setFSP) {
			n++
			c := s.(*ssa.Call)
			f := linForm(c.Call.Args[1], pure, 0)
			var tupleP *ssa.Parameter
			for _, p := range ins.Params {
				if strings.HasSuffix(p.Type().String(), "tuple.Tuple") {
					tupleP = p
				}
			}
			want := LinForm{0, map[string]int64{"GetFreeSpacePointer(" + ins.Params[0].Name() + ")": 1}}
			if tupleP != nil {
				want.T["Size("+tupleP.Name()+")"] = -1
			}
			r.Check(f.Equal(want), "TablePage.InsertTuple:free-space-pointer-lowered-by-tuple-size"+itoaOrd(n), "the free-space pointer moves down by exactly the size of the inserted tuple", fmt.Sprintf("new pointer [%s], expected [%s]", f, want))
		}
		r.Floor("SetFreeSpacePointer sites in InsertTuple", n, 1)
		st := w.Fn("storage/access", "TablePage", "setTuple")
		var copies []*ssa.Call
		EachCall(st, func(c ssa.CallInstruction) {
			if cc, ok := c.(*ssa.Call); ok && CalleeObj(c) == a.PageCopy {
				copies = append(copies, cc)
			}
		})
		okSet := len(copies) == 3
		why := fmt.Sprintf("%d Page.Copy calls in setTuple, expected 3 (bytes, offset field, size field)", len(copies))
		if okSet {
			var dataAt ssa.Value
			var offStored, sizeStored bool
			for _, c := range copies {
				at := linForm(c.Call.Args[1], nil, 0)
				switch {
				case len(at.T) == 1 && at.C == off.C && DependsOn(c.Call.Args[2], func(x ssa.Value) bool { return dataAt != nil && x == dataAt }):
					offStored = true
				case len(at.T) == 1 && at.C == size.C && DependsOn(c.Call.Args[2], IsCallTo(w.MethodObj("storage/tuple", "Tuple", "Size"))):
					sizeStored = true
				default:
					if dataAt == nil {
						dataAt = stripConv(c.Call.Args[1])
					}
				}
			}
			okSet = dataAt != nil && offStored && sizeStored
			why = fmt.Sprintf("bytes copied to a position: %v; that position stored in the slot's offset field: %v; tuple size stored in the slot's size field: %v", dataAt != nil, offStored, sizeStored)
		}
		r.Check(okSet, "TablePage.setTuple:slot-describes-the-bytes", "the slot entry written by setTuple holds the position the bytes were copied to and their length", why)
	})
}

func init() {
	reg("C20-R5", "the LSN counter survives a launch that is cut between the truncation of the log and the write of the LSN-keeping record (and a lost log file): on the side on which Redo found no numbered record (greatest LSN == 0), NewSamehadaDB sets the next LSN from a value that depends on the LSNs of pages (Page.GetLSN, through its private helper), appends a numbered record and forces the log, before logging is re-activated", func(w *World, r *Report) {
		a := w.A()
		fn := w.Fn("samehada", "", "NewSamehadaDB")
		redo := w.MethodObj("recovery/log_recovery", "LogRecovery", "Redo")
		// the greatest LSN returned by Redo
		var greatest ssa.Value
		for _, s := range sitesCalling(fn, redo) {
			for _, ref := range *s.(*ssa.Call).Referrers() {
				if e, ok := ref.(*ssa.Extract); ok && e.Index == 0 {
					greatest = e
				}
			}
		}
		if greatest == nil {
			r.Bad("NewSamehadaDB:greatest-lsn-of-redo-is-used", "Redo's greatest LSN is used", "first result of Redo is unused")
			return
		}
		isG := func(v ssa.Value) bool { return resolveCell(stripConv(v)) == greatest || stripConv(v) == greatest }
		// the edge on which greatest == 0
		var starts []*ssa.BasicBlock
		for _, b := range fn.Blocks {
			i := blockIf(b)
			if i == nil {
				continue
			}
			base, neg := condBase(i.Cond)
			bo, ok := base.(*ssa.BinOp)
			if !ok {
				continue
			}
			isZero := func(x ssa.Value) bool {
				cv, ok := constOf(x)
				if !ok {
					return false
				}
				iv, ok := constant.Int64Val(constant.ToInt(cv))
				return ok && iv == 0
			}
			var zeroWhenTrue bool
			switch {
			case (isG(bo.X) && isZero(bo.Y) || isG(bo.Y) && isZero(bo.X)) && bo.Op == token.EQL:
				zeroWhenTrue = true
			case (isG(bo.X) && isZero(bo.Y) || isG(bo.Y) && isZero(bo.X)) && bo.Op == token.NEQ:
				zeroWhenTrue = false
			case isG(bo.X) && isZero(bo.Y) && bo.Op == token.LEQ:
				zeroWhenTrue = true
			case isG(bo.X) && isZero(bo.Y) && bo.Op == token.GTR:
				zeroWhenTrue = false
			default:
				continue
			}
			succ := 0
			if zeroWhenTrue == neg {
				succ = 1
			}
			starts = append(starts, b.Succs[succ])
		}
		r.Floor("tests of Redo's greatest LSN against zero in NewSamehadaDB", len(starts), 1)
		// both sides agree on what "no numbered record" looks like: the value Redo returns when it read nothing is the
		// initial value of its running maximum (the constant leaves of the returned phi), and that value is 0
		redoFn := w.SSA(redo)
		var inits []int64
		nonConst := false
		for _, b := range redoFn.Blocks {
			ret, ok := b.Instrs[len(b.Instrs)-1].(*ssa.Return)
			if !ok || len(ret.Results) == 0 {
				continue
			}
			seen := map[ssa.Value]bool{}
			var leaves func(v ssa.Value)
			leaves = func(v ssa.Value) {
				v = stripConv(resolveCell(stripConv(v)))
				if seen[v] {
					return
				}
				seen[v] = true
				if ph, ok := v.(*ssa.Phi); ok {
					for _, e := range ph.Edges {
						leaves(e)
					}
					return
				}
				if cv, ok := constOf(v); ok && cv.Kind() == constant.Int {
					if iv, ok := constant.Int64Val(cv); ok {
						inits = append(inits, iv)
						return
					}
				}
				// a value read from a record: not an initial value
				nonConst = true
			}
			leaves(retOperand(ret, 0))
		}
		okInit := len(inits) > 0 && nonConst
		for _, iv := range inits {
			if iv != 0 {
				okInit = false
			}
		}
		r.Check(okInit, "Redo:empty-log-yields-the-tested-value", "Redo reports an empty log with the value NewSamehadaDB tests for (0)", fmt.Sprintf("the running maximum of Redo starts at %v, NewSamehadaDB restores the counter from the pages only when it is 0: after a launch that died right after truncating the log the counter restarts below the page LSNs", inits))
		fromPages := func(in ssa.Instruction) bool {
			c, ok := in.(ssa.CallInstruction)
			if !ok || CalleeObj(c) != a.LMSetNextLSN {
				return false
			}
			args := c.Common().Args
			return w.DependsOnThroughHelpers(args[len(args)-1], IsCallTo(a.PageGetLSN))
		}
		for k, sb := range starts {
			// on the zero side: a SetNextLSN fed from page LSNs is reachable, followed by a numbered append and a flush,
			// unless no page has an LSN (a comparison of the helper's result guards the block: accepted)
			wit := (&PathQ{Fn: fn, Target: fromPages}).FromAfterPos(sb)
			r.Check(wit != nil, "NewSamehadaDB:lsn-restored-from-pages-when-log-is-empty"+itoaOrd(k+1), "with no numbered record on the log the next LSN is derived from the LSNs of the table pages", "on the side where Redo's greatest LSN is 0 no SetNextLSN depends on Page.GetLSN")
			var sets []ssa.Instruction
			for _, b := range fn.Blocks {
				for _, in := range b.Instrs {
					if fromPages(in) {
						sets = append(sets, in)
					}
				}
			}
			isNumberedAppend := func(in ssa.Instruction) bool {
				c, ok := in.(ssa.CallInstruction)
				if !ok || CalleeObj(c) != a.LMAppend {
					return false
				}
				args := c.Common().Args
				return DependsOn(args[len(args)-1], IsCallTo(a.NewLogRecordTxn, a.NewLogRecordInsertDelete, a.NewLogRecordUpdate, a.NewLogRecordNewPage))
			}
			w2 := (&PathQ{Fn: fn, Avoid: isNumberedAppend, Target: InstrCallsObj(a.LMActivate)}).FromAfter(sets)
			r.Check(w2 == nil && len(sets) > 0, "NewSamehadaDB:restored-counter-is-recorded"+itoaOrd(k+1), "after the counter was restored from the pages a numbered record is written before normal operation", "path from SetNextLSN(page LSNs) to ActivateLogging without a numbered append: "+w.DescribeWitness(fn, w2))
		}
	})
}

func init() {
	reg("C20-R6", "Undo can run twice: undo is neither logged nor stamped on the page, so a recovery that is repeated (the previous one stopped after its pages were written, before the log was truncated) meets its own effects. In LogRecovery.Undo the inverse of an INSERT (ApplyDelete) is reachable only on the side on which the slot of the record still holds a tuple (GetTupleSize != 0), the inverse of an APPLYDELETE (InsertTuple) only on the side on which the slot is free or beyond the tuple count; and TablePage.InsertTuple, in recovery phase, takes the slot from the tuple's recorded RID when that slot is free — otherwise the test in Undo would not see a tuple that was put back elsewhere", func(w *World, r *Report) {
		a := w.A()
		undo := w.Fn("recovery/log_recovery", "LogRecovery", "Undo")
		typeFld := w.Field("recovery", "LogRecord", "LogRecordType")
		subj := func(v ssa.Value) bool { return fieldLoadOf(v, typeFld) }
		tsz := w.MethodObj("storage/access", "TablePage", "GetTupleSize")
		cnt := w.MethodObj("storage/access", "TablePage", "GetTupleCount")
		// truth of "slot occupied" on an edge: comparisons of GetTupleSize(...) with 0
		sizeEdge := func(occupied bool) EdgeCut { // removes the edges on which the slot is occupied (occupied=true) / free
			return func(b *ssa.BasicBlock, succ int) bool {
				i := blockIf(b)
				if i == nil {
					return false
				}
				base, neg := condBase(i.Cond)
				bo, ok := base.(*ssa.BinOp)
				if !ok || (bo.Op != token.EQL && bo.Op != token.NEQ) {
					return false
				}
				isSz := func(x ssa.Value) bool { return IsCallTo(tsz)(stripConv(x)) }
				isZero := func(x ssa.Value) bool {
					cv, ok := constOf(x)
					if !ok {
						return false
					}
					iv, ok := constant.Int64Val(constant.ToInt(cv))
					return ok && iv == 0
				}
				if !((isSz(bo.X) && isZero(bo.Y)) || (isSz(bo.Y) && isZero(bo.X))) {
					return false
				}
				binTrue := (succ == 0) != neg
				occ := binTrue == (bo.Op == token.NEQ)
				return occ == occupied
			}
		}
		// "slot >= count" edges count as "free"
		beyond := func(b *ssa.BasicBlock, succ int) bool {
			i := blockIf(b)
			if i == nil {
				return false
			}
			base, neg := condBase(i.Cond)
			bo, ok := base.(*ssa.BinOp)
			if !ok {
				return false
			}
			isCnt := func(x ssa.Value) bool { return IsCallTo(cnt)(stripConv(x)) }
			var beyondWhenTrue bool
			switch {
			case isCnt(bo.Y) && bo.Op == token.GEQ: // slot >= count
				beyondWhenTrue = true
			case isCnt(bo.Y) && bo.Op == token.LSS: // slot < count
				beyondWhenTrue = false
			case isCnt(bo.X) && bo.Op == token.LEQ: // count <= slot
				beyondWhenTrue = true
			case isCnt(bo.X) && bo.Op == token.GTR: // count > slot
				beyondWhenTrue = false
			default:
				return false
			}
			binTrue := (succ == 0) != neg
			return binTrue == beyondWhenTrue // remove the "beyond the count" edge
		}
		kIns, _ := constant.Int64Val(w.Const("recovery", "INSERT").Val())
		kAD, _ := constant.Int64Val(w.Const("recovery", "APPLYDELETE").Val())
		// INSERT: with "slot occupied" edges removed ApplyDelete is unreachable
		cutsI := []EdgeCut{specCut(subj, kIns), sizeEdge(true)}
		r.Floor("tests of the slot's size in Undo", countCutEdges(undo, []EdgeCut{sizeEdge(true)}), 2)
		wit := (&PathQ{Fn: undo, Cut: cutsI, Target: InstrCallsObj(a.TPApplyDelete)}).FromEntry()
		r.Check(wit == nil, "Undo:INSERT:removed-only-while-present", "the inserted tuple is removed only while its slot still holds it", "ApplyDelete reachable without the test that the slot is occupied (a repeated recovery removes an empty slot: panic): "+w.DescribeWitness(undo, wit))
		// and it is still reachable at all
		wit = (&PathQ{Fn: undo, Cut: []EdgeCut{specCut(subj, kIns)}, Target: InstrCallsObj(a.TPApplyDelete)}).FromEntry()
		r.Check(wit != nil, "Undo:INSERT:still-undone", "an INSERT of a loser is still undone", "ApplyDelete unreachable for INSERT records")
		// APPLYDELETE: with "slot free" and "beyond count" edges removed InsertTuple is unreachable
		cutsD := []EdgeCut{specCut(subj, kAD), sizeEdge(false), beyond}
		wit = (&PathQ{Fn: undo, Cut: cutsD, Target: InstrCallsObj(a.TPInsert)}).FromEntry()
		r.Check(wit == nil, "Undo:APPLYDELETE:restored-only-while-absent", "the removed tuple is put back only while its slot is free", "InsertTuple reachable without the test that the slot is free (a repeated recovery inserts the row a second time): "+w.DescribeWitness(undo, wit))
		wit = (&PathQ{Fn: undo, Cut: []EdgeCut{specCut(subj, kAD)}, Target: InstrCallsObj(a.TPInsert)}).FromEntry()
		r.Check(wit != nil, "Undo:APPLYDELETE:still-undone", "an APPLYDELETE of a loser is still undone", "InsertTuple unreachable for APPLYDELETE records")
		// InsertTuple honours the recorded slot in recovery phase
		ins := w.SSA(a.TPInsert)
		setTuple := w.MethodObj("storage/access", "TablePage", "setTuple")
		getRID := w.MethodObj("storage/tuple", "Tuple", "GetRID")
		n := 0
		EachCall(ins, func(c ssa.CallInstruction) {
			if CalleeObj(c) != setTuple {
				return
			}
			n++
			slot := c.Common().Args[1]
			fromRecord := DependsOn(slot, IsCallTo(getRID))
			r.Check(fromRecord, "TablePage.InsertTuple:recorded-slot-honoured-in-recovery", "in recovery phase the tuple goes back to the slot its log record names (when free)", "slot argument of setTuple at "+w.InstrPos(c)+" never comes from the tuple's recorded RID")
		})
		r.Floor("setTuple sites in InsertTuple (C20-R6)", n, 1)
		recCut := CutWhen(IsCallTo(a.TxnIsRecovery), true) // outside recovery the recorded RID must not steer the slot
		_ = recCut
	})
}

func init() {
	reg("C02-R6", "write-ahead also for the catalog heaps: Catalog.insertTable writes the rows of a new table through ordinary, logged heap inserts of the creating transaction and then flushes the catalog pages itself; with logging on, no path reaches one of those FlushPage calls without LogManager.Flush after the last heap insert — otherwise a crash before the commit leaves catalog rows on the data file that no log record can undo (an uncommitted table, or a table without columns)", func(w *World, r *Report) {
		a := w.A()
		fn := w.Fn("catalog", "Catalog", "insertTable")
		flushes := sitesCalling(fn, a.BPMFlushPage)
		r.Floor("FlushPage sites in Catalog.insertTable", len(flushes), 1)
		inserts := sitesCalling(fn, a.THInsert)
		r.Floor("heap inserts in Catalog.insertTable", len(inserts), 2)
		fs := a.flushSumm()
		wit := (&PathQ{Fn: fn, Cut: []EdgeCut{a.assumeLogging()}, Avoid: fs.MustSite, Target: InstrCallsObj(a.BPMFlushPage)}).FromAfter(inserts)
		r.Check(wit == nil, "Catalog.insertTable:log-forced-before-catalog-pages", "the log records of the catalog rows are on disk before the catalog pages are", "path from a catalog heap insert to FlushPage without LogManager.Flush: "+w.DescribeWitness(fn, wit))
	})
}

// loopExtraExits counts the edges that leave the loop headed by hdr from a block other than hdr (break, return
// inside the body; edges into panicking blocks are not counted).
func loopExtraExits(hdr *ssa.BasicBlock) (n int, where []*ssa.BasicBlock) {
	// natural loop of the back edges into hdr
	body := map[*ssa.BasicBlock]bool{hdr: true}
	var stack []*ssa.BasicBlock
	for _, p := range hdr.Preds {
		if hdr.Dominates(p) && !body[p] {
			body[p] = true
			stack = append(stack, p)
		}
	}
	for len(stack) > 0 {
		x := stack[len(stack)-1]
		stack = stack[:len(stack)-1]
		for _, p := range x.Preds {
			if !body[p] {
				body[p] = true
				stack = append(stack, p)
			}
		}
	}
	for b := range body {
		if b == hdr {
			continue
		}
		for _, s := range b.Succs {
			if body[s] {
				continue
			}
			if len(s.Instrs) > 0 {
				if _, isPanic := s.Instrs[len(s.Instrs)-1].(*ssa.Panic); isPanic {
					continue
				}
			}
			n++
			where = append(where, b)
		}
	}
	return
}

func init() {
	reg("C10-R5", "a table is found again under the name it was stored with: in Catalog.CreateTable the key under which the table is put into tableNames and the name handed to NewTableMetadata (which insertTable persists) are the same value, and that value comes from strings.ToLower, the normalisation GetTableByName applies to every lookup; the catalog reload registers the table under the stored name unchanged", func(w *World, r *Report) {
		ct := w.Fn("catalog", "Catalog", "CreateTable")
		names := w.Field("catalog", "Catalog", "tableNames")
		newMeta := w.FuncObj("catalog", "NewTableMetadata")
		isLower := func(x ssa.Value) bool {
			c, ok := x.(*ssa.Call)
			if !ok {
				return false
			}
			f := c.Call.StaticCallee()
			return f != nil && f.Pkg != nil && f.Pkg.Pkg.Path() == "strings" && f.Name() == "ToLower"
		}
		var key, metaName ssa.Value
		for _, b := range ct.Blocks {
			for _, in := range b.Instrs {
				if mu, ok := in.(*ssa.MapUpdate); ok && fieldLoadOf(mu.Map, names) {
					key = resolveCell(stripConv(mu.Key))
				}
				if c, ok := in.(*ssa.Call); ok && CalleeObj(c) == newMeta {
					metaName = resolveCell(stripConv(c.Call.Args[1]))
				}
			}
		}
		r.Check(key != nil && metaName != nil, "CreateTable:registers-and-builds-metadata", "CreateTable registers the table by name and builds its metadata", "tableNames update or NewTableMetadata call not found")
		if key != nil && metaName != nil {
			r.Check(key == metaName, "CreateTable:stored-name-is-the-lookup-key", "the name stored with the table is the key it is registered under", "the name given to NewTableMetadata at "+w.Pos(metaName.Pos())+" is not the value used as key of tableNames: after a restart the table is registered under the stored name and lookups (lower-cased) miss it")
			r.Check(DependsOn(key, isLower), "CreateTable:name-is-normalised", "the name is lower-cased like every lookup", "the registration key does not come from strings.ToLower")
		}
		// reload: the key is the stored name itself
		rl := w.Fn("catalog", "", "RecoveryCatalogFromCatalogPage")
		toVarchar := w.MethodObj("types", "Value", "ToVarchar")
		n := 0
		for _, b := range rl.Blocks {
			for _, in := range b.Instrs {
				mu, ok := in.(*ssa.MapUpdate)
				if !ok || !strings.Contains(mu.Map.Type().String(), "map[string]") {
					continue
				}
				n++
				r.Check(DependsOn(mu.Key, IsCallTo(toVarchar)), "RecoveryCatalogFromCatalogPage:registered-under-stored-name"+itoaOrd(n), "the reload registers a table under the name read from the catalog row", "key at "+w.InstrPos(in)+" does not come from the stored row")
			}
		}
		r.Floor("name registrations at catalog reload", n, 1)
		// GetTableByName lower-cases
		gt := w.Fn("catalog", "Catalog", "GetTableByName")
		lk := 0
		for _, b := range gt.Blocks {
			for _, in := range b.Instrs {
				if l, ok := in.(*ssa.Lookup); ok && fieldLoadOf(l.X, names) {
					lk++
					r.Check(DependsOn(l.Index, isLower), "GetTableByName:lookup-is-normalised"+itoaOrd(lk), "lookups lower-case the name", "lookup key at "+w.InstrPos(in)+" is not lower-cased")
				}
			}
		}
		r.Floor("tableNames lookups in GetTableByName", lk, 1)
	})

	reg("C10-R6", "the reload reads the whole catalog: in RecoveryCatalogFromCatalogPage the scans of the table catalog and of the columns catalog end only when their iterator is exhausted (no break / return inside the loops) — rows of one table need not be contiguous: freed slots are refilled first", func(w *World, r *Report) {
		rl := w.Fn("catalog", "", "RecoveryCatalogFromCatalogPage")
		end := w.MethodObj("storage/access", "TableHeapIterator", "End")
		n := 0
		for _, b := range rl.Blocks {
			i := blockIf(b)
			if i == nil || !DependsOn(i.Cond, IsCallTo(end)) {
				continue
			}
			if !reachesBlock(b.Succs[0], b) && !reachesBlock(b.Succs[1], b) {
				continue
			}
			n++
			k, where := loopExtraExits(b)
			pos := ""
			if len(where) > 0 {
				pos = w.InstrPos(where[0].Instrs[len(where[0].Instrs)-1])
			}
			r.Check(k == 0, "RecoveryCatalogFromCatalogPage:catalog-scan-runs-to-the-end"+itoaOrd(n), "a scan over a catalog heap ends only at the end of the heap", fmt.Sprintf("%d early exits from the scan loop (e.g. at %s): rows behind that point are ignored", k, pos))
		}
		r.Floor("catalog scan loops at reload", n, 2)
	})
}

// loopHeaders lists the headers of the natural loops of fn (targets of back edges).
func loopHeaders(fn *ssa.Function) []*ssa.BasicBlock {
	var out []*ssa.BasicBlock
	for _, b := range fn.Blocks {
		for _, p := range b.Preds {
			if b.Dominates(p) {
				out = append(out, b)
				break
			}
		}
	}
	return out
}

func init() {
	reg("C03-R7", "loops that must deal with every element have no early exit: the write-set loops of TransactionManager.Commit and Abort, the loser loop of LogRecovery.Undo, the row loop of LockManager.Unlock, the column loop of Catalog.insertTable and the table / index / row loops of the index reconstruction are left only through their own loop condition (a `break` or `return` inside would leave part of a transaction not rolled back, not released, not persisted or not indexed); exits into a panic do not count", func(w *World, r *Report) {
		a := w.A()
		type ent struct {
			fn   *ssa.Function
			name string
			// allowed extra exits (by reason) — none on the reference tree
		}
		ents := []ent{
			{w.SSA(a.TMCommit), "TransactionManager.Commit"},
			{w.SSA(a.TMAbort), "TransactionManager.Abort"},
			{w.Fn("recovery/log_recovery", "LogRecovery", "Undo"), "LogRecovery.Undo"},
			{w.SSA(a.LMUnlock), "LockManager.Unlock"},
			{w.Fn("catalog", "Catalog", "insertTable"), "Catalog.insertTable"},
			{w.Fn("samehada", "", "ReconstructAllIndexData"), "ReconstructAllIndexData"},
			{w.Fn("samehada", "", "ReconstructNotKeptIndexData"), "ReconstructNotKeptIndexData"},
			{w.Fn("samehada", "", "reconstructIndexDataOfATbl"), "reconstructIndexDataOfATbl"},
		}
		total := 0
		for _, e := range ents {
			hs := loopHeaders(e.fn)
			total += len(hs)
			bad := 0
			var pos []string
			for _, h := range hs {
				k, where := loopExtraExits(h)
				bad += k
				for _, b := range where {
					pos = append(pos, w.InstrPos(b.Instrs[len(b.Instrs)-1]))
				}
			}
			r.Check(bad == 0 && len(hs) > 0, e.name+":loops-run-to-completion", "every loop of "+e.name+" ends through its own condition only", fmt.Sprintf("%d loops, %d early exits (at %s)", len(hs), bad, strings.Join(pos, ", ")))
		}
		r.Floor("loops examined", total, 10)
	})
}

func init() {
	reg("C07-R8", "floating-point keys that compare equal get the same index key: the order-preserving byte encoding of a Float (encodeToDicOrderComparableBytes) does not work from the raw bit pattern alone — 0.0 and -0.0 are equal for Value.CompareEquals and for a sequential scan but differ in the sign bit — so the value passes through at least one floating-point operation (a comparison the sign branch depends on, or arithmetic that normalises the zero) or the negative-zero pattern is compared explicitly", func(w *World, r *Report) {
		enc := w.Fn("samehada/samehada_util", "", "encodeToDicOrderComparableBytes")
		isFloat := func(t types.Type) bool {
			b, ok := t.Underlying().(*types.Basic)
			return ok && b.Info()&types.IsFloat != 0
		}
		floatOp := func(v ssa.Value) bool {
			bo, ok := v.(*ssa.BinOp)
			if !ok || !isFloat(bo.X.Type()) {
				return false
			}
			switch bo.Op {
			case token.EQL, token.NEQ, token.LSS, token.LEQ, token.GTR, token.GEQ:
				// a comparison tells the two zeros apart from the rest only when it is against zero (`f == f` does not)
				for _, o := range []ssa.Value{bo.X, bo.Y} {
					if c, ok := o.(*ssa.Const); ok && c.Value != nil && constant.Sign(c.Value) == 0 {
						return true
					}
				}
				return false
			}
			return true
		}
		negZero := func(v ssa.Value) bool {
			bo, ok := v.(*ssa.BinOp)
			if !ok || (bo.Op != token.EQL && bo.Op != token.NEQ) {
				return false
			}
			for _, o := range []ssa.Value{bo.X, bo.Y} {
				if c, ok := o.(*ssa.Const); ok && c.Value != nil && c.Value.Kind() == constant.Int {
					if u, ok := constant.Uint64Val(c.Value); ok && (u == 0x80000000 || u == 0x8000000000000000) {
						return true
					}
				}
			}
			return false
		}
		n := 0
		EachCall(enc, func(c ssa.CallInstruction) {
			f := c.Common().StaticCallee()
			if f == nil || f.Pkg == nil || f.Pkg.Pkg.Path() != "math" || (f.Name() != "Float32bits" && f.Name() != "Float64bits") {
				return
			}
			n++
			ok := DependsOn(c.Common().Args[0], floatOp)
			// a branch of the encoder that is decided by a float comparison / the -0 pattern
			for _, b := range enc.Blocks {
				if iff, isIf := b.Instrs[len(b.Instrs)-1].(*ssa.If); isIf && (DependsOn(iff.Cond, floatOp) || DependsOn(iff.Cond, negZero)) {
					ok = true
				}
			}
			r.Check(ok, "encodeToDicOrderComparableBytes:float-key-not-from-bits-alone"+ordinalIn(enc, c.(ssa.Instruction), CalleeObj(c)), "equal floats (0.0 and -0.0) get the same key", "the key of a Float is computed from math."+f.Name()+" at "+w.InstrPos(c.(ssa.Instruction))+" with integer operations only: 0.0 and -0.0 (equal for the executors) are filed under different index keys, so an index lookup of zero misses rows a scan returns")
		})
		r.Floor("float-to-bits conversions in the key encoder", n, 1)
	})
	prop("C07", "C07-R8")
	prop("C17", "C07-R8")
}

func init() {
	reg("C17-R7", "copies of the hash table's probe cursor are not used stale: in every function of container/hash that advances a hashTableIterator with next(), a value read from a cursor field (blockPage, offset, bucket, blockID) — or a loop variable that merges such reads — is not used after a later next() unless it was read again in between: the cursor may have moved to another block page, and a probe that keeps inspecting the old page misses every entry placed past the page end", func(w *World, r *Report) {
		itT := w.Named("container/hash", "hashTableIterator")
		next := w.MethodObj("container/hash", "hashTableIterator", "next")
		isCursorLoad := func(v ssa.Value) bool {
			u, ok := v.(*ssa.UnOp)
			if !ok || u.Op != token.MUL {
				return false
			}
			fa, ok := u.X.(*ssa.FieldAddr)
			if !ok {
				return false
			}
			pt, ok := fa.X.Type().Underlying().(*types.Pointer)
			return ok && types.Identical(pt.Elem(), itT)
		}
		// a definition is a cursor load or a phi all of whose leaves are cursor loads
		var isDef func(v ssa.Value, seen map[ssa.Value]bool) bool
		isDef = func(v ssa.Value, seen map[ssa.Value]bool) bool {
			if isCursorLoad(v) {
				return true
			}
			ph, ok := v.(*ssa.Phi)
			if !ok {
				return false
			}
			if seen[v] {
				return true
			}
			seen[v] = true
			for _, e := range ph.Edges {
				if !isDef(e, seen) {
					return false
				}
			}
			return true
		}
		nFn, nUse := 0, 0
		for _, fn := range w.RepoFuncs {
			if w.IsTestFunc(fn) || fn.Pkg == nil || fn.Pkg.Pkg.Path() != libMod+"/container/hash" {
				continue
			}
			nexts := sitesCalling(fn, next)
			if len(nexts) == 0 {
				continue
			}
			nFn++
			fails := map[string][]string{}
			for _, b := range fn.Blocks {
				for _, in := range b.Instrs {
					d, ok := in.(ssa.Value)
					if !ok || !isDef(d, map[ssa.Value]bool{}) {
						continue
					}
					refs := d.Referrers()
					if refs == nil {
						continue
					}
					name := ""
					if ph, ok := d.(*ssa.Phi); ok {
						name = "var " + ph.Comment
					} else {
						fa := d.(*ssa.UnOp).X.(*ssa.FieldAddr)
						sst, _ := derefStruct(fa.X.Type())
						name = "field " + sst.Field(fa.Field).Name()
					}
					key := funcKey(fn) + ":cursor-copy-fresh:" + name
					if _, ok := fails[key]; !ok {
						fails[key] = nil
					}
					isD := func(x ssa.Instruction) bool { return x == in }
					// next() calls reachable from the definition without re-executing it
					var after []ssa.Instruction
					for _, n := range nexts {
						n := n
						if (&PathQ{Fn: fn, Avoid: isD, Target: func(x ssa.Instruction) bool { return x == n }}).FromAfter([]ssa.Instruction{in}) != nil {
							after = append(after, n)
						}
					}
					for _, u := range *refs {
						if _, isPhi := u.(*ssa.Phi); isPhi {
							continue // the merge is a definition of its own
						}
						nUse++
						if len(after) == 0 {
							continue
						}
						u := u
						if wit := (&PathQ{Fn: fn, Avoid: isD, Target: func(x ssa.Instruction) bool { return x == u }}).FromAfter(after); wit != nil {
							fails[key] = append(fails[key], "the value read at "+w.InstrPos(in)+" is used at "+w.InstrPos(u)+" after the cursor advanced at "+w.InstrPos(wit.Start)+" without being read again")
						}
					}
				}
			}
			for _, key := range sortedKeysOf(fails) {
				r.Check(len(fails[key]) == 0, key, "a cursor field read before next() is not used after it", strings.Join(uniq(fails[key]), "; "))
			}
		}
		r.Floor("functions advancing a hash probe cursor", nFn, 3)
		r.Floor("uses of cursor copies examined", nUse, 20)
	})
	prop("C17", "C17-R7")
	prop("C07", "C17-R7")
}

func sortedKeysOf(m map[string][]string) []string {
	var ks []string
	for k := range m {
		ks = append(ks, k)
	}
	sort.Strings(ks)
	return ks
}

func init() {
	reg("C15-R8", "the space check measures the row that is written, and room is made before it is used: in TablePage.UpdateTuple and InsertTuple every Tuple.Size() that a branch on getFreeSpaceRemaining() depends on is taken from the very tuple whose bytes go into the page (for a column-list UPDATE the merged row, not the caller's list of new values); in UpdateTuple the rows below are shifted (copy within the page) before the new image is copied in — a growing image starts inside the old place of the row below", func(w *World, r *Report) {
		a := w.A()
		free := w.MethodObj("storage/access", "TablePage", "getFreeSpaceRemaining")
		tSize := w.MethodObj("storage/tuple", "Tuple", "Size")
		tData := w.MethodObj("storage/tuple", "Tuple", "Data")
		setTuple := w.MethodObj("storage/access", "TablePage", "setTuple")
		isCopy := func(in ssa.Instruction) (*ssa.Call, bool) {
			c, ok := in.(*ssa.Call)
			if !ok {
				return nil, false
			}
			bi, ok := c.Call.Value.(*ssa.Builtin)
			return c, ok && bi.Name() == "copy" && len(c.Call.Args) == 2
		}
		recvOf := func(v ssa.Value) ssa.Value { return resolveCell(stripConv(v)) }
		measured := func(fn *ssa.Function, written ssa.Value, label string) {
			n := 0
			for _, b := range fn.Blocks {
				i := blockIf(b)
				if i == nil || !DependsOn(i.Cond, IsCallTo(free)) {
					continue
				}
				n++
				var other []string
				own := false
				for v := range BackSlice(i.Cond).Vals {
					c, ok := v.(*ssa.Call)
					if !ok || CalleeObj(c) != tSize {
						continue
					}
					if recvOf(c.Call.Args[0]) == written {
						own = true
					} else {
						other = append(other, w.InstrPos(c))
					}
				}
				sort.Strings(other)
				r.Check(own && len(other) == 0, label+":space-check-measures-written-tuple"+ordinalOfBlock(fn, b, func(bb *ssa.BasicBlock) bool {
					ii := blockIf(bb)
					return ii != nil && DependsOn(ii.Cond, IsCallTo(free))
				}), "the free-space test uses the size of the tuple that is written", fmt.Sprintf("branch at %s: uses the written tuple's size: %v; sizes of other tuples: %v", w.InstrPos(i), own, other))
			}
			r.Floor("branches on getFreeSpaceRemaining() in "+label, n, 1)
		}
		// UpdateTuple: the image copy and the shift
		upd := w.SSA(a.TPUpdate)
		var images, shifts []ssa.Instruction
		var written ssa.Value
		for _, b := range upd.Blocks {
			for _, in := range b.Instrs {
				c, ok := isCopy(in)
				if !ok || !DependsOn(c.Call.Args[0], a.isPageDataSource) {
					continue
				}
				if DependsOn(c.Call.Args[1], a.isPageDataSource) {
					shifts = append(shifts, in)
					continue
				}
				for v := range BackSlice(c.Call.Args[1]).Vals {
					if d, ok := v.(*ssa.Call); ok && CalleeObj(d) == tData {
						images = append(images, in)
						written = recvOf(d.Call.Args[0])
					}
				}
			}
		}
		r.Check(len(images) == 1 && len(shifts) >= 1 && written != nil, "UpdateTuple:image-copy-and-shift-found", "UpdateTuple copies one new image into the page and shifts the rows below", fmt.Sprintf("image copies: %d, shifts: %d", len(images), len(shifts)))
		if len(images) == 1 && written != nil {
			measured(upd, written, "UpdateTuple")
			isShift := func(x ssa.Instruction) bool {
				for _, s := range shifts {
					if s == x {
						return true
					}
				}
				return false
			}
			wit := (&PathQ{Fn: upd, Avoid: isShift, Target: func(x ssa.Instruction) bool { return x == images[0] }}).FromEntry()
			r.Check(wit == nil, "UpdateTuple:shift-before-image", "the rows below are moved out of the way before the new image is written", "the new image is copied in at "+w.InstrPos(images[0])+" on a path that has not yet shifted the tuple area: a growing row overwrites the tail of its lower neighbour, which the shift then carries along")
		}
		ins := w.SSA(a.TPInsert)
		var wIns ssa.Value
		EachCall(ins, func(c ssa.CallInstruction) {
			if CalleeObj(c) == setTuple {
				wIns = recvOf(c.Common().Args[2])
			}
		})
		r.Check(wIns != nil, "InsertTuple:setTuple-found", "InsertTuple writes through setTuple", "no setTuple call")
		if wIns != nil {
			measured(ins, wIns, "InsertTuple")
		}
	})
	prop("C15", "C15-R8")
}

func ordinalOfBlock(fn *ssa.Function, b *ssa.BasicBlock, pred func(*ssa.BasicBlock) bool) string {
	n := 0
	for _, x := range fn.Blocks {
		if pred(x) {
			n++
			if x == b {
				return "#" + itoa(n)
			}
		}
	}
	return ""
}

func init() {
	reg("C02-R7", "recovery reads every log record whole: each buffer log recovery hands to DiskManager.ReadLog is the recovery log buffer itself (the field, directly, through a parameter of a private helper, or a tail slice of it) — never a slice of it cut to a constant length: an UPDATE record carries two row images and is longer than a page, and a record that does not fit is not deserialised, so undo steps over it", func(w *World, r *Report) {
		readLog := w.family(w.MethodObj("storage/disk", "DiskManager", "ReadLog"))
		bufFld := w.Field("recovery/log_recovery", "LogRecovery", "logBuffer")
		n := 0
		var judge func(v ssa.Value, depth int) string
		judge = func(v ssa.Value, depth int) string {
			v = resolveCell(stripConv(v))
			switch x := v.(type) {
			case *ssa.UnOp:
				if fa, ok := x.X.(*ssa.FieldAddr); ok {
					if sst, ok := derefStruct(fa.X.Type()); ok && sst.Field(fa.Field) == bufFld {
						return ""
					}
				}
			case *ssa.Slice:
				if x.High != nil {
					if c, ok := x.High.(*ssa.Const); ok {
						return "cut to the constant length " + c.Value.String() + " at " + w.Pos(x.Pos())
					}
					if c, ok := stripConv(x.High).(*ssa.Const); ok {
						return "cut to the constant length " + c.Value.String() + " at " + w.Pos(x.Pos())
					}
					return "cut to a computed length at " + w.Pos(x.Pos()) + " (not decided)"
				}
				return judge(x.X, depth)
			case *ssa.Phi:
				for _, e := range x.Edges {
					if s := judge(e, depth); s != "" {
						return s
					}
				}
				return ""
			case *ssa.Parameter:
				if depth >= 2 {
					break
				}
				fn := x.Parent()
				idx := -1
				for i, p := range fn.Params {
					if p == x {
						idx = i
					}
				}
				cs := w.Callers(fn)
				if idx < 0 || len(cs) == 0 || token.IsExported(fn.Name()) {
					break
				}
				for _, c := range cs {
					if w.IsTestFunc(topFunc(c.Caller)) {
						continue
					}
					args := c.Instr.Common().Args
					if idx < len(args) {
						if s := judge(args[idx], depth+1); s != "" {
							return s
						}
					}
				}
				return ""
			}
			return "not the recovery log buffer: " + v.String()
		}
		for _, fn := range w.RepoFuncs {
			if w.IsTestFunc(fn) || fn.Pkg == nil || fn.Pkg.Pkg.Path() != libMod+"/recovery/log_recovery" {
				continue
			}
			EachCall(fn, func(c ssa.CallInstruction) {
				if !readLog[CalleeObj(c)] {
					return
				}
				n++
				args := c.Common().Args
				if !c.Common().IsInvoke() {
					args = args[1:]
				}
				s := judge(args[0], 0)
				r.Check(s == "", funcKey(fn)+":ReadLog-gets-the-whole-buffer"+ordinalAmong(fn, c.(ssa.Instruction), func(x ssa.CallInstruction) bool { return readLog[CalleeObj(x)] }), "the read buffer can hold the longest record", "ReadLog at "+w.InstrPos(c.(ssa.Instruction))+": buffer "+s)
			})
		}
		r.Floor("ReadLog call sites in log recovery", n, 2)
	})
	prop("C02", "C02-R7")
	prop("C01", "C02-R7")
	prop("C20", "C02-R7")

	reg("C02-R8", "before-images are taken before the page changes: in every TablePage method, bytes copied out of the page (copy with page bytes as source and something else as destination — the old row handed back or put on the log record) are copied on paths that have not yet written the page: after the tuple area was shifted the same offsets hold the neighbour's bytes, and undo of that record re-inserts them", func(w *World, r *Report) {
		a := w.A()
		pw := a.pageWriteSumm()
		n := 0
		for _, fn := range w.methodsOf("storage/access", "TablePage") {
			var outs []ssa.Instruction
			for _, b := range fn.Blocks {
				for _, in := range b.Instrs {
					c, ok := in.(*ssa.Call)
					if !ok {
						continue
					}
					if bi, ok := c.Call.Value.(*ssa.Builtin); ok && bi.Name() == "copy" && len(c.Call.Args) == 2 &&
						DependsOn(c.Call.Args[1], a.isPageDataSource) && !DependsOn(c.Call.Args[0], a.isPageDataSource) {
						outs = append(outs, in)
					}
				}
			}
			if len(outs) == 0 {
				continue
			}
			n++
			isOut := func(x ssa.Instruction) bool {
				for _, o := range outs {
					if o == x {
						return true
					}
				}
				return false
			}
			var writes []ssa.Instruction
			for _, b := range fn.Blocks {
				for _, in := range b.Instrs {
					if c, ok := in.(ssa.CallInstruction); ok && CalleeObj(c) == a.PageSetLSN {
						continue
					}
					if _, isDefer := in.(*ssa.Defer); isDefer {
						continue
					}
					if pw.MaySite(in) && !isOut(in) {
						writes = append(writes, in)
					}
				}
			}
			var wit *Witness
			if len(writes) > 0 {
				wit = (&PathQ{Fn: fn, Target: isOut}).FromAfter(writes)
			}
			detail := ""
			if wit != nil {
				detail = "bytes are copied out of the page at " + w.InstrPos(wit.Target) + " after the page was written at " + w.InstrPos(wit.Start)
			}
			r.Check(wit == nil, "TablePage."+fn.Name()+":copy-out-before-page-write", "row images are read before the page is modified", detail)
		}
		r.Floor("TablePage methods copying bytes out of the page", n, 3)
	})
	prop("C02", "C02-R8")
	prop("C03", "C02-R8")
	prop("C15", "C02-R8")
}

func ordinalAmong(fn *ssa.Function, in ssa.Instruction, pred func(ssa.CallInstruction) bool) string {
	var poss []token.Pos
	EachCall(fn, func(c ssa.CallInstruction) {
		if pred(c) {
			poss = append(poss, c.Pos())
		}
	})
	sort.Slice(poss, func(i, j int) bool { return poss[i] < poss[j] })
	for i, p := range poss {
		if p == in.Pos() {
			return "#" + itoa(i+1)
		}
	}
	return ""
}

func init() {
	reg("C11-R8", "a hash join's temporary page never writes over its own header: TmpTuplePage.Insert lowers the free-space pointer only on the side of a comparison that, as linear forms over (free-space pointer, tuple size), bounds the new pointer from below by the end of the last header field (offset of the free-space-pointer field + its width, both read from SetFreeSpacePointer): an entry that ends inside the header overwrites the pointer, its TmpTuple records a garbage offset and the row vanishes from the join", func(w *World, r *Report) {
		pkg := "materialization"
		ins := w.Fn(pkg, "TmpTuplePage", "Insert")
		setFSP := w.MethodObj(pkg, "TmpTuplePage", "SetFreeSpacePointer")
		getFSP := w.MethodObj(pkg, "TmpTuplePage", "GetFreeSpacePointer")
		pure := map[*types.Func]bool{getFSP: true, w.MethodObj("storage/tuple", "Tuple", "Size"): true}
		a := w.A()
		// header end
		sfn := w.SSA(setFSP)
		headerEnd := int64(-1)
		for _, b := range sfn.Blocks {
			for _, in := range b.Instrs {
				sl, ok := in.(*ssa.Slice)
				if !ok || sl.Low == nil || !DependsOn(sl.X, a.isPageDataSource) {
					continue
				}
				f := linForm(sl.Low, nil, 0)
				if len(f.Sub(LinForm{}).T) == 0 {
					wd := types.SizesFor("gc", "amd64").Sizeof(sfn.Params[1].Type())
					if f.C+wd > headerEnd {
						headerEnd = f.C + wd
					}
				}
			}
		}
		r.Check(headerEnd > 0, "TmpTuplePage.SetFreeSpacePointer:field-position-found", "the free-space-pointer field has a constant position", "no constant-offset slice of the page bytes in SetFreeSpacePointer")
		if headerEnd <= 0 {
			return
		}
		sites := sitesCalling(ins, setFSP)
		r.Floor("SetFreeSpacePointer sites in TmpTuplePage.Insert", len(sites), 1)
		flip := map[token.Token]token.Token{token.LSS: token.GTR, token.LEQ: token.GEQ, token.GTR: token.LSS, token.GEQ: token.LEQ}
		for _, s := range sites {
			c := s.(*ssa.Call)
			newFSP := linForm(c.Call.Args[1], pure, 0)
			want := newFSP.Sub(LinForm{headerEnd, map[string]int64{}}) // must be >= 0
			ok := false
			why := "no dominating ordered comparison bounds the new free-space pointer"
			for d, child := s.Block().Idom(), s.Block(); d != nil && !ok; child, d = d, d.Idom() {
				i := blockIf(d)
				if i == nil {
					continue
				}
				base, neg := condBase(i.Cond)
				bo, isBin := base.(*ssa.BinOp)
				if !isBin || flip[bo.Op] == 0 {
					continue
				}
				onTrue := d.Succs[0] == child || (d.Succs[0].Dominates(child) && len(d.Succs[0].Preds) == 1)
				onFalse := d.Succs[1] == child || (d.Succs[1].Dominates(child) && len(d.Succs[1].Preds) == 1)
				if onTrue == onFalse {
					continue
				}
				holds := onTrue != neg // the comparison itself is true on the way to the write
				x, y, op := linForm(bo.X, pure, 0), linForm(bo.Y, pure, 0), bo.Op
				if !holds { // negate: !(x < y) == x >= y
					op = map[token.Token]token.Token{token.LSS: token.GEQ, token.LEQ: token.GTR, token.GTR: token.LEQ, token.GEQ: token.LSS}[op]
				}
				// bring to  e >= m
				var e LinForm
				m := int64(0)
				switch op {
				case token.GEQ:
					e = x.Sub(y)
				case token.GTR:
					e, m = x.Sub(y), 1
				case token.LEQ:
					e = y.Sub(x)
				case token.LSS:
					e, m = y.Sub(x), 1
				}
				slack := want.Sub(e.Sub(LinForm{m, map[string]int64{}}))
				if len(slack.Sub(LinForm{}).T) != 0 {
					why = fmt.Sprintf("the comparison at %s bounds [%s], the new pointer minus the header end is [%s]: not comparable", w.InstrPos(i), e, want)
					continue
				}
				if slack.C >= 0 {
					ok = true
				} else {
					why = fmt.Sprintf("the comparison at %s lets the new free-space pointer come down to %d bytes below the end of the header (%d)", w.InstrPos(i), -slack.C, headerEnd)
				}
			}
			r.Check(ok, "TmpTuplePage.Insert:new-pointer-stays-behind-the-header"+ordinalIn(ins, s, setFSP), "the entry is stored behind the page header", why)
		}
	})
	prop("C11", "C11-R8")
}

func init() {
	reg("C11-R9", "a join that applies fewer cross conditions than the WHERE clause has is never a candidate on its own: findBestJoinInner is evaluated for concrete counts (E equalities among R collected cross conditions; every comparison among len(equals), len(relatedExp) and constants resolved): with E=1, R=2 (a key plus one more condition) and with E=0, R=1 the path that keeps the bare join beside its Selection-wrapped copy is unreachable; with E=2, R=2 it is reachable only if the key lists given to the join constructors are built from the whole equals slice (a join on the first key alone returns the rows the other equalities exclude)", func(w *World, r *Report) {
		fn := w.Fn("planner/optimizer", "SelingerOptimizer", "findBestJoinInner")
		elemIs := func(t types.Type, suffix string) bool {
			sl, ok := t.Underlying().(*types.Slice)
			return ok && strings.Contains(sl.Elem().String(), suffix)
		}
		isEquals := func(t types.Type) bool { return elemIs(t, "pair.Pair[") }
		isRelated := func(t types.Type) bool { return elemIs(t, "parser.BinaryOpExpression") }
		E, R := int64(0), int64(0)
		val := func(v ssa.Value) (int64, bool) {
			v = resolveCell(stripConv(v))
			if cv, ok := constOf(v); ok && cv.Kind() == constant.Int {
				i, ok := constant.Int64Val(cv)
				return i, ok
			}
			if c, ok := v.(*ssa.Call); ok {
				if bi, ok := c.Call.Value.(*ssa.Builtin); ok && bi.Name() == "len" {
					switch {
					case isEquals(c.Call.Args[0].Type()):
						return E, true
					case isRelated(c.Call.Args[0].Type()):
						// only the count taken before the list is re-sliced: the first len() in block order that reaches a comparison
						if sl, isSlice := resolveCell(stripConv(c.Call.Args[0])).(*ssa.Slice); !isSlice || sl == nil {
							return R, true
						}
					}
				}
			}
			return 0, false
		}
		nRes := 0
		scen := func(b *ssa.BasicBlock, succ int) bool {
			i := blockIf(b)
			if i == nil {
				return false
			}
			base, neg := condBase(i.Cond)
			bo, ok := base.(*ssa.BinOp)
			if !ok {
				return false
			}
			x, ok1 := val(bo.X)
			y, ok2 := val(bo.Y)
			if !ok1 || !ok2 {
				return false
			}
			var t bool
			switch bo.Op {
			case token.EQL:
				t = x == y
			case token.NEQ:
				t = x != y
			case token.LSS:
				t = x < y
			case token.LEQ:
				t = x <= y
			case token.GTR:
				t = x > y
			case token.GEQ:
				t = x >= y
			default:
				return false
			}
			nRes++
			if t != neg {
				return succ == 1
			}
			return succ == 0
		}
		isJoinCtor := func(in ssa.Instruction) bool {
			c, ok := in.(*ssa.Call)
			if !ok {
				return false
			}
			f := c.Call.StaticCallee()
			return f != nil && (f.Name() == "NewHashJoinPlanNodeWithChilds" || f.Name() == "NewIndexJoinPlanNode")
		}
		selCtor := w.FuncObj("execution/plans", "NewSelectionPlanNode")
		// "the bare plan stays": a Selection-wrapped copy is appended (not stored over the candidate)
		isKeepBare := func(in ssa.Instruction) bool {
			c, ok := in.(*ssa.Call)
			if !ok {
				return false
			}
			bi, ok := c.Call.Value.(*ssa.Builtin)
			if !ok || bi.Name() != "append" || len(c.Call.Args) < 2 {
				return false
			}
			return DependsOn(c.Call.Args[1], IsCallTo(selCtor))
		}
		nKeep, nCtor := 0, 0
		for _, b := range fn.Blocks {
			for _, in := range b.Instrs {
				if isKeepBare(in) {
					nKeep++
				}
				if isJoinCtor(in) {
					nCtor++
				}
			}
		}
		r.Floor("sites that append a Selection-wrapped copy of a candidate", nKeep, 1)
		r.Floor("join plan constructors in findBestJoinInner", nCtor, 2)
		// whole-slice keys: no sub-slice of equals anywhere in the function
		subSliced := ""
		for _, b := range fn.Blocks {
			for _, in := range b.Instrs {
				if sl, ok := in.(*ssa.Slice); ok && isEquals(sl.X.Type()) && (sl.High != nil || sl.Low != nil) {
					subSliced = w.InstrPos(in)
				}
			}
		}
		for _, sc := range []struct {
			e, r int64
			tag  string
		}{{1, 2, "one key and one more condition"}, {0, 1, "one non-equality condition"}, {2, 2, "two equalities"}, {2, 3, "two equalities and one more condition"}} {
			E, R = sc.e, sc.r
			nRes = 0
			keep := (&PathQ{Fn: fn, Cut: []EdgeCut{scen}, Avoid: func(in ssa.Instruction) bool { return false }, Target: isKeepBare}).FromEntry()
			ctor := (&PathQ{Fn: fn, Cut: []EdgeCut{scen}, Target: isJoinCtor}).FromEntry()
			key := fmt.Sprintf("findBestJoinInner:bare-join-not-a-candidate[E=%d,R=%d]", sc.e, sc.r)
			switch {
			case keep == nil:
				r.Check(true, key, "with "+sc.tag+" every candidate is wrapped in the Selection", "")
			case ctor == nil || sc.e == 0:
				// only the nested-loop join exists here (it applies no predicate at all): with the plan type assumed NestedLoopJoin it is never kept bare
				nljV, _ := constant.Int64Val(w.Const("execution/plans", "NestedLoopJoin").Val())
				getType := func(v ssa.Value) bool {
					c, ok := v.(*ssa.Call)
					return ok && c.Call.IsInvoke() && c.Call.Method.Name() == "GetType"
				}
				wit := (&PathQ{Fn: fn, Cut: []EdgeCut{scen, specCut(getType, nljV)}, Target: isKeepBare}).FromEntry()
				r.Check(wit == nil && ctor == nil, key, "with "+sc.tag+" the only candidate is the nested-loop join and it is always wrapped in the Selection", "a bare nested-loop join (a cross product) stays a candidate beside its filtered copy; both have the same cost: "+w.DescribeWitness(fn, wit))
			case sc.r > sc.e:
				r.Check(false, key, "with "+sc.tag+" every candidate is wrapped in the Selection", "with "+sc.tag+" a key join is built and also kept without the Selection above it: the remaining condition is applied nowhere: "+w.DescribeWitness(fn, keep))
			default:
				r.Check(subSliced == "", key, "with "+sc.tag+" a bare key join applies all the equalities", "a key join is built and kept without the Selection, but its keys come from a part of the equalities only (equals is re-sliced at "+subSliced+")")
			}
		}
	})
	prop("C11", "C11-R9")
}

// structKey names a value by the access path that produced it (field of field of parameter ...), so that two reads of
// `item.rid2` compare equal although they are different SSA registers.
func structKey(v ssa.Value, depth int) string {
	v = stripConv(resolveCell(stripConv(v)))
	if depth > 12 {
		return v.Name()
	}
	switch x := v.(type) {
	case *ssa.FieldAddr:
		if st, ok := derefStruct(x.X.Type()); ok {
			return structKey(x.X, depth+1) + "." + st.Field(x.Field).Name()
		}
	case *ssa.Field:
		if st, ok := x.X.Type().Underlying().(*types.Struct); ok {
			return structKey(x.X, depth+1) + "." + st.Field(x.Field).Name()
		}
	case *ssa.UnOp:
		if x.Op == token.MUL {
			return "*" + structKey(x.X, depth+1)
		}
	case *ssa.IndexAddr:
		return structKey(x.X, depth+1) + "[" + structKey(x.Index, depth+1) + "]"
	}
	return v.Name()
}

func init() {
	reg("C03-R8", "a row operation runs on the page its RID names: wherever a TablePage row method (GetTuple, UpdateTuple, MarkDelete, ApplyDelete, RollbackDelete) is called on a page that the same function fetched from the pool, the page id given to FetchPage is GetPageID() of the very RID handed to the method (same access path) — the rollback of a relocated UPDATE that fetches the old page and deletes the new RID's slot number there removes an unrelated committed row", func(w *World, r *Report) {
		a := w.A()
		ops := map[*types.Func]bool{a.TPGetTuple: true, a.TPUpdate: true, a.TPMarkDelete: true, a.TPApplyDelete: true, a.TPRollbackDelete: true}
		getPID := w.MethodObj("storage/page", "RID", "GetPageID")
		nSites, nFetched := 0, 0
		for _, fn := range w.RepoFuncs {
			if w.IsTestFunc(fn) {
				continue
			}
			fails := map[string][]string{}
			EachCall(fn, func(c ssa.CallInstruction) {
				o := CalleeObj(c)
				if o == nil || !ops[o] || c.Common().IsInvoke() {
					return
				}
				nSites++
				sig := o.Type().(*types.Signature)
				ridIdx := -1
				for i := 0; i < sig.Params().Len(); i++ {
					if p, ok := sig.Params().At(i).Type().(*types.Pointer); ok && strings.HasSuffix(p.Elem().String(), "page.RID") {
						ridIdx = i + 1
						break
					}
				}
				if ridIdx < 0 {
					return
				}
				args := c.Common().Args
				ridKey := structKey(args[ridIdx], 0)
				var fetches []*ssa.Call
				for v := range BackSlice(args[0]).Vals {
					if f, ok := v.(*ssa.Call); ok && CalleeObj(f) == a.BPMFetch {
						fetches = append(fetches, f)
					}
				}
				if len(fetches) == 0 {
					return // the page was handed in by the caller
				}
				if DependsOn(args[ridIdx], func(x ssa.Value) bool { f, ok := x.(*ssa.Call); return ok && CalleeObj(f) == a.BPMFetch }) {
					return // the RID was produced by the fetched page itself (scan cursor): it names that page by construction
				}
				nFetched++
				key := funcKey(fn) + ":page-of-the-rid:" + o.Name()
				if _, ok := fails[key]; !ok {
					fails[key] = nil
				}
				for _, f := range fetches {
					matched, any := false, false
					for v := range BackSlice(f.Call.Args[1]).Vals {
						g, ok := v.(*ssa.Call)
						if !ok || CalleeObj(g) != getPID {
							continue
						}
						any = true
						rk := structKey(g.Call.Args[0], 0)
						if rk == ridKey || rk == "*"+ridKey || "*"+rk == ridKey {
							matched = true
						}
					}
					if any && !matched {
						fails[key] = append(fails[key], o.Name()+" at "+w.InstrPos(c.(ssa.Instruction))+" works on RID "+ridKey+" but on the page fetched at "+w.InstrPos(f)+" with the page id of another RID")
					}
				}
			})
			for _, key := range sortedKeysOf(fails) {
				r.Check(len(fails[key]) == 0, key, "the page fetched is the page of the RID operated on", strings.Join(uniq(fails[key]), "; "))
			}
		}
		r.Floor("row-method call sites examined", nSites, 15)
		r.Floor("of these, on a page fetched in the same function", nFetched, 8)
	})
	prop("C03", "C03-R8")
	prop("C12", "C03-R8")
	prop("C02", "C03-R8")
	prop("C01", "C03-R8")
}

func init() {
	reg("C03-R9", "recovery re-applies an UPDATE record whatever its direction: TablePage.UpdateTuple refuses an update that makes the row shorter unless it is marked as rollback/undo (a forward update is relocated instead, so that its rollback always has room) — the rollback of a growing update logs exactly such a shrinking UPDATE record, so every UpdateTuple call of LogRecovery.Redo and Undo passes the constant true for isRollbackOrUndo; with false the compensation is skipped, the page is stamped, and the aborted value is back after the crash", func(w *World, r *Report) {
		a := w.A()
		n := 0
		for _, name := range []string{"Redo", "Undo"} {
			fn := w.Fn("recovery/log_recovery", "LogRecovery", name)
			for _, f := range w.FuncAndHelpers(fn) {
				for _, s := range sitesCalling(f, a.TPUpdate) {
					n++
					args := s.(ssa.CallInstruction).Common().Args
					cv, isConst := constOf(args[len(args)-1])
					r.Check(isConst && cv.Kind() == constant.Bool && constant.BoolVal(cv), name+":update-record-applied-in-both-directions"+ordinalIn(f, s, a.TPUpdate), "recovery applies UPDATE records as rollback/undo-capable updates", "UpdateTuple at "+w.InstrPos(s)+" is called with isRollbackOrUndo not the constant true: a shrinking record (the compensation of an aborted growing update) is refused with ErrRollbackDifficult and silently skipped")
				}
			}
		}
		r.Floor("UpdateTuple sites in Redo/Undo", n, 2)
	})
	prop("C03", "C03-R9")
	prop("C02", "C03-R9")
	prop("C01", "C03-R9")
	prop("C20", "C03-R9")
}

func init() {
	reg("C11-R10", "no ON clause is dropped: a query with several JOIN ... ON ... clauses reaches the join visitor once per ON condition; in JoinVisitor.Enter a store to QueryInfo.OnExpressions of a value that is not built from the previous contents of that field is unreachable once the previous contents are assumed to hold a condition (the field, its Left and its Right not nil) — the conditions are combined, not replaced; the optimizer then ANDs the field into the WHERE conjunction (C11-R7 covers that side)", func(w *World, r *Report) {
		fn := w.Fn("parser", "JoinVisitor", "Enter")
		fld := w.Field("parser", "QueryInfo", "OnExpressions")
		isOldLoad := func(v ssa.Value) bool { return fieldLoadOf(v, fld) }
		fromOld := func(v ssa.Value) bool { return DependsOn(v, isOldLoad) }
		var overwrites []ssa.Instruction
		n := 0
		for _, b := range fn.Blocks {
			for _, in := range b.Instrs {
				st, ok := in.(*ssa.Store)
				if !ok {
					continue
				}
				fa, ok := st.Addr.(*ssa.FieldAddr)
				if !ok {
					continue
				}
				if sst, ok := derefStruct(fa.X.Type()); !ok || sst.Field(fa.Field) != fld {
					continue
				}
				n++
				if !fromOld(st.Val) {
					overwrites = append(overwrites, in)
				}
			}
		}
		r.Floor("stores to QueryInfo.OnExpressions in JoinVisitor.Enter", n, 1)
		isOver := func(x ssa.Instruction) bool {
			for _, o := range overwrites {
				if o == x {
					return true
				}
			}
			return false
		}
		wit := (&PathQ{Fn: fn, Cut: []EdgeCut{nilCompareCut(fromOld, true)}, Target: isOver}).FromEntry()
		r.Check(wit == nil, "JoinVisitor.Enter:on-conditions-are-combined", "an ON condition never replaces an earlier one", "with an earlier ON condition present the field is overwritten: "+w.DescribeWitness(fn, wit)+" — `a JOIN b ON .. JOIN c ON ..` keeps only the last condition and returns the cross product of a and b")
	})
	prop("C11", "C11-R10")
}
