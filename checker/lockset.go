package main

// lockset.go — path-sensitive lock-state exploration (engines MH "must-hold lockset" and the
// mutex/latch half of TS "typestate pairing").
//
// A lock is named by a canonical access path of the value it is invoked on: parameters, free
// variables and globals are roots, field selections extend the path, casts that preserve identity
// (CastPageAsTablePage, unsafe/ChangeType conversions, the embedded page.Page of a TablePage) are
// transparent, SSA registers (call results) are roots by register name. Phi nodes rename on the edge
// that is taken, so hand-over-hand loops (`currentPage = nextPage`) are followed exactly.
// Deferred releases are part of the state and fire at RunDefers.

import (
	"go/token"
	"go/types"
	"sort"
	"strings"

	"golang.org/x/tools/go/ssa"
)

type lockOp int

const (
	opNone lockOp = iota
	opLock        // exclusive acquire
	opRLock
	opUnlock
	opRUnlock
)

type LockTable struct {
	ops   map[*types.Func]lockOp
	casts map[*types.Func]bool // identity-preserving functions f(x) == x
}

var lockTables = map[*World]*LockTable{}

func (w *World) LockTable() *LockTable {
	if lt := lockTables[w]; lt != nil {
		return lt
	}
	lt := &LockTable{ops: map[*types.Func]lockOp{}, casts: map[*types.Func]bool{}}
	std := func(pkg, typ, m string) *types.Func {
		p := w.ByPath[pkg]
		if p == nil {
			fatalf("package %s not loaded", pkg)
		}
		tn, _ := p.Types.Scope().Lookup(typ).(*types.TypeName)
		if tn == nil {
			fatalf("%s.%s not found", pkg, typ)
		}
		o, _, _ := types.LookupFieldOrMethod(types.NewPointer(tn.Type()), true, p.Types, m)
		f, _ := o.(*types.Func)
		if f == nil {
			fatalf("%s.%s.%s not found", pkg, typ, m)
		}
		return f
	}
	lt.ops[std("sync", "Mutex", "Lock")] = opLock
	lt.ops[std("sync", "Mutex", "Unlock")] = opUnlock
	lt.ops[std("sync", "RWMutex", "Lock")] = opLock
	lt.ops[std("sync", "RWMutex", "Unlock")] = opUnlock
	lt.ops[std("sync", "RWMutex", "RLock")] = opRLock
	lt.ops[std("sync", "RWMutex", "RUnlock")] = opRUnlock
	for m, op := range map[string]lockOp{"WLock": opLock, "WUnlock": opUnlock, "RLock": opRLock, "RUnlock": opRUnlock} {
		lt.ops[w.MethodObj("common", "ReaderWriterLatch", m)] = op
		for f := range w.family(w.MethodObj("common", "ReaderWriterLatch", m)) {
			lt.ops[f] = op
		}
	}
	a := w.A()
	lt.ops[a.PageWLatch] = opLock
	lt.ops[a.PageWUnlatch] = opUnlock
	lt.ops[a.PageRLatch] = opRLock
	lt.ops[a.PageRUnlatch] = opRUnlock
	lt.casts[a.CastTablePage] = true
	lockTables[w] = lt
	return lt
}

// lockPath computes the canonical access path of a value (see file comment).
func (lt *LockTable) lockPath(v ssa.Value) string {
	for depth := 0; depth < 32; depth++ {
		v = resolveCell(v)
		switch x := v.(type) {
		case *ssa.Parameter:
			return paramName(x)
		case *ssa.FreeVar:
			return "fv:" + x.Name()
		case *ssa.Global:
			return "g:" + x.Name()
		case *ssa.UnOp:
			if x.Op == token.MUL {
				// load through a pointer-typed field or cell: same path as the address
				v = x.X
				continue
			}
			return valName("v:", x)
		case *ssa.FieldAddr:
			st, _ := derefStruct(x.X.Type())
			f := st.Field(x.Field)
			if f.Embedded() && f.Name() == "Page" { // TablePage{page.Page}: same object
				v = x.X
				continue
			}
			return lt.lockPath(x.X) + "." + f.Name()
		case *ssa.Field:
			st := x.X.Type().Underlying().(*types.Struct)
			return lt.lockPath(x.X) + "." + st.Field(x.Field).Name()
		case *ssa.ChangeType:
			v = x.X
			continue
		case *ssa.Convert:
			v = x.X
			continue
		case *ssa.MakeInterface:
			v = x.X
			continue
		case *ssa.ChangeInterface:
			v = x.X
			continue
		case *ssa.TypeAssert:
			v = x.X
			continue
		case *ssa.Call:
			if o := CalleeObj(x); o != nil && lt.casts[o] && len(x.Call.Args) == 1 {
				v = x.Call.Args[0]
				continue
			}
			return valName("v:", x)
		case *ssa.Phi:
			return valName("v:", x)
		case *ssa.Alloc:
			return valName("c:", x)
		default:
			if v == nil {
				return "?"
			}
			return valName("v:", v)
		}
	}
	return "?"
}

// classify a call instruction as a lock operation on a named lock.
func (lt *LockTable) classify(c ssa.CallInstruction) (lockOp, string) {
	o := CalleeObj(c)
	if o == nil {
		return opNone, ""
	}
	op, ok := lt.ops[o]
	if !ok {
		op, ok = lt.ops[o.Origin()]
	}
	if !ok {
		return opNone, ""
	}
	com := c.Common()
	var recv ssa.Value
	if com.IsInvoke() {
		recv = com.Value
	} else if len(com.Args) > 0 {
		recv = com.Args[0]
	} else {
		return opNone, ""
	}
	return op, lt.lockPath(recv)
}

// LState: held locks (name -> 'W' or 'R' with a count for R), deferred releases, phi aliases.
type LState struct {
	held     map[string]string // name -> "W" | "R"
	deferred []string          // "U:name" / "R:name" in registration order
	alias    map[string]string // phi register path -> root path on the path taken
	overflow string            // set when a loop accumulates instances of one acquire site (the path is cut)
}

func (s *LState) clone() *LState {
	n := &LState{held: map[string]string{}, alias: map[string]string{}}
	for k, v := range s.held {
		n.held[k] = v
	}
	for k, v := range s.alias {
		n.alias[k] = v
	}
	n.deferred = append([]string(nil), s.deferred...)
	n.overflow = s.overflow
	return n
}

func (s *LState) key() string {
	var parts []string
	for k, v := range s.held {
		parts = append(parts, v+k)
	}
	sort.Strings(parts)
	var al []string
	for k, v := range s.alias {
		al = append(al, k+"="+v)
	}
	sort.Strings(al)
	return strings.Join(parts, ",") + "|" + strings.Join(s.deferred, ",") + "|" + strings.Join(al, ",")
}

// root resolves a path through the phi aliases of this state (prefix-wise).
func (s *LState) root(path string) string {
	for i := 0; i < 8; i++ {
		changed := false
		for a, r := range s.alias {
			if path == a {
				path = r
				changed = true
			} else if hasPathPrefix(path, a) {
				path = r + path[len(a):]
				changed = true
			}
		}
		if !changed {
			break
		}
	}
	return path
}

// killName renames every held lock / alias target / deferred release rooted at key to a fresh name.
func (s *LState) killName(key string) {
	hit := false
	match := func(p string) bool { return hasPathPrefix(p, key) }
	// the register now denotes a new value: aliases *of* it are stale
	for a := range s.alias {
		if match(a) {
			delete(s.alias, a)
		}
	}
	for h := range s.held {
		if match(h) {
			hit = true
		}
	}
	for _, v := range s.alias {
		if match(v) {
			hit = true
		}
	}
	if !hit {
		return
	}
	fresh := key + "'"
	for n := 0; ; n++ {
		clash := false
		for h := range s.held {
			if hasPathPrefix(h, fresh) {
				clash = true
			}
		}
		if !clash {
			break
		}
		if n >= 2 {
			// the same acquire site is held three times over: resources accumulate in a loop
			s.overflow = key
			break
		}
		fresh += "'"
	}
	ren := func(p string) string { return fresh + p[len(key):] }
	for h, m := range s.held {
		if match(h) {
			delete(s.held, h)
			s.held[ren(h)] = m
		}
	}
	for a, v := range s.alias {
		if match(v) {
			s.alias[a] = ren(v)
		}
	}
	for i, d := range s.deferred {
		if match(d[2:]) {
			s.deferred[i] = d[:2] + ren(d[2:])
		}
	}
}

// Holds reports whether the lock on path is held (any mode, or write mode when needW).
func (s *LState) Holds(path string, needW bool) bool {
	m, ok := s.held[s.root(path)]
	if !ok {
		return false
	}
	return !needW || m == "W"
}

func (s *LState) HeldNames() []string {
	var out []string
	for k, v := range s.held {
		out = append(out, v+":"+k)
	}
	sort.Strings(out)
	return out
}

type LockWalk struct {
	W    *World
	Fn   *ssa.Function
	Init map[string]string // locks held on entry (caller-holds), by path
	Cut  []EdgeCut
	// callbacks
	OnInstr  func(in ssa.Instruction, st *LState)
	OnReturn func(ret *ssa.Return, st *LState)
	OnIssue  func(kind string, in ssa.Instruction, name string, st *LState)
	// Effects of calls to repo functions that are not balanced (summaries): returns (acquire, release)
	// lists of paths in the caller's naming; nil = balanced / irrelevant.
	CallEffect func(c ssa.CallInstruction, st *LState) (acq map[string]string, rel []string)
	// Classify overrides the lock table (resource typestate rules supply their own acquire/release set).
	Classify func(c ssa.CallInstruction, st *LState) (lockOp, string)
	// PathFn overrides the canonical naming of values (defaults to the lock table's lockPath).
	PathFn func(v ssa.Value) string
	// TrackFields: stores of pointers into fields of parameter-rooted objects re-bind the field's path
	TrackFields bool
	// OnEdge may refine the state carried along the edge b -> b.Succs[succ] (e.g. drop a resource on the
	// edge on which its pointer is nil); returning false prunes the edge.
	OnEdge    func(b *ssa.BasicBlock, succ int, st *LState) bool
	// InlineHelpers: calls of private helpers of the same package (void / scalar results) are walked in place
	InlineHelpers bool
	// NoInline names helpers the rule models itself (declared transfers, acquire wrappers)
	NoInline  func(f *ssa.Function) bool
	MaxStates int
	States     int
	Truncated  bool
}

func (lw *LockWalk) Run() {
	_ = lw.W.LockTable()
	if len(lw.Fn.Blocks) == 0 {
		return
	}
	if lw.MaxStates == 0 {
		lw.MaxStates = 200000
	}
	init := &LState{held: map[string]string{}, alias: map[string]string{}}
	for k, v := range lw.Init {
		init.held[k] = v
	}
	prevTop, prevSubst := inlTopFn, inlSubst
	inlTopFn, inlSubst = lw.Fn, map[*ssa.Parameter]string{}
	defer func() { inlTopFn, inlSubst = prevTop, prevSubst }()
	lw.walk(lw.Fn, init, 0)
}

// inlinable: a private helper of the walked function's package whose body is walked in place of the call
// (void or scalar results only: helpers that hand out objects are summarised by the rules themselves).
func (lw *LockWalk) inlinable(f *ssa.Function) bool {
	if f == nil || len(f.Blocks) == 0 || f.Pkg == nil || lw.Fn.Pkg == nil || f.Pkg != lw.Fn.Pkg || f.Parent() != nil || f.Synthetic != "" {
		return false
	}
	if token.IsExported(f.Name()) || f == lw.Fn || (lw.NoInline != nil && lw.NoInline(f)) {
		return false
	}
	res := f.Signature.Results()
	for i := 0; i < res.Len(); i++ {
		switch res.At(i).Type().Underlying().(type) {
		case *types.Basic:
		default:
			return false
		}
	}
	n := 0
	for _, b := range f.Blocks {
		n += len(b.Instrs)
	}
	return n <= 400
}

// walk explores fn from its entry with the given state. depth 0 is the function the rule asked for; deeper
// frames are inlined helpers, whose exit states are returned to the caller frame.
func (lw *LockWalk) walk(fn *ssa.Function, init *LState, depth int) (exits []*LState) {
	type item struct {
		b     *ssa.BasicBlock
		from  *ssa.BasicBlock
		st    *LState
		start int
	}
	exitSeen := map[string]bool{}
	seen := map[string]bool{}
	work := []item{{fn.Blocks[0], nil, init, 0}}
	issue := func(kind string, in ssa.Instruction, name string, st *LState) {
		if lw.OnIssue != nil {
			lw.OnIssue(kind, in, name, st)
		}
	}
	release := func(st *LState, name string, shared bool, in ssa.Instruction) {
		r := st.root(name)
		m, ok := st.held[r]
		if !ok {
			issue("release-not-held", in, r, st)
			return
		}
		if shared && m == "W" || !shared && m == "R" {
			issue("release-wrong-mode", in, r, st)
		}
		delete(st.held, r)
	}
	for len(work) > 0 {
		it := work[len(work)-1]
		work = work[:len(work)-1]
		st := it.st.clone()
		// phi renaming on the taken edge
		if it.from != nil {
			pi := -1
			for i, p := range it.b.Preds {
				if p == it.from {
					pi = i
				}
			}
			newAlias := map[string]string{}
			for _, in := range it.b.Instrs {
				phi, ok := in.(*ssa.Phi)
				if !ok {
					break
				}
				if pi < 0 || pi >= len(phi.Edges) {
					continue
				}
				var src string
				if c, isConst := phi.Edges[pi].(*ssa.Const); isConst {
					src = "const:" + c.String()
				} else {
					src = st.root(lw.pathOf(phi.Edges[pi]))
				}
				newAlias[valName("v:", phi)] = src
			}
			for k, v := range newAlias {
				if k != v {
					st.alias[k] = v
				} else {
					delete(st.alias, k)
				}
			}
			// prune aliases whose root is not (a prefix of) a held lock or a deferred release
			for k, v := range st.alias {
				keep := false
				for h := range st.held {
					if hasPathPrefix(h, v) || hasPathPrefix(v, h) {
						keep = true
					}
				}
				for _, d := range st.deferred {
					if strings.HasSuffix(d, ":"+k) || strings.Contains(d, ":"+k+".") {
						keep = true
					}
				}
				if !keep && !strings.HasPrefix(k, "c:") && !strings.HasPrefix(k, "p:") && !strings.HasPrefix(v, "const:") {
					delete(st.alias, k)
				}
			}
		}
		key := itoa(it.b.Index) + "@" + itoa(it.start) + "#" + st.key()
		if seen[key] {
			continue
		}
		seen[key] = true
		lw.States++
		if lw.States > lw.MaxStates {
			lw.Truncated = true
			return
		}
		dead := false
		for idx, in := range it.b.Instrs {
			if idx < it.start {
				continue
			}
			// executing the defining instruction of an SSA register kills that name: a lock still held
			// under it belongs to the value of an earlier loop iteration and lives on under a fresh name
			// (reachable through the phi / cell aliases only)
			if v, ok := in.(ssa.Value); ok {
				if _, isPhi := in.(*ssa.Phi); !isPhi {
					st.killName(valName("v:", v))
				}
			}
			if st.overflow != "" {
				issue("accumulates-in-loop", in, st.overflow, st)
				dead = true
				break
			}
			if lw.TrackFields {
				// a pointer loaded from a re-bindable field denotes the object the field held at load time
				if u, ok := in.(*ssa.UnOp); ok && trackedFieldLoad(u) {
					st.alias[valName("v:", u)] = st.root(lw.pathOf(u.X))
				}
			}
			if lw.OnInstr != nil {
				lw.OnInstr(in, st)
			}
			switch x := in.(type) {
			case *ssa.Defer:
				op, name := lw.classify(x, st)
				switch op {
				case opUnlock:
					st.deferred = append(st.deferred, "U:"+st.root(name))
				case opRUnlock:
					st.deferred = append(st.deferred, "R:"+st.root(name))
				case opLock, opRLock:
					issue("deferred-acquire", in, name, st)
				}
			case *ssa.RunDefers:
				for i := len(st.deferred) - 1; i >= 0; i-- {
					d := st.deferred[i]
					release(st, d[2:], d[0] == 'R', in)
				}
				st.deferred = nil
			case *ssa.Store:
				// a local cell (closure-captured variable) is re-bound: loads of the cell now denote the stored value
				if al, ok := x.Addr.(*ssa.Alloc); ok {
					k := valName("c:", al)
					delete(st.alias, k)
					src := st.root(lw.pathOf(x.Val))
					if _, isConst := x.Val.(*ssa.Const); isConst {
						src = "const:" + x.Val.String()
					}
					if src != k {
						st.alias[k] = src
					}
				} else if fa, ok := x.Addr.(*ssa.FieldAddr); ok && lw.TrackFields {
					// a pointer-typed field of an object reachable from a parameter is re-bound (iterator.curNode = next)
					if _, isPtr := x.Val.Type().Underlying().(*types.Pointer); isPtr {
						k := lw.pathOf(fa)
						if strings.HasPrefix(k, "p:") {
							delete(st.alias, k)
							src := st.root(lw.pathOf(x.Val))
							if src != k {
								st.alias[k] = src
							}
						}
					}
				}
			case *ssa.Go:
				// the spawned goroutine has its own lock state
			case *ssa.Call:
				op, name := lw.classify(x, st)
				switch op {
				case opLock, opRLock:
					r := st.root(name)
					if m, ok := st.held[r]; ok && (op == opLock || m == "W") {
						issue("double-acquire", in, r, st)
					}
					if op == opLock {
						st.held[r] = "W"
					} else if _, ok := st.held[r]; !ok {
						st.held[r] = "R"
					}
				case opUnlock:
					release(st, name, false, in)
				case opRUnlock:
					release(st, name, true, in)
				default:
					var acq map[string]string
					var rel []string
					if lw.InlineHelpers && depth < 2 && lw.inlinable(x.Call.StaticCallee()) {
						f := x.Call.StaticCallee()
						saved := map[*ssa.Parameter]string{}
						for i, p := range f.Params {
							if old, ok := inlSubst[p]; ok {
								saved[p] = old
							}
							if i < len(x.Call.Args) {
								if c, isConst := x.Call.Args[i].(*ssa.Const); isConst {
									inlSubst[p] = "const:" + c.String()
								} else {
									inlSubst[p] = st.root(lw.pathOf(x.Call.Args[i]))
								}
							}
						}
						sub := st.clone()
						callerDeferred := sub.deferred
						sub.deferred = nil
						exs := lw.walk(f, sub, depth+1)
						for _, p := range f.Params {
							if old, ok := saved[p]; ok {
								inlSubst[p] = old
							} else {
								delete(inlSubst, p)
							}
						}
						if lw.Truncated {
							return
						}
						for _, ex := range exs {
							ex.deferred = append([]string(nil), callerDeferred...)
							work = append(work, item{it.b, nil, ex, idx + 1})
						}
						dead = true
						break
					}
					if lw.CallEffect != nil {
						acq, rel = lw.CallEffect(x, st)
					}
					if acq == nil && rel == nil {
						var ok bool
						acq, rel, ok = lw.closureEffect(x)
						if !ok {
							issue("closure-with-conditional-lock-ops", in, "", st)
						}
					}
					for _, n := range rel {
						release(st, n, st.held[st.root(n)] == "R", in)
					}
					for n, m := range acq {
						st.held[st.root(n)] = m
					}
				}
			case *ssa.Return:
				if depth > 0 {
					ex := st.clone()
					if k := ex.key(); !exitSeen[k] {
						exitSeen[k] = true
						exits = append(exits, ex)
					}
					dead = true
				} else if lw.OnReturn != nil {
					lw.OnReturn(x, st)
				}
			case *ssa.Panic:
				dead = true
			}
			if dead {
				break
			}
		}
		if dead {
			continue
		}
		for s, succ := range it.b.Succs {
			cut := constCut(it.b, s)
			for _, c := range lw.Cut {
				if c(it.b, s) {
					cut = true
				}
			}
			if cut {
				continue
			}
			nst := st
			if lw.OnEdge != nil {
				nst = st.clone()
				if !lw.OnEdge(it.b, s, nst) {
					continue
				}
			}
			work = append(work, item{succ, it.b, nst, 0})
		}
	}
	return exits
}

// naming of SSA values across inlined frames: values of an inlined helper carry the helper's name, its
// parameters are named by the caller's argument paths
var inlTopFn *ssa.Function
var inlSubst map[*ssa.Parameter]string

func valName(prefix string, v ssa.Value) string {
	n := prefix + v.Name()
	if inlTopFn != nil {
		if in, ok := v.(ssa.Instruction); ok && in.Parent() != nil && in.Parent() != inlTopFn && in.Parent().Parent() == nil {
			n += "@" + in.Parent().Name()
		}
	}
	return n
}

func paramName(p *ssa.Parameter) string {
	if s, ok := inlSubst[p]; ok {
		return s
	}
	if inlTopFn != nil && p.Parent() != nil && p.Parent() != inlTopFn && p.Parent().Parent() == nil {
		return "p:" + p.Name() + "@" + p.Parent().Name()
	}
	return "p:" + p.Name()
}

func (lw *LockWalk) pathOf(v ssa.Value) string {
	if lw.PathFn != nil {
		return lw.PathFn(v)
	}
	return lw.W.LockTable().lockPath(v)
}

func (lw *LockWalk) classify(c ssa.CallInstruction, st *LState) (lockOp, string) {
	if lw.Classify != nil {
		return lw.Classify(c, st)
	}
	return lw.W.LockTable().classify(c)
}

// closureEffect summarises a call of a closure defined in the walked function: the lock operations
// its body performs unconditionally on captured variables, translated to the caller's cells.
// ok=false when the closure performs lock operations under branches (not modelled).
func (lw *LockWalk) closureEffect(c *ssa.Call) (acq map[string]string, rel []string, ok bool) {
	var fn *ssa.Function
	var bindings []ssa.Value
	switch v := c.Call.Value.(type) {
	case *ssa.MakeClosure:
		fn, _ = v.Fn.(*ssa.Function)
		bindings = v.Bindings
	default:
		// closure stored in a local cell: `f := func(){...}; f()`
		if mc, isMC := resolveCell(c.Call.Value).(*ssa.MakeClosure); isMC {
			fn, _ = mc.Fn.(*ssa.Function)
			bindings = mc.Bindings
		}
	}
	if fn == nil || fn.Parent() != lw.Fn {
		return nil, nil, true
	}
	lt := lw.W.LockTable()
	translate := func(p string) string {
		for i, fv := range fn.FreeVars {
			pre := "fv:" + fv.Name()
			if hasPathPrefix(p, pre) {
				if i < len(bindings) {
					return lt.lockPath(bindings[i]) + p[len(pre):]
				}
			}
		}
		return p
	}
	acq = map[string]string{}
	for _, b := range fn.Blocks {
		for _, in := range b.Instrs {
			call, isCall := in.(*ssa.Call)
			if !isCall {
				continue
			}
			op, name := lw.classifyInClosure(call)
			if op == opNone {
				continue
			}
			if b != fn.Blocks[0] && len(fn.Blocks) > 1 {
				// lock op outside the entry block: conditional unless the function is straight-line
				if !straightLine(fn) {
					return nil, nil, false
				}
			}
			switch op {
			case opLock:
				acq[translate(name)] = "W"
			case opRLock:
				acq[translate(name)] = "R"
			case opUnlock, opRUnlock:
				rel = append(rel, translate(name))
			}
		}
	}
	return acq, rel, true
}

func straightLine(fn *ssa.Function) bool {
	for _, b := range fn.Blocks {
		if len(b.Succs) > 1 {
			// a constant-pruned If is still straight-line
			live := 0
			for s := range b.Succs {
				if !constCut(b, s) {
					live++
				}
			}
			if live > 1 {
				return false
			}
		}
	}
	return true
}

// classifyInClosure classifies a call inside a closure body (no state available: a pure table lookup).
func (lw *LockWalk) classifyInClosure(c *ssa.Call) (lockOp, string) {
	if lw.Classify != nil {
		return lw.Classify(c, nil)
	}
	return lw.W.LockTable().classify(c)
}

// hasPathPrefix: p is pre itself or an extension of it (field selection '.' or derived id '#').
func hasPathPrefix(p, pre string) bool {
	if p == pre {
		return true
	}
	return strings.HasPrefix(p, pre) && len(p) > len(pre) && (p[len(pre)] == '.' || p[len(pre)] == '#')
}

// trackedFieldLoad: a load of a pointer-typed field of an object reachable from a parameter.
func trackedFieldLoad(u *ssa.UnOp) bool {
	if u.Op != token.MUL {
		return false
	}
	if _, isPtr := u.Type().Underlying().(*types.Pointer); !isPtr {
		return false
	}
	fa, ok := u.X.(*ssa.FieldAddr)
	if !ok {
		return false
	}
	base := fa.X
	for k := 0; k < 6; k++ {
		switch b := base.(type) {
		case *ssa.Parameter:
			return true
		case *ssa.FieldAddr:
			base = b.X
		case *ssa.UnOp:
			base = b.X
		default:
			return false
		}
	}
	return false
}
