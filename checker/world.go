package main

// world.go — loading /repo's current working tree into a type-checked SSA program and
// resolving the anchors (functions, fields, consts, types) every rule is written against.
// An anchor that does not resolve is a hard failure (exit 2), never a skip.

import (
	"fmt"
	"go/ast"
	"go/token"
	"go/types"
	"os"
	"sort"
	"strings"
	"time"

	"golang.org/x/tools/go/callgraph"
	"golang.org/x/tools/go/callgraph/cha"
	"golang.org/x/tools/go/callgraph/vta"
	"golang.org/x/tools/go/packages"
	"golang.org/x/tools/go/ssa"
	"golang.org/x/tools/go/ssa/ssautil"
)

const libMod = "github.com/ryogrid/SamehadaDB/lib"
const srvMod = "github.com/ryogrid/SamehadaDB/server"

type World struct {
	byKey map[string]*ssa.Function
	valueUse map[*ssa.Function]bool
	bpmHelperCache map[*ssa.Function]bpmHelper
	RepoRoot string
	Fset     *token.FileSet
	Pkgs     []*packages.Package          // repo packages only (lib + server [+ tests])
	ByPath   map[string]*packages.Package // every loaded package incl. deps
	Prog     *ssa.Program
	CG       *callgraph.Graph
	CGKind   string
	// all functions (incl. anonymous, methods) whose package belongs to the repo
	RepoFuncs []*ssa.Function
	// set when test packages were loaded too
	WithTests bool
	// lib objects mentioned by the server module: full name -> positions
	serverUses map[string][]string
	ServerPkgs []string
	env        []string
	overlay    map[string][]byte
	// callers index: callee -> call sites
	callersIdx map[*ssa.Function][]CallSite
}

type CallSite struct {
	Caller *ssa.Function
	Instr  ssa.CallInstruction
}

type hardFail struct{ msg string }

func fatalf(format string, a ...interface{}) {
	panic(hardFail{fmt.Sprintf(format, a...)})
}

func isRepoPath(p string) bool {
	return p == libMod || strings.HasPrefix(p, libMod+"/") || p == srvMod || strings.HasPrefix(p, srvMod+"/")
}

// LoadWorld loads both modules of the repository from their current working tree.
// overlay (may be nil) maps absolute file names to replacement contents (used by the
// mutation self-test of the thorough tier; nothing is ever written to disk).
func LoadWorld(repoRoot string, withTests bool, overlay map[string][]byte, useVTA bool) *World {
	w := &World{RepoRoot: repoRoot, ByPath: map[string]*packages.Package{}, WithTests: withTests}
	w.Fset = token.NewFileSet()
	env := append(os.Environ(), "GOFLAGS=-mod=mod", "GOPROXY=off", "GOSUMDB=off", "GOTOOLCHAIN=local", "GOWORK=off")
	cfg := &packages.Config{
		Mode:    packages.LoadAllSyntax,
		Dir:     repoRoot + "/lib",
		Tests:   withTests,
		Fset:    w.Fset,
		Env:     env,
		Overlay: overlay,
	}
	initial, err := packages.Load(cfg, "./...")
	if err != nil {
		fatalf("packages.Load(lib): %v", err)
	}
	if len(initial) == 0 {
		fatalf("packages.Load(lib): zero packages")
	}
	nerr := 0
	packages.Visit(initial, nil, func(p *packages.Package) {
		for _, e := range p.Errors {
			if isRepoPath(p.PkgPath) || nerr < 5 {
				fmt.Fprintf(os.Stderr, "load error: %s: %v\n", p.PkgPath, e)
			}
			nerr++
		}
		if _, ok := w.ByPath[p.ID]; !ok {
			w.ByPath[p.ID] = p
		}
	})
	if nerr > 0 {
		fatalf("%d load/type errors: the tree does not type-check, nothing can be decided", nerr)
	}
	roots := initial
	tLoad := time.Now()
	// The server module (a thin REST front end over the public API) is type-checked separately and
	// contributes only its *uses* of lib objects (see ServerUses) to who-may-call rules.
	w.env, w.overlay = env, overlay
	prog, _ := ssautil.AllPackages(roots, ssa.InstantiateGenerics)
	prog.Build()
	w.Prog = prog
	for _, p := range roots {
		if isRepoPath(p.PkgPath) {
			w.Pkgs = append(w.Pkgs, p)
		}
	}
	sort.Slice(w.Pkgs, func(i, j int) bool { return w.Pkgs[i].ID < w.Pkgs[j].ID })
	if len(w.Pkgs) < 30 {
		fatalf("only %d repo packages loaded (expected >= 30)", len(w.Pkgs))
	}
	all := ssautil.AllFunctions(prog)
	for f := range all {
		if f.Pkg != nil && isRepoPath(f.Pkg.Pkg.Path()) && f.Blocks != nil {
			w.RepoFuncs = append(w.RepoFuncs, f)
		} else if f.Pkg == nil && f.Origin() != nil && f.Origin().Pkg != nil && isRepoPath(f.Origin().Pkg.Pkg.Path()) && f.Blocks != nil {
			w.RepoFuncs = append(w.RepoFuncs, f) // generic instantiation of a repo function
		}
	}
	sort.Slice(w.RepoFuncs, func(i, j int) bool { return funcKey(w.RepoFuncs[i]) < funcKey(w.RepoFuncs[j]) })
	if os.Getenv("SDB_TIMING") != "" {
		fmt.Fprintln(os.Stderr, "ssa built", time.Since(tLoad))
	}
	chaG := cha.CallGraph(prog)
	if useVTA {
		w.CG = vta.CallGraph(all, chaG)
		w.CGKind = "vta(cha)"
	} else {
		w.CG = chaG
		w.CGKind = "cha"
	}
	if os.Getenv("SDB_TIMING") != "" {
		fmt.Fprintln(os.Stderr, "callgraph", time.Since(tLoad))
	}
	w.callersIdx = map[*ssa.Function][]CallSite{}
	for fn, node := range w.CG.Nodes {
		if fn == nil {
			continue
		}
		for _, e := range node.In {
			if e.Site == nil || e.Caller.Func == nil {
				continue
			}
			w.callersIdx[fn] = append(w.callersIdx[fn], CallSite{e.Caller.Func, e.Site})
		}
	}
	return w
}

// loadServer type-checks the server module against the current lib tree and records every lib
// object (function, method, field) its own packages mention, by full name.
func (w *World) ServerUses() map[string][]string {
	if w.serverUses == nil {
		w.loadServer(w.env, w.overlay)
	}
	return w.serverUses
}

func (w *World) loadServer(env []string, overlay map[string][]byte) {
	cfg := &packages.Config{
		Mode:    packages.NeedName | packages.NeedFiles | packages.NeedSyntax | packages.NeedTypes | packages.NeedTypesInfo | packages.NeedImports | packages.NeedDeps,
		Dir:     w.RepoRoot + "/server",
		Env:     env,
		Overlay: overlay,
	}
	pkgs, err := packages.Load(cfg, "./...")
	if err != nil {
		fatalf("packages.Load(server): %v", err)
	}
	if len(pkgs) == 0 {
		fatalf("packages.Load(server): zero packages")
	}
	w.serverUses = map[string][]string{}
	for _, p := range pkgs {
		for _, e := range p.Errors {
			fatalf("server module does not type-check: %v", e)
		}
		w.ServerPkgs = append(w.ServerPkgs, p.PkgPath)
		for id, obj := range p.TypesInfo.Uses {
			if obj.Pkg() == nil || !strings.HasPrefix(obj.Pkg().Path(), libMod) {
				continue
			}
			var key string
			switch o := obj.(type) {
			case *types.Func:
				key = o.FullName()
			case *types.Var:
				if o.IsField() {
					key = "field " + o.Pkg().Path() + "." + o.Name()
				}
			}
			if key != "" {
				w.serverUses[key] = append(w.serverUses[key], shortPos(p.Fset, id.Pos()))
			}
		}
	}
	sort.Strings(w.ServerPkgs)
}

// funcKey: stable, line-free name of a function: pkgpath.(Recv).Name or pkgpath.Name; anonymous
// functions are parent$N.
func funcKey(f *ssa.Function) string {
	if f == nil {
		return "<nil>"
	}
	if f.Parent() != nil {
		return funcKey(f.Parent()) + "$" + strings.TrimPrefix(f.Name(), f.Parent().Name()+"$")
	}
	s := f.String()
	s = strings.ReplaceAll(s, libMod+"/", "")
	s = strings.ReplaceAll(s, srvMod, "server")
	return s
}

func shortPos(fset *token.FileSet, p token.Pos) string {
	if !p.IsValid() {
		return "?"
	}
	pp := fset.Position(p)
	fn := pp.Filename
	if i := strings.Index(fn, "/lib/"); i >= 0 {
		fn = fn[i+1:]
	} else if i := strings.Index(fn, "/server/"); i >= 0 {
		fn = fn[i+1:]
	}
	return fmt.Sprintf("%s:%d", fn, pp.Line)
}

func (w *World) Pos(p token.Pos) string { return shortPos(w.Fset, p) }

// InstrPos gives the best available position for an instruction.
func (w *World) InstrPos(in ssa.Instruction) string {
	if in == nil {
		return "?"
	}
	if p := in.Pos(); p.IsValid() {
		return w.Pos(p)
	}
	// fall back: nearest positioned instruction in the block, else the function
	b := in.Block()
	if b != nil {
		for _, x := range b.Instrs {
			if x.Pos().IsValid() {
				return w.Pos(x.Pos()) + "~"
			}
		}
		if b.Parent() != nil {
			return w.Pos(b.Parent().Pos()) + "~"
		}
	}
	return "?"
}

func (w *World) Pkg(path string) *packages.Package {
	full := path
	if !strings.HasPrefix(path, "github.com/") {
		full = libMod + "/" + path
	}
	p := w.ByPath[full]
	if p == nil || p.Types == nil {
		fatalf("anchor package %q not found", full)
	}
	return p
}

func (w *World) Obj(pkg, name string) types.Object {
	o := w.Pkg(pkg).Types.Scope().Lookup(name)
	if o == nil {
		fatalf("anchor %s.%s not found", pkg, name)
	}
	return o
}

func (w *World) Named(pkg, name string) *types.Named {
	o := w.Obj(pkg, name)
	tn, ok := o.(*types.TypeName)
	if !ok {
		fatalf("anchor %s.%s is not a type", pkg, name)
	}
	n, ok := tn.Type().(*types.Named)
	if !ok {
		fatalf("anchor %s.%s is not a named type", pkg, name)
	}
	return n
}

func (w *World) Const(pkg, name string) *types.Const {
	c, ok := w.Obj(pkg, name).(*types.Const)
	if !ok {
		fatalf("anchor %s.%s is not a const", pkg, name)
	}
	return c
}

// Field resolves a struct field (through embedded structs) of a named type.
func (w *World) Field(pkg, typ, field string) *types.Var {
	n := w.Named(pkg, typ)
	o, _, _ := types.LookupFieldOrMethod(types.NewPointer(n), true, w.Pkg(pkg).Types, field)
	v, ok := o.(*types.Var)
	if !ok || !v.IsField() {
		fatalf("anchor field %s.%s.%s not found", pkg, typ, field)
	}
	return v
}

// MethodObj resolves the *types.Func of a method (value or pointer receiver) or interface method.
func (w *World) MethodObj(pkg, typ, method string) *types.Func {
	n := w.Named(pkg, typ)
	o, _, _ := types.LookupFieldOrMethod(types.NewPointer(n), true, w.Pkg(pkg).Types, method)
	if o == nil {
		o, _, _ = types.LookupFieldOrMethod(n, true, w.Pkg(pkg).Types, method)
	}
	f, ok := o.(*types.Func)
	if !ok {
		fatalf("anchor method %s.%s.%s not found", pkg, typ, method)
	}
	return f
}

func (w *World) FuncObj(pkg, name string) *types.Func {
	f, ok := w.Obj(pkg, name).(*types.Func)
	if !ok {
		fatalf("anchor func %s.%s not found", pkg, name)
	}
	return f
}

// Fn returns the SSA function for a package-level function (typ == "") or a concrete method.
func (w *World) Fn(pkg, typ, name string) *ssa.Function {
	var obj *types.Func
	if typ == "" {
		obj = w.FuncObj(pkg, name)
	} else {
		obj = w.MethodObj(pkg, typ, name)
	}
	f := w.Prog.FuncValue(obj)
	if f == nil || f.Blocks == nil {
		fatalf("anchor %s.%s.%s has no SSA body", pkg, typ, name)
	}
	return f
}

// TryFn is Fn without the hard failure (for optional anchors such as siblings discovered by type).
func (w *World) TryFn(obj *types.Func) *ssa.Function {
	f := w.Prog.FuncValue(obj)
	if f == nil || f.Blocks == nil {
		return nil
	}
	return f
}

// Implementors returns the named types of the repo (pointer or value) implementing iface.
func (w *World) Implementors(iface *types.Named) []*types.Named {
	it, ok := iface.Underlying().(*types.Interface)
	if !ok {
		fatalf("%s is not an interface", iface)
	}
	var out []*types.Named
	for _, p := range w.Pkgs {
		if strings.HasSuffix(p.ID, "]") || strings.HasSuffix(p.ID, ".test") { // test variants
			continue
		}
		sc := p.Types.Scope()
		for _, nm := range sc.Names() {
			tn, ok := sc.Lookup(nm).(*types.TypeName)
			if !ok || tn.IsAlias() {
				continue
			}
			n, ok := tn.Type().(*types.Named)
			if !ok || types.IsInterface(n) {
				continue
			}
			if types.Implements(n, it) || types.Implements(types.NewPointer(n), it) {
				out = append(out, n)
			}
		}
	}
	sort.Slice(out, func(i, j int) bool { return out[i].String() < out[j].String() })
	return out
}

// Callees resolves the possible targets of a call instruction: the static callee when there is one,
// otherwise the call-graph edges of that site.
func (w *World) Callees(site ssa.CallInstruction) []*ssa.Function {
	if f := site.Common().StaticCallee(); f != nil {
		return []*ssa.Function{f}
	}
	caller := site.Parent()
	n := w.CG.Nodes[caller]
	if n == nil {
		return nil
	}
	var out []*ssa.Function
	seen := map[*ssa.Function]bool{}
	for _, e := range n.Out {
		if e.Site == site && e.Callee.Func != nil && !seen[e.Callee.Func] {
			seen[e.Callee.Func] = true
			out = append(out, e.Callee.Func)
		}
	}
	sort.Slice(out, func(i, j int) bool { return funcKey(out[i]) < funcKey(out[j]) })
	return out
}

// CalleeObj returns the *types.Func named by the call (static function, concrete method or
// interface method), or nil for calls of func values / builtins.
func CalleeObj(site ssa.CallInstruction) *types.Func {
	c := site.Common()
	if c.IsInvoke() {
		return c.Method
	}
	if f := c.StaticCallee(); f != nil {
		if o, ok := f.Object().(*types.Func); ok {
			return o
		}
		if f.Origin() != nil {
			if o, ok := f.Origin().Object().(*types.Func); ok {
				return o
			}
		}
	}
	return nil
}

// CallsTo reports whether the call instruction may invoke target: directly (same object),
// through an interface method that target's receiver implements, or through the call graph.
func (w *World) CallsTo(site ssa.CallInstruction, target *ssa.Function) bool {
	for _, f := range w.Callees(site) {
		if f == target {
			return true
		}
	}
	return false
}

// Callers lists the call sites of fn according to the call graph.
func (w *World) Callers(fn *ssa.Function) []CallSite {
	cs := append([]CallSite(nil), w.callersIdx[fn]...)
	sort.Slice(cs, func(i, j int) bool {
		a, b := funcKey(cs[i].Caller), funcKey(cs[j].Caller)
		if a != b {
			return a < b
		}
		return cs[i].Instr.Pos() < cs[j].Instr.Pos()
	})
	return cs
}

// IsTestFunc reports whether f lives in a _test.go file or in a test-support package.
func (w *World) IsTestFunc(f *ssa.Function) bool {
	for f.Parent() != nil {
		f = f.Parent()
	}
	if f.Pkg == nil {
		return false
	}
	path := f.Pkg.Pkg.Path()
	if strings.HasPrefix(path, libMod+"/testing/") || strings.HasSuffix(path, "_test") || strings.HasSuffix(path, ".test") {
		return true
	}
	if p := f.Pos(); p.IsValid() {
		return strings.HasSuffix(w.Fset.Position(p).Filename, "_test.go")
	}
	return false
}

// FileOf returns the base file name (relative to repo) that declares f.
func (w *World) FileOf(f *ssa.Function) string {
	for f.Parent() != nil {
		f = f.Parent()
	}
	s := w.Pos(f.Pos())
	if i := strings.LastIndex(s, ":"); i >= 0 {
		s = s[:i]
	}
	return s
}

// EachCall visits every call/go/defer instruction of fn (not of nested closures).
func EachCall(fn *ssa.Function, visit func(ssa.CallInstruction)) {
	for _, b := range fn.Blocks {
		for _, in := range b.Instrs {
			if c, ok := in.(ssa.CallInstruction); ok {
				visit(c)
			}
		}
	}
}

// AnonClosure: all functions lexically nested in fn (transitively), fn first.
func WithNested(fn *ssa.Function) []*ssa.Function {
	out := []*ssa.Function{fn}
	for _, a := range fn.AnonFuncs {
		out = append(out, WithNested(a)...)
	}
	return out
}

// astFuncDecl finds the *ast.FuncDecl for an SSA function (for AST-level rules).
func (w *World) FuncDecl(fn *ssa.Function) (*ast.FuncDecl, *packages.Package) {
	if fn.Syntax() == nil {
		return nil, nil
	}
	fd, ok := fn.Syntax().(*ast.FuncDecl)
	if !ok {
		return nil, nil
	}
	p := w.ByPath[fn.Pkg.Pkg.Path()]
	return fd, p
}
