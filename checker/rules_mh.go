package main

// rules_mh.go — must-hold lockset rules (engine MH): which lock guards which shared field,
// and which latch a page-content method needs (C12-R4, C16-R3, C17, C19).

import (
	"fmt"
	"go/constant"
	"go/types"
	"sort"
	"strings"

	"golang.org/x/tools/go/ssa"
)

// guardSpec: accesses to `fields` of struct `typ` inside its methods need `lock` (a field of the
// same struct) held; callerHolds methods are entered with it held (their call sites are checked);
// exempt methods are not analysed (reason required, callers restricted by `exemptCallers`).
type guardSpec struct {
	pkg, typ      string
	lock          string
	fields        []string
	needW         map[string]bool // fields whose writes need the lock in W mode (RW locks)
	callerHolds   map[string]bool
	exempt        map[string]string
	exemptCallers map[string]map[string]string // exempt method -> allowed callers (funcKey -> reason); nil = no non-test caller allowed
	minAccesses   int
	// outsiders: functions that are not methods of the type may touch the fields of an object if they hold that
	// object's lock at the access (checked by a walk of the outsider), instead of being rejected outright
	outsiders bool
}

func runGuardSpec(w *World, r *Report, g guardSpec) {
	guarded := map[*types.Var]bool{}
	for _, f := range g.fields {
		guarded[w.Field(g.pkg, g.typ, f)] = true
	}
	nAcc := 0
	name := g.typ
	for _, fn := range w.methodsOf(g.pkg, g.typ) {
		if _, ok := g.exempt[fn.Name()]; ok {
			continue
		}
		recv := "p:" + fn.Params[0].Name()
		mu := recv + "." + g.lock
		init := map[string]string{}
		if g.callerHolds[fn.Name()] {
			init[mu] = "W"
		}
		var bad []string
		lw := &LockWalk{W: w, Fn: fn, Init: init,
			OnInstr: func(in ssa.Instruction, st *LState) {
				if c, ok := in.(*ssa.Call); ok {
					if f := c.Call.StaticCallee(); f != nil && g.callerHolds[f.Name()] && f.Signature.Recv() != nil && strings.HasSuffix(strings.TrimPrefix(f.Signature.Recv().Type().String(), "*"), "."+g.typ) {
						if !st.Holds(mu, false) {
							bad = append(bad, "call of caller-holds method "+f.Name()+" at "+w.InstrPos(in)+" without "+g.lock)
						}
					}
				}
				fa, ok := in.(*ssa.FieldAddr)
				if !ok {
					return
				}
				sst, ok := derefStruct(fa.X.Type())
				if !ok || !guarded[sst.Field(fa.Field)] {
					return
				}
				nAcc++
				if !st.Holds(mu, false) {
					bad = append(bad, sst.Field(fa.Field).Name()+" at "+w.InstrPos(in))
				}
			}}
		lw.Run()
		if lw.Truncated {
			r.Undecided(name+"."+fn.Name()+":fields-under-"+g.lock, "state space cap hit", "")
			continue
		}
		bad = uniq(bad)
		r.Check(len(bad) == 0, name+"."+fn.Name()+":fields-under-"+g.lock, "every access to {"+strings.Join(g.fields, ",")+"} happens with "+g.lock+" held", "unguarded access: "+strings.Join(bad, ", "))
	}
	r.Floor(name+" guarded field accesses examined", nAcc, g.minAccesses)
	var ex []string
	for m := range g.exempt {
		ex = append(ex, m)
	}
	sort.Strings(ex)
	for _, m := range ex {
		allow := g.exemptCallers[m]
		if allow == nil {
			allow = map[string]string{}
		}
		wmc(w, r, name+"."+m+" ("+g.exempt[m]+")", map[*types.Func]bool{w.MethodObj(g.pkg, g.typ, m): true}, allow, 0)
	}
	// the guarded fields are not touched outside the type's methods and constructor
	for f := range guarded {
		users := map[string]bool{}
		for _, fn := range w.RepoFuncs {
			if w.IsTestFunc(fn) {
				continue
			}
			for _, b := range fn.Blocks {
				for _, in := range b.Instrs {
					if fa, ok := in.(*ssa.FieldAddr); ok {
						if sst, ok := derefStruct(fa.X.Type()); ok && sst.Field(fa.Field) == f {
							users[funcKey(topFunc(fn))] = true
						}
					}
				}
			}
		}
		var us []string
		for u := range users {
			us = append(us, u)
		}
		sort.Strings(us)
		for _, u := range us {
			ok := strings.Contains(u, "."+g.typ+")") || strings.HasSuffix(u, ".New"+g.typ) || strings.Contains(u, ".New"+g.typ) || g.extraUsers()[u]
			if !ok && g.outsiders {
				if fn := w.fnByKey(u); fn != nil {
					lt := w.LockTable()
					var bad []string
					n := 0
					lw := &LockWalk{W: w, Fn: fn, OnInstr: func(in ssa.Instruction, st *LState) {
						fa, isFA := in.(*ssa.FieldAddr)
						if !isFA {
							return
						}
						sst, isS := derefStruct(fa.X.Type())
						if !isS || sst.Field(fa.Field) != f {
							return
						}
						n++
						if _, fresh := fa.X.(*ssa.Alloc); fresh {
							return // object under construction in this function: not shared yet
						}
						if mu := lt.lockPath(fa.X) + "." + g.lock; !st.Holds(mu, false) {
							bad = append(bad, f.Name()+" at "+w.InstrPos(in)+" without "+mu)
						}
					}}
					lw.Run()
					r.Check(len(bad) == 0 && n > 0 && !lw.Truncated, name+"-field:"+f.Name()+":outsider:"+u, "a function outside "+g.typ+" touches the field only while it holds the "+g.lock+" of the same object", strings.Join(uniq(bad), ", "))
					continue
				}
			}
			r.Check(ok, name+"-field:"+f.Name()+":user:"+u, "guarded field is touched only by methods of "+g.typ, u+" touches "+g.typ+"."+f.Name())
		}
	}
}

func (g guardSpec) extraUsers() map[string]bool {
	if g.typ == "Catalog" {
		return map[string]bool{"catalog.BootstrapCatalog": true, "catalog.RecoveryCatalogFromCatalogPage": true}
	}
	return nil
}

func init() {
	reg("C16-R3", "the lock tables are read and written only with LockManager.mutex held (debug printers have no non-test caller)", func(w *World, r *Report) {
		runGuardSpec(w, r, guardSpec{pkg: "storage/access", typ: "LockManager", lock: "mutex",
			fields: []string{"sharedLockTable", "exclusiveLockTable"},
			exempt: map[string]string{"PrintLockTables": "debug printer", "ClearLockTablesForDebug": "debug helper"},
			minAccesses: 10})
	})

	reg("C12-R4", "the request queue state (execQue, curExectingReqNum, nextReqID) is touched only with queMutex held; RetrieveRequest / executeQuedTxns / handleAbortedByCCTxn are entered with it held", func(w *World, r *Report) {
		runGuardSpec(w, r, guardSpec{pkg: "samehada", typ: "RequestManager", lock: "queMutex",
			fields:      []string{"execQue", "curExectingReqNum", "nextReqID"},
			callerHolds: map[string]bool{"RetrieveRequest": true, "executeQuedTxns": true, "handleAbortedByCCTxn": true},
			minAccesses: 8})
		// caller-holds methods are called only from RequestManager methods
		for _, m := range []string{"RetrieveRequest", "executeQuedTxns", "handleAbortedByCCTxn"} {
			wmc(w, r, "RequestManager."+m, map[*types.Func]bool{w.MethodObj("samehada", "RequestManager", m): true}, map[string]string{
				"(*samehada.RequestManager).Run":             "dispatcher loop (holds queMutex)",
				"(*samehada.RequestManager).executeQuedTxns": "holds queMutex (caller-holds)",
			}, 1)
		}
	})

	reg("C19-R1/log", "guard table (log): log buffer state (offset, logBufferLSN, nextLSN, logBuffer) under LogManager.latch; flushBuffer / persistentLSN under wlogMutex", func(w *World, r *Report) {
		runGuardSpec(w, r, guardSpec{pkg: "recovery", typ: "LogManager", lock: "latch",
			fields: []string{"offset", "logBufferLSN", "nextLSN", "logBuffer"},
			exempt: map[string]string{"GetNextLSN": "start-up / test accessor", "SetNextLSN": "start-up only (NewSamehadaDB, before logging is activated)"},
			exemptCallers: map[string]map[string]string{
				"SetNextLSN": {"samehada.NewSamehadaDB": "single-threaded start-up"},
			},
			minAccesses: 15})
		runGuardSpec(w, r, guardSpec{pkg: "recovery", typ: "LogManager", lock: "wlogMutex",
			fields:      []string{"flushBuffer", "persistentLSN"},
			exempt:      map[string]string{"GetPersistentLSN": "test accessor"},
			minAccesses: 4})
	})

	reg("C19-R1/txnid", "guard table (transaction ids): TransactionManager.nextTxnID is read and written only under TransactionManager.mutex (lock holders are identified by transaction id, so ids must be unique)", func(w *World, r *Report) {
		runGuardSpec(w, r, guardSpec{pkg: "storage/access", typ: "TransactionManager", lock: "mutex",
			fields: []string{"nextTxnID"}, minAccesses: 2})
	})

	reg("C19-R1/catalog", "guard table (catalog): Catalog.tableIDs / tableNames under their mutexes; nextTableID only through sync/atomic", func(w *World, r *Report) {
		runGuardSpec(w, r, guardSpec{pkg: "catalog", typ: "Catalog", lock: "tableIDsMutex",
			fields: []string{"tableIDs"}, minAccesses: 4})
		runGuardSpec(w, r, guardSpec{pkg: "catalog", typ: "Catalog", lock: "tableNamesMutex",
			fields: []string{"tableNames"}, minAccesses: 2})
		atomicOnly(w, r, w.Field("catalog", "Catalog", "nextTableID"))
	})

	reg("C19-R1/statistics", "guard table (column statistics, written by the statistics updater thread and copied by every statement that is planned): columnStats.max / min / count / distinct are touched only with columnStats.latch held, and only by methods of columnStats or by functions that take the latch of the object they touch", func(w *World, r *Report) {
		runGuardSpec(w, r, guardSpec{pkg: "catalog", typ: "columnStats", lock: "latch",
			fields: []string{"max", "min", "count", "distinct"}, minAccesses: 8,
			outsiders: true})
	})

	reg("C19-R1/pin", "Page.pinCount is touched only through sync/atomic", func(w *World, r *Report) {
		atomicOnly(w, r, w.Field("storage/page", "Page", "pinCount"))
	})

	reg("C17-R2", "index wrappers (all four kinds): every use of the container happens under the wrapper lock (updateMtx / rwMtx); the *Inner helpers take it shared unless called with isNoLock=true, which only UpdateEntry does while holding it exclusively; UpdateEntry makes both container operations of the move inside one exclusive hold", func(w *World, r *Report) {
		type wrap struct{ typ, lock string }
		for _, wr := range []wrap{{"SkipListIndex", "updateMtx"}, {"UniqSkipListIndex", "updateMtx"}, {"BTreeIndex", "rwMtx"}, {"LinearProbeHashTableIndex", "updateMtx"}} {
			cont := w.Field("storage/index", wr.typ, "container")
			exempt := map[string]string{"GetHeaderPageID": "reads the header page id fixed at construction", "WriteOutContainerStateToBPM": "shutdown only, after the request manager stopped"}
			nAcc := 0
			usesContCache := map[*ssa.Function]bool{}
			usesCont := func(f *ssa.Function) bool {
				if v, ok := usesContCache[f]; ok {
					return v
				}
				res := false
				if f.Signature.Recv() != nil && strings.Contains(f.Signature.Recv().Type().String(), "index."+wr.typ) {
					for _, g := range w.FuncAndHelpers(f) {
						for _, b := range g.Blocks {
							for _, x := range b.Instrs {
								if fa, ok := x.(*ssa.FieldAddr); ok {
									if sst, ok := derefStruct(fa.X.Type()); ok && sst.Field(fa.Field) == cont {
										res = true
									}
								}
							}
						}
					}
				}
				usesContCache[f] = res
				return res
			}
			for _, fn := range w.methodsOf("storage/index", wr.typ) {
				if _, ok := exempt[fn.Name()]; ok {
					continue
				}
				recv := "p:" + fn.Params[0].Name()
				mu := recv + "." + wr.lock
				var noLock *ssa.Parameter
				for _, p := range fn.Params {
					if p.Name() == "isNoLock" {
						noLock = p
					}
				}
				variants := []struct {
					tag  string
					cut  []EdgeCut
					init map[string]string
				}{{"", nil, map[string]string{}}}
				if noLock != nil {
					isP := func(v ssa.Value) bool { return resolveCell(v) == ssa.Value(noLock) }
					variants = []struct {
						tag  string
						cut  []EdgeCut
						init map[string]string
					}{
						{"[isNoLock=false]", []EdgeCut{CutWhen(isP, true)}, map[string]string{}},
						{"[isNoLock=true]", []EdgeCut{CutWhen(isP, false)}, map[string]string{mu: "W"}},
					}
				}
				for _, v := range variants {
					var bad []string
					var halves []ssa.Instruction
					lw := &LockWalk{W: w, Fn: fn, Init: v.init, Cut: v.cut,
						OnInstr: func(in ssa.Instruction, st *LState) {
							if fa, ok := in.(*ssa.FieldAddr); ok {
								if sst, ok := derefStruct(fa.X.Type()); ok && sst.Field(fa.Field) == cont {
									nAcc++
									if !st.Holds(mu, false) {
										bad = append(bad, "container used at "+w.InstrPos(in))
									}
								}
							}
							// UpdateEntry moves an entry in two container operations: both are made with the wrapper lock held
							// exclusively (a reader between them finds no entry for the key and answers without reaching the row)
							if c, ok := in.(*ssa.Call); ok && fn.Name() == "UpdateEntry" {
								if f := c.Call.StaticCallee(); f != nil && usesCont(f) {
									halves = append(halves, in)
									if !st.Holds(mu, true) {
										bad = append(bad, f.Name()+" at "+w.InstrPos(in)+" without the exclusive wrapper lock: the move of the entry is not one step for readers")
									}
								}
							}
							// calls of the *Inner helpers with isNoLock=true need the exclusive lock
							if c, ok := in.(*ssa.Call); ok {
								if f := c.Call.StaticCallee(); f != nil && strings.HasSuffix(f.Name(), "Inner") && f.Signature.Recv() != nil {
									args := c.Call.Args
									cv, isConst := constOf(args[len(args)-1])
									if !isConst {
										bad = append(bad, "non-constant isNoLock at "+w.InstrPos(in))
									} else if constant.BoolVal(cv) && !st.Holds(mu, true) {
										bad = append(bad, f.Name()+"(isNoLock=true) at "+w.InstrPos(in)+" without the exclusive wrapper lock")
									} else if !constant.BoolVal(cv) && st.Holds(mu, false) {
										bad = append(bad, f.Name()+"(isNoLock=false) at "+w.InstrPos(in)+" while the wrapper lock is already held (self-deadlock)")
									}
								}
							}
						},
						OnReturn: func(ret *ssa.Return, st *LState) {
							if noLock != nil && v.tag == "[isNoLock=true]" {
								return
							}
							if st.Holds(mu, false) {
								bad = append(bad, "returns at "+w.InstrPos(ret)+" with the wrapper lock held")
							}
						},
						OnIssue: func(kind string, in ssa.Instruction, name string, st *LState) {
							bad = append(bad, kind+" "+name+" at "+w.InstrPos(in))
						}}
					lw.Run()
					if len(halves) > 0 {
						// one critical section: no explicit release of the wrapper lock between two halves
						lockFld := w.Field("storage/index", wr.typ, wr.lock)
						isRelease := func(x ssa.Instruction) bool {
							c, ok := x.(*ssa.Call)
							if !ok || c.Call.StaticCallee() == nil || !strings.HasSuffix(c.Call.StaticCallee().Name(), "nlock") || len(c.Call.Args) == 0 {
								return false
							}
							fa, ok := c.Call.Args[0].(*ssa.FieldAddr)
							if !ok {
								return false
							}
							sst, ok := derefStruct(fa.X.Type())
							return ok && sst.Field(fa.Field) == lockFld
						}
						isHalf := func(x ssa.Instruction) bool {
							for _, h := range halves {
								if h == x {
									return true
								}
							}
							return false
						}
						var rel []ssa.Instruction
						for _, b := range fn.Blocks {
							for _, x := range b.Instrs {
								x := x
								if isRelease(x) && (&PathQ{Fn: fn, Target: func(y ssa.Instruction) bool { return y == x }}).FromAfter(halves) != nil {
									rel = append(rel, x)
								}
							}
						}
						if len(rel) > 0 {
							if wit := (&PathQ{Fn: fn, Target: isHalf}).FromAfter(rel); wit != nil {
								bad = append(bad, "the wrapper lock is released at "+w.InstrPos(wit.Start)+" between the two halves of the move")
							}
						}
					}
					bad = uniq(bad)
					r.Check(len(bad) == 0, wr.typ+"."+fn.Name()+v.tag+":container-under-"+wr.lock, "container is used only under the wrapper lock; the lock is released on every exit", strings.Join(bad, "; "))
				}
			}
			r.Floor(wr.typ+" container uses examined", nAcc, 4)
		}
	})

	reg("C17-R1", "sibling agreement of the four index.Index wrappers: UpdateEntry of every implementor can return (is implemented), runs delete-then-insert under the exclusive wrapper lock, and insert / delete derive their container key through the same encoding helpers", func(w *World, r *Report) {
		idxI := w.Named("storage/index", "Index")
		n := 0
		for _, impl := range w.Implementors(idxI) {
			n++
			nm := impl.Obj().Name()
			get := func(m string) *ssa.Function {
				o, _, _ := types.LookupFieldOrMethod(types.NewPointer(impl), true, impl.Obj().Pkg(), m)
				f, _ := o.(*types.Func)
				if f == nil {
					fatalf("%s has no method %s", nm, m)
				}
				return w.SSA(f)
			}
			upd := get("UpdateEntry")
			canReturn := (&PathQ{Fn: upd, Target: isReturn}).FromEntry() != nil
			r.Check(canReturn, nm+".UpdateEntry:implemented", "UpdateEntry can complete (an UPDATE of an indexed column must not crash the process)", nm+".UpdateEntry panics on every path (not implemented): any UPDATE that touches a column indexed with this kind kills the server")
			// encoding helpers used on the insert path and on the delete path
			enc := func(f *ssa.Function) string {
				set := map[string]bool{}
				var visit func(f *ssa.Function, d int)
				visit = func(f *ssa.Function, d int) {
					EachCall(f, func(c ssa.CallInstruction) {
						cal := c.Common().StaticCallee()
						if cal == nil || cal.Pkg == nil {
							return
						}
						p := cal.Pkg.Pkg.Path()
						if p == libMod+"/samehada/samehada_util" || p == libMod+"/container/hash" {
							if strings.HasPrefix(cal.Name(), "Encode") || strings.HasPrefix(cal.Name(), "Hash") || strings.HasPrefix(cal.Name(), "GenHash") {
								set[cal.Name()] = true
							}
						}
						if d < 2 && cal.Pkg.Pkg.Path() == libMod+"/storage/index" {
							visit(cal, d+1)
						}
					})
				}
				visit(f, 0)
				return strings.Join(sortedKeys(set), ",")
			}
			ie, de := enc(get("InsertEntry")), enc(get("DeleteEntry"))
			r.Check(ie == de, nm+":insert-delete-same-key-encoding", "InsertEntry and DeleteEntry derive the container key with the same helpers", fmt.Sprintf("%s: insert uses {%s}, delete uses {%s}", nm, ie, de))
			if canReturn {
				// delete (old) then insert (new): the two halves are the type's DeleteEntry / InsertEntry or their private helpers
				halves := func(m string) map[*types.Func]bool {
					set := map[*types.Func]bool{}
					for _, f := range w.FuncAndHelpers(get(m)) {
						if o, ok := f.Object().(*types.Func); ok {
							set[o] = true
						}
					}
					return set
				}
				delSet, insSet := halves("DeleteEntry"), halves("InsertEntry")
				var inner []*types.Func
				for pass, set := range []map[*types.Func]bool{delSet, insSet} {
					other := insSet
					if pass == 1 {
						other = delSet
					}
					var found *types.Func
					EachCall(upd, func(c ssa.CallInstruction) {
						if o := CalleeObj(c); o != nil && set[o] && !other[o] && found == nil {
							found = o
						}
					})
					if found != nil {
						inner = append(inner, found)
					}
				}
				r.Check(len(inner) == 2, nm+".UpdateEntry:two-halves", "UpdateEntry is built from the type's delete half and insert half", "could not identify a call to the delete half and a call to the insert half")
				if len(inner) == 2 {
					wit := (&PathQ{Fn: upd, Avoid: InstrCallsObj(inner[0]), Target: isReturn}).FromEntry()
					r.Check(wit == nil, nm+".UpdateEntry:deletes-old-entry", "UpdateEntry removes the old entry on every path", "path: "+w.DescribeWitness(upd, wit))
					wit = (&PathQ{Fn: upd, Avoid: InstrCallsObj(inner[1]), Target: isReturn}).FromEntry()
					r.Check(wit == nil, nm+".UpdateEntry:inserts-new-entry", "UpdateEntry inserts the new entry on every path", "path: "+w.DescribeWitness(upd, wit))
					// order: a container refuses or overwrites an entry that is already present, so when the old and the new (key, RID)
					// are the same pair (UPDATE that keeps the indexed value) insert-then-delete removes the row's only entry
					wit = (&PathQ{Fn: upd, Avoid: InstrCallsObj(inner[0]), Target: InstrCallsObj(inner[1])}).FromEntry()
					r.Check(wit == nil, nm+".UpdateEntry:delete-before-insert", "the old entry is removed before the new one is added", "path reaching the insert half with the old entry still present: "+w.DescribeWitness(upd, wit))
					// arguments: delete gets (oldKey, oldRID), insert gets (newKey, newRID)
					for _, s := range sitesCalling(upd, inner[0]) {
						c := s.(*ssa.Call)
						r.Check(c.Call.Args[1] == ssa.Value(upd.Params[1]) && c.Call.Args[2] == ssa.Value(upd.Params[2]), nm+".UpdateEntry:delete-gets-old", "the delete half receives the old key and old RID", "arguments at "+w.InstrPos(s))
					}
					for _, s := range sitesCalling(upd, inner[1]) {
						c := s.(*ssa.Call)
						r.Check(c.Call.Args[1] == ssa.Value(upd.Params[3]) && c.Call.Args[2] == ssa.Value(upd.Params[4]), nm+".UpdateEntry:insert-gets-new", "the insert half receives the new key and new RID", "arguments at "+w.InstrPos(s))
					}
				}
			}
		}
		r.Floor("index implementors", n, 4)
	})
}

// atomicOnly: every address-of of field f (outside constructors) flows only into sync/atomic calls.
func atomicOnly(w *World, r *Report, f *types.Var) {
	n := 0
	for _, fn := range w.RepoFuncs {
		if w.IsTestFunc(fn) {
			continue
		}
		for _, b := range fn.Blocks {
			for _, in := range b.Instrs {
				fa, ok := in.(*ssa.FieldAddr)
				if !ok {
					continue
				}
				sst, ok := derefStruct(fa.X.Type())
				if !ok || sst.Field(fa.Field) != f {
					continue
				}
				n++
				okAll := true
				refs := fa.Referrers()
				if refs == nil || len(*refs) == 0 {
					okAll = false
				} else {
					for _, ref := range *refs {
						c, isCall := ref.(*ssa.Call)
						if !isCall {
							okAll = false
							continue
						}
						o := CalleeObj(c)
						if o == nil || o.Pkg() == nil || o.Pkg().Path() != "sync/atomic" {
							okAll = false
						}
					}
				}
				k := funcKey(topFunc(fn))
				if strings.HasSuffix(k, ".New") || strings.HasSuffix(k, ".NewEmpty") || strings.Contains(k, "BootstrapCatalog") || strings.Contains(k, "RecoveryCatalogFromCatalogPage") {
					continue // composite literal initialisation in the constructor
				}
				r.Check(okAll, "atomic-only:"+f.Name()+":"+k, f.Name()+" is accessed only through sync/atomic", fmt.Sprintf("%s accesses %s non-atomically at %s", k, f.Name(), w.InstrPos(in)))
			}
		}
	}
	r.Floor("accesses of "+f.Name(), n, 2)
}
