package main

// rules_txn.go — commit / abort / logging-discipline rules (C01, C02, C03, C05, C08).

import (
	"fmt"
	"go/constant"
	"go/token"
	"go/types"
	"sort"

	"golang.org/x/tools/go/ssa"
)

// appendSitesOfType finds, inside fn, the AppendLogRecord call instructions whose record argument is
// built (backward slice) by ctor with the LogRecordType constant `typ` as an argument.
func appendSitesOfType(w *World, fn *ssa.Function, typ *types.Const) []ssa.Instruction {
	a := w.A()
	direct := func(in ssa.Instruction) bool {
		c, ok := in.(ssa.CallInstruction)
		if !ok {
			return false
		}
		if o := CalleeObj(c); o == nil || o != a.LMAppend {
			return false
		}
		if _, d := c.(*ssa.Defer); d {
			return false
		}
		args := c.Common().Args
		if len(args) == 0 {
			return false
		}
		return recordHasType(w, args[len(args)-1], typ)
	}
	// a call of a helper that appends such a record on every path counts as the append site
	summ := NewSumm(w, direct, a.assumeLogging())
	summ.MaxDepth = 3
	var out []ssa.Instruction
	for _, b := range fn.Blocks {
		for _, in := range b.Instrs {
			if summ.MustSite(in) {
				out = append(out, in)
			}
		}
	}
	return out
}

// recordHasType: the record value's slice contains a call to a log-record constructor that
// receives the given LogRecordType constant (or, for the fixed-type constructors, is that ctor).
func recordHasType(w *World, rec ssa.Value, typ *types.Const) bool {
	a := w.A()
	want, _ := constant.Int64Val(typ.Val())
	fixed := map[*types.Func]string{a.NewLogRecordDealloc: "DeallocatePage", a.NewLogRecordReuse: "ReusePage", a.NewLogRecordGraceful: "GracefulShutdown"}
	return DependsOn(rec, func(v ssa.Value) bool {
		c, ok := v.(*ssa.Call)
		if !ok {
			return false
		}
		o := CalleeObj(c)
		if o == nil {
			return false
		}
		if n, ok := fixed[o]; ok {
			return n == typ.Name()
		}
		if o != a.NewLogRecordTxn && o != a.NewLogRecordInsertDelete && o != a.NewLogRecordUpdate && o != a.NewLogRecordNewPage {
			return false
		}
		for _, arg := range c.Call.Args {
			if types.Identical(arg.Type(), a.LogRecordType) {
				if cv, ok := constOf(arg); ok {
					if iv, ok := constant.Int64Val(cv); ok && iv == want {
						return true
					}
				}
			}
		}
		return false
	})
}

// readOnlyCut removes the edge on which `len(txn.GetWriteSet()) == 0` holds (read-only commit).
func readOnlyCut(a *Anch) EdgeCut {
	return CutWhen(func(v ssa.Value) bool {
		v = resolveCell(v)
		b, ok := v.(*ssa.BinOp)
		if !ok || b.Op != token.EQL {
			return false
		}
		isZero := func(x ssa.Value) bool {
			c, ok := x.(*ssa.Const)
			if !ok || c.Value == nil {
				return false
			}
			i, ok := constant.Int64Val(c.Value)
			return ok && i == 0
		}
		var other ssa.Value
		if isZero(b.Y) {
			other = b.X
		} else if isZero(b.X) {
			other = b.Y
		} else {
			return false
		}
		call, ok := other.(*ssa.Call)
		if !ok {
			return false
		}
		if bi, ok := call.Call.Value.(*ssa.Builtin); !ok || bi.Name() != "len" {
			return false
		}
		return DependsOn(call.Call.Args[0], IsCallTo(a.TxnGetWriteSet))
	}, true)
}

func isRUnlockOfGlobalLatch(w *World) func(ssa.Instruction) bool {
	latchField := w.Field("storage/access", "TransactionManager", "globalTxnLatch")
	runlock := w.MethodObj("common", "ReaderWriterLatch", "RUnlock")
	return func(in ssa.Instruction) bool {
		c, ok := in.(*ssa.Call)
		if !ok || CalleeObj(c) != runlock {
			return false
		}
		return DependsOn(c.Call.Value, func(v ssa.Value) bool {
			fa, ok := v.(*ssa.FieldAddr)
			if !ok {
				return false
			}
			st, ok := derefStruct(fa.X.Type())
			return ok && st.Field(fa.Field) == latchField
		})
	}
}

func init() {
	reg("C01-R1", "TransactionManager.Commit (writing txn, logging on): every entry->return path appends a COMMIT record and then forces the log (LogManager.Flush) before releaseLocks and before returning", func(w *World, r *Report) {
		a := w.A()
		fn := w.SSA(a.TMCommit)
		cuts := []EdgeCut{a.assumeLogging(), readOnlyCut(a)}
		commitSites := appendSitesOfType(w, fn, w.Const("recovery", "COMMIT"))
		r.Floor("COMMIT append sites in Commit", len(commitSites), 1)
		isCommitAppend := func(in ssa.Instruction) bool {
			for _, s := range commitSites {
				if s == in {
					return true
				}
			}
			return false
		}
		fs := a.flushSumm()
		// (a) entry -> return without COMMIT append
		wit := (&PathQ{Fn: fn, Cut: cuts, Avoid: isCommitAppend, Target: isReturn}).FromEntry()
		r.Check(wit == nil, "Commit:append-COMMIT-on-all-paths", "no return without appending COMMIT", "path without AppendLogRecord(COMMIT): "+w.DescribeWitness(fn, wit))
		// (b) after COMMIT append -> return without Flush
		wit = (&PathQ{Fn: fn, Cut: cuts, Avoid: fs.MustSite, Target: isReturn}).FromAfter(commitSites)
		r.Check(wit == nil, "Commit:flush-after-COMMIT", "no return after the COMMIT append without LogManager.Flush", "path from COMMIT append to return without Flush: "+w.DescribeWitness(fn, wit))
		// (c) entry -> releaseLocks without (COMMIT append then Flush)
		isRelease := InstrCallsObj(a.TMReleaseLocks, a.LMUnlock)
		wit = (&PathQ{Fn: fn, Cut: cuts, Avoid: isCommitAppend, Target: isRelease}).FromEntry()
		r.Check(wit == nil, "Commit:COMMIT-before-release", "locks are not released before the COMMIT record is appended", "path to releaseLocks without COMMIT append: "+w.DescribeWitness(fn, wit))
		wit = (&PathQ{Fn: fn, Cut: cuts, Avoid: fs.MustSite, Target: isRelease}).FromAfter(commitSites)
		r.Check(wit == nil, "Commit:flush-before-release", "locks are not released between COMMIT append and log flush", "path from COMMIT append to releaseLocks without Flush: "+w.DescribeWitness(fn, wit))
		// (d) the flush is not merely conditional on something else than read-only-ness / logging:
		// under the cuts it is unconditional (covered by b). Also record which exempt edges exist.
		nExempt := 0
		for _, b := range fn.Blocks {
			for s := range b.Succs {
				if cuts[1](b, s) {
					nExempt++
				}
			}
		}
		r.Floor("read-only exemption edges recognised", nExempt, 1)
	})

	reg("C05-R2", "Commit/Abort: every entry->return path calls releaseLocks and RUnlocks the global txn latch; in Abort the write-set loop and the ABORT append precede releaseLocks", func(w *World, r *Report) {
		a := w.A()
		isRelease := InstrCallsObj(a.TMReleaseLocks)
		isRUnlock := isRUnlockOfGlobalLatch(w)
		for _, o := range []*types.Func{a.TMCommit, a.TMAbort} {
			fn := w.SSA(o)
			wit := (&PathQ{Fn: fn, Avoid: isRelease, Target: isReturn}).FromEntry()
			r.Check(wit == nil, o.Name()+":releaseLocks-on-all-paths", "no return without releaseLocks", "path: "+w.DescribeWitness(fn, wit))
			wit = (&PathQ{Fn: fn, Avoid: isRUnlock, Target: isReturn}).FromEntry()
			r.Check(wit == nil, o.Name()+":RUnlock-global-latch-on-all-paths", "no return without globalTxnLatch.RUnlock", "path: "+w.DescribeWitness(fn, wit))
			// release happens after the last write-set processing: no path from releaseLocks back to a
			// page mutation / index operation
			var rel []ssa.Instruction
			EachCall(fn, func(c ssa.CallInstruction) {
				if isRelease(c) {
					rel = append(rel, c)
				}
			})
			r.Floor(o.Name()+" releaseLocks sites", len(rel), 1)
			pw := a.pageWriteSumm()
			wit = (&PathQ{Fn: fn, Target: func(in ssa.Instruction) bool { return pw.MaySite(in) }}).FromAfter(rel)
			r.Check(wit == nil, o.Name()+":no-page-write-after-release", "no page mutation after locks were released", "path: "+w.DescribeWitness(fn, wit))
		}
		// releaseLocks itself unlocks shared and exclusive sets
		rl := w.SSA(a.TMReleaseLocks)
		unl := InstrCallsObj(a.LMUnlock)
		wit := (&PathQ{Fn: rl, Avoid: unl, Target: isReturn}).FromEntry()
		r.Check(wit == nil, "releaseLocks:calls-Unlock", "releaseLocks always calls LockManager.Unlock", "path: "+w.DescribeWitness(rl, wit))
		getX := w.MethodObj("storage/access", "Transaction", "GetExclusiveLockSet")
		getS := w.MethodObj("storage/access", "Transaction", "GetSharedLockSet")
		var unlockCall *ssa.Call
		EachCall(rl, func(c ssa.CallInstruction) {
			if cc, ok := c.(*ssa.Call); ok && unl(c) {
				unlockCall = cc
			}
		})
		if unlockCall != nil {
			args := unlockCall.Call.Args
			set := args[len(args)-1]
			r.Check(DependsOn(set, IsCallTo(getX)), "releaseLocks:passes-exclusive-set", "rid list given to Unlock includes the exclusive lock set", "Unlock argument does not depend on GetExclusiveLockSet at "+w.InstrPos(unlockCall))
			r.Check(DependsOn(set, IsCallTo(getS)), "releaseLocks:passes-shared-set", "rid list given to Unlock includes the shared lock set", "Unlock argument does not depend on GetSharedLockSet at "+w.InstrPos(unlockCall))
		}
	})

	reg("C02-R3", "TransactionManager.Abort (logging on): the ABORT record is appended on every path, after the write-set loop (no page mutation after it) and before releaseLocks; every compensation call logs", func(w *World, r *Report) {
		a := w.A()
		fn := w.SSA(a.TMAbort)
		cuts := []EdgeCut{a.assumeLogging()}
		sites := appendSitesOfType(w, fn, w.Const("recovery", "ABORT"))
		r.Floor("ABORT append sites in Abort", len(sites), 1)
		isAbortAppend := func(in ssa.Instruction) bool {
			for _, s := range sites {
				if s == in {
					return true
				}
			}
			return false
		}
		wit := (&PathQ{Fn: fn, Cut: cuts, Avoid: isAbortAppend, Target: isReturn}).FromEntry()
		r.Check(wit == nil, "Abort:append-ABORT-on-all-paths", "no return without appending ABORT", "path: "+w.DescribeWitness(fn, wit))
		wit = (&PathQ{Fn: fn, Cut: cuts, Avoid: isAbortAppend, Target: InstrCallsObj(a.TMReleaseLocks)}).FromEntry()
		r.Check(wit == nil, "Abort:ABORT-before-release", "locks are not released before ABORT is appended", "path: "+w.DescribeWitness(fn, wit))
		pw := a.pageWriteSumm()
		wit = (&PathQ{Fn: fn, Cut: cuts, Target: func(in ssa.Instruction) bool { return pw.MaySite(in) }}).FromAfter(sites)
		r.Check(wit == nil, "Abort:no-page-write-after-ABORT", "no page mutation after the ABORT record", "path: "+w.DescribeWitness(fn, wit))
	})
}

// ordinalIn gives a line-free ordinal ("#k") of a call to obj among the calls to obj in fn (source order).
func ordinalIn(fn *ssa.Function, in ssa.Instruction, obj *types.Func) string {
	var poss []token.Pos
	for _, f := range WithNested(fn) {
		EachCall(f, func(c ssa.CallInstruction) {
			if CalleeObj(c) == obj {
				poss = append(poss, c.Pos())
			}
		})
	}
	sort.Slice(poss, func(i, j int) bool { return poss[i] < poss[j] })
	for i, p := range poss {
		if p == in.Pos() {
			return fmt.Sprintf("#%d", i+1)
		}
	}
	return "#?"
}

func init() {
	reg("C01-R2", "every TablePage mutator (InsertTuple, UpdateTuple, MarkDelete, ApplyDelete, RollbackDelete, Init), logging on: any path that writes page bytes also appends a log record, stamps the page with the returned LSN (SetLSN arg depends on AppendLogRecord result) and chains txn.SetPrevLSN", func(w *World, r *Report) {
		a := w.A()
		pw := a.pageWriteSumm()
		cuts := []EdgeCut{a.assumeLogging()}
		directAppend := InstrCallsObj(a.LMAppend)
		appendSumm := NewSumm(w, directAppend, a.assumeLogging())
		appendSumm.MaxDepth = 3
		isAppend := appendSumm.MustSite // the call itself, or a helper that appends on every path
		// stampOK: after the append site `ap` (in fn) the page LSN and the txn's prevLSN are set from the LSN it
		// returned, on every path to return; for a helper call the helper may do it itself.
		var stampOK func(fn *ssa.Function, ap ssa.Instruction, depth int) (bool, string)
		stampOK = func(fn *ssa.Function, ap ssa.Instruction, depth int) (bool, string) {
			apv, _ := ap.(ssa.Value)
			dependsOnAppend := func(arg ssa.Value) bool {
				return apv != nil && DependsOn(arg, func(v ssa.Value) bool { return v == apv })
			}
			mk := func(obj *types.Func) func(ssa.Instruction) bool {
				return func(in ssa.Instruction) bool {
					c, ok := in.(*ssa.Call)
					if !ok || CalleeObj(c) != obj {
						return false
					}
					args := c.Call.Args
					return dependsOnAppend(args[len(args)-1])
				}
			}
			w1 := (&PathQ{Fn: fn, Cut: cuts, Avoid: mk(a.PageSetLSN), Target: isReturn}).FromAfter([]ssa.Instruction{ap})
			w2 := (&PathQ{Fn: fn, Cut: cuts, Avoid: mk(a.TxnSetPrevLSN), Target: isReturn}).FromAfter([]ssa.Instruction{ap})
			if w1 == nil && w2 == nil {
				return true, ""
			}
			// helper that stamps by itself?
			if c, ok := ap.(ssa.CallInstruction); ok && !directAppend(ap) && depth < 2 {
				all := true
				for _, cal := range w.Callees(c) {
					inner := false
					for _, b := range cal.Blocks {
						for _, in := range b.Instrs {
							if isAppend(in) {
								inner = true
								if ok, _ := stampOK(cal, in, depth+1); !ok {
									all = false
								}
							}
						}
					}
					if !inner {
						all = false
					}
				}
				if all {
					return true, ""
				}
			}
			if w1 != nil {
				return false, "page LSN not set from the appended record's LSN: " + w.DescribeWitness(fn, w1)
			}
			return false, "txn.prevLSN not chained to the appended record's LSN: " + w.DescribeWitness(fn, w2)
		}
		// prevLSNInRecord: the record appended at `ap` is built from txn.GetPrevLSN()
		var prevInRecord func(fn *ssa.Function, ap ssa.Instruction, depth int) bool
		prevInRecord = func(fn *ssa.Function, ap ssa.Instruction, depth int) bool {
			c := ap.(ssa.CallInstruction)
			if directAppend(ap) {
				rec := c.Common().Args[len(c.Common().Args)-1]
				return DependsOn(rec, IsCallTo(a.TxnGetPrevLSN))
			}
			if depth >= 2 {
				return false
			}
			for _, cal := range w.Callees(c) {
				for _, b := range cal.Blocks {
					for _, in := range b.Instrs {
						if isAppend(in) && !prevInRecord(cal, in, depth+1) {
							return false
						}
					}
				}
			}
			return true
		}
		n := 0
		for _, o := range []*types.Func{a.TPInsert, a.TPUpdate, a.TPMarkDelete, a.TPApplyDelete, a.TPRollbackDelete, a.TPInit} {
			fn := w.SSA(o)
			name := "TablePage." + o.Name()
			var writes, appends []ssa.Instruction
			for _, b := range fn.Blocks {
				for _, in := range b.Instrs {
					if isAppend(in) {
						appends = append(appends, in)
						continue
					}
					if c, ok := in.(ssa.CallInstruction); ok {
						if oo := CalleeObj(c); oo == a.PageSetLSN {
							continue
						}
					}
					if pw.MaySite(in) {
						writes = append(writes, in)
					}
				}
			}
			r.Floor(name+" page-write sites", len(writes), 1)
			r.Floor(name+" AppendLogRecord sites", len(appends), 1)
			n++
			bad := ""
			for _, wr := range writes {
				pre := (&PathQ{Fn: fn, Cut: cuts, Avoid: isAppend, Target: func(in ssa.Instruction) bool { return in == wr }}).FromEntry()
				if pre == nil {
					continue
				}
				post := (&PathQ{Fn: fn, Cut: cuts, Avoid: isAppend, Target: isReturn}).FromAfter([]ssa.Instruction{wr})
				if post != nil {
					bad = fmt.Sprintf("page write at %s [%s] lies on a path with no AppendLogRecord: %s ; then %s", w.InstrPos(wr), instrShort(wr), w.DescribeWitness(fn, pre), w.DescribeWitness(fn, post))
					break
				}
			}
			r.Check(bad == "", name+":every-page-write-is-logged", "no entry->return path writes page bytes without appending a log record", bad)
			for i, ap := range appends {
				k := fmt.Sprintf("#%d", i+1)
				ok, why := stampOK(fn, ap, 0)
				r.Check(ok, name+":SetLSN-after-append"+k, "page LSN and txn.prevLSN are set from the LSN returned by AppendLogRecord on every path", why)
				r.Check(prevInRecord(fn, ap, 0), name+":record-carries-prevLSN"+k, "the appended record is built from txn.GetPrevLSN()", "record appended at "+w.InstrPos(ap)+" does not depend on txn.GetPrevLSN()")
			}
		}
		r.Floor("TablePage mutators", n, 6)
	})
}
