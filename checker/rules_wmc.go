package main

// rules_wmc.go — who-may-call / who-may-write rules (ownership and layering).

import (
	"go/token"
	"fmt"
	"go/types"
	"sort"
	"strings"

	"golang.org/x/tools/go/ssa"
)

// family returns obj plus, when obj is an interface method, the same-named method of every repo
// type implementing the interface (and vice versa: for a concrete method, the interface methods of
// repo interfaces it implements are NOT added — callers through an interface are found through the
// call graph instead).
func (w *World) family(obj *types.Func) map[*types.Func]bool {
	out := map[*types.Func]bool{obj: true}
	sig := obj.Type().(*types.Signature)
	if sig.Recv() == nil {
		return out
	}
	rt := sig.Recv().Type()
	if p, ok := rt.(*types.Pointer); ok {
		rt = p.Elem()
	}
	n, ok := rt.(*types.Named)
	if !ok || !types.IsInterface(n) {
		return out
	}
	for _, impl := range w.Implementors(n) {
		o, _, _ := types.LookupFieldOrMethod(types.NewPointer(impl), true, impl.Obj().Pkg(), obj.Name())
		if f, ok := o.(*types.Func); ok {
			out[f] = true
		}
	}
	return out
}

func topFunc(f *ssa.Function) *ssa.Function {
	for f.Parent() != nil {
		f = f.Parent()
	}
	return f
}

type wmcSite struct {
	Caller *ssa.Function // top-level function containing the call
	In     ssa.Instruction
	Target string
}

// whoCalls finds every call instruction in non-test repo code that names a target object or whose
// call-graph callees include a target's SSA function.
func (w *World) whoCalls(targets map[*types.Func]bool) []wmcSite {
	tfn := map[*ssa.Function]*types.Func{}
	for o := range targets {
		if f := w.Prog.FuncValue(o); f != nil {
			tfn[f] = o
		}
	}
	var out []wmcSite
	for _, fn := range w.RepoFuncs {
		if w.IsTestFunc(fn) {
			continue
		}
		EachCall(fn, func(c ssa.CallInstruction) {
			if o := CalleeObj(c); o != nil && (targets[o] || targets[o.Origin()]) {
				out = append(out, wmcSite{topFunc(fn), c, o.FullName()})
				return
			}
			if c.Common().StaticCallee() != nil {
				return
			}
			for _, cal := range w.Callees(c) {
				if o, ok := tfn[cal]; ok {
					out = append(out, wmcSite{topFunc(fn), c, o.FullName()})
					return
				}
			}
		})
		// method values / function values: a target referenced without being called
		for _, b := range fn.Blocks {
			for _, in := range b.Instrs {
				if _, isCall := in.(ssa.CallInstruction); isCall {
					continue
				}
				for _, op := range in.Operands(nil) {
					if op == nil || *op == nil {
						continue
					}
					if f, ok := (*op).(*ssa.Function); ok {
						if o, ok := tfn[f]; ok {
							out = append(out, wmcSite{topFunc(fn), in, o.FullName() + " (as value)"})
						}
					}
					if mc, ok := (*op).(*ssa.MakeClosure); ok {
						if f, ok := mc.Fn.(*ssa.Function); ok && strings.HasSuffix(f.Name(), "$bound") {
							// bound method closure
							if fo, ok := f.Object().(*types.Func); ok && targets[fo] {
								out = append(out, wmcSite{topFunc(fn), in, fo.FullName() + " (bound method value)"})
							}
						}
					}
				}
			}
		}
	}
	return out
}

// ownersOfHelper: for a private helper (unexported, top-level, never used as a value), the functions that reach
// it through private helpers of the same package only; stop(k) says that a caller is an owner in its own right.
// ok=false when fn is not a private helper, has no caller, or the chain is deeper than depth.
func (w *World) ownersOfHelper(fn *ssa.Function, depth int, stop func(string) bool) ([]string, bool) {
	set := map[string]bool{}
	seen := map[*ssa.Function]bool{}
	var walk func(f *ssa.Function, d int) bool
	walk = func(f *ssa.Function, d int) bool {
		if f == nil {
			return false
		}
		if seen[f] {
			return true
		}
		seen[f] = true
		if d < 0 || token.IsExported(f.Name()) || f.Pkg == nil || !isRepoPath(f.Pkg.Pkg.Path()) || f.Parent() != nil || w.usedAsValue(f) {
			return false
		}
		n := 0
		for _, c := range w.Callers(f) {
			top := topFunc(c.Caller)
			if w.IsTestFunc(top) || (top.Synthetic != "" && len(w.Callers(top)) == 0) {
				continue // tests; uncalled promoted-method wrappers of embedding types
			}
			n++
			if top.Pkg != f.Pkg {
				return false
			}
			k := funcKey(top)
			if stop(k) || token.IsExported(top.Name()) {
				set[k] = true
				continue
			}
			if !walk(top, d-1) {
				set[k] = true // not a helper itself: it is the owner
			}
		}
		return n > 0
	}
	if !walk(fn, depth) {
		return nil, false
	}
	out := sortedKeys(set)
	return out, len(out) > 0
}

// usedAsValue: fn is referenced other than as the static callee of a call (function value, method value, go/defer of a closure…)
func (w *World) usedAsValue(fn *ssa.Function) bool {
	if w.valueUse == nil {
		w.valueUse = map[*ssa.Function]bool{}
		for _, f := range w.RepoFuncs {
			for _, b := range f.Blocks {
				for _, in := range b.Instrs {
					var callee ssa.Value
					if c, ok := in.(ssa.CallInstruction); ok {
						callee = c.Common().Value
					}
					for _, op := range in.Operands(nil) {
						if op == nil || *op == nil || *op == callee {
							continue
						}
						switch x := (*op).(type) {
						case *ssa.Function:
							w.valueUse[x] = true
						case *ssa.MakeClosure:
							if g, ok := x.Fn.(*ssa.Function); ok && strings.HasSuffix(g.Name(), "$bound") {
								if o, ok := g.Object().(*types.Func); ok {
									if tf := w.Prog.FuncValue(o); tf != nil {
										w.valueUse[tf] = true
									}
								}
							}
						}
					}
				}
			}
		}
	}
	return w.valueUse[fn]
}

// wmc checks that all callers of the targets are in the allow-list (keys: funcKey of the top-level
// caller; value: one-line reason). Also checks the server module's uses.
func wmc(w *World, r *Report, what string, targets map[*types.Func]bool, allow map[string]string, minSites int) {
	sites := w.whoCalls(targets)
	used := map[string]bool{}
	bad := map[string][]string{}
	for _, s := range sites {
		k := funcKey(s.Caller)
		if _, ok := allow[k]; ok {
			used[k] = true
			continue
		}
		// a private helper belongs to its callers: the site is attributed to every function that (transitively,
		// through unexported functions of the same package) calls the helper; all of them must be allowed
		if owners, ok := w.ownersOfHelper(s.Caller, 3, func(k string) bool { _, ok := allow[k]; return ok }); ok {
			all := true
			for _, o := range owners {
				if _, ok := allow[o]; !ok {
					all = false
				}
			}
			if all {
				for _, o := range owners {
					used[o] = true
				}
				r.Note(what+":via-helper:"+k, "call site sits in a private helper whose callers are all allowed", k+" <- "+strings.Join(owners, ", "))
				continue
			}
		}
		bad[k] = append(bad[k], w.InstrPos(s.In)+" -> "+s.Target)
	}
	r.Floor(what+" call sites", len(sites), minSites)
	var ks []string
	for k := range allow {
		ks = append(ks, k)
	}
	sort.Strings(ks)
	for _, k := range ks {
		if used[k] {
			r.Ok(what+":allowed-caller:"+k, "allowed caller ("+allow[k]+")")
		} else {
			r.Note(what+":allowed-caller-unused:"+k, "allow-list entry has no call site on this tree", allow[k])
		}
	}
	var bk []string
	for k := range bad {
		bk = append(bk, k)
	}
	sort.Strings(bk)
	for _, k := range bk {
		r.Bad(what+":caller:"+k, "only the listed owners may call "+what, fmt.Sprintf("%s calls it at %s", k, strings.Join(bad[k], "; ")))
	}
	// server module
	for o := range targets {
		if pos := w.ServerUses()[o.FullName()]; len(pos) > 0 {
			r.Bad(what+":caller:server", "only the listed owners may call "+what, "server module uses "+o.FullName()+" at "+strings.Join(pos, ", "))
		}
	}
	r.Ok(what+":server-module-clean", "the server module does not reference "+what)
}

// fieldWriters: functions (top-level) that write struct field fld (store, map update, delete,
// element store through the field's slice/map).
func (w *World) fieldWriters(fld *types.Var, kinds map[string]bool) map[string][]string {
	out := map[string][]string{}
	isFldAddr := func(v ssa.Value) bool { return isFieldAddrOf(v, fld) }
	isFldLoad := func(v ssa.Value) bool { return fieldLoadOf(v, fld) }
	for _, fn := range w.RepoFuncs {
		if w.IsTestFunc(fn) {
			continue
		}
		for _, b := range fn.Blocks {
			for _, in := range b.Instrs {
				kind := ""
				switch x := in.(type) {
				case *ssa.Store:
					if isFldAddr(x.Addr) {
						kind = "store"
					} else if ia, ok := x.Addr.(*ssa.IndexAddr); ok && isFldLoad(ia.X) {
						kind = "elemstore"
					}
				case *ssa.MapUpdate:
					if isFldLoad(x.Map) {
						kind = "mapupdate"
					}
				case *ssa.Call:
					if bi, ok := x.Call.Value.(*ssa.Builtin); ok && bi.Name() == "delete" && isFldLoad(x.Call.Args[0]) {
						kind = "delete"
					}
				}
				if kind != "" && (kinds == nil || kinds[kind]) {
					k := funcKey(topFunc(fn))
					out[k] = append(out[k], kind+"@"+w.InstrPos(in))
				}
			}
		}
	}
	return out
}

func wmw(w *World, r *Report, what string, fld *types.Var, kinds map[string]bool, allow map[string]string, minWriters int) {
	ws := w.fieldWriters(fld, kinds)
	r.Floor(what+" writers", len(ws), minWriters)
	var ks []string
	for k := range ws {
		ks = append(ks, k)
	}
	sort.Strings(ks)
	for _, k := range ks {
		if reason, ok := allow[k]; ok {
			r.Ok(what+":allowed-writer:"+k, "allowed writer ("+reason+")")
		} else if owners, ok := w.ownersOfHelper(w.fnByKey(k), 3, func(k string) bool { _, ok := allow[k]; return ok }); ok && allIn(owners, allow) {
			r.Note(what+":via-helper:"+k, "the write sits in a private helper whose callers are all allowed writers", k+" <- "+strings.Join(owners, ", "))
		} else {
			r.Bad(what+":writer:"+k, "only the listed owners may write "+what, k+" writes it: "+strings.Join(ws[k], ", "))
		}
	}
	if pos := w.ServerUses()["field "+fld.Pkg().Path()+"."+fld.Name()]; len(pos) > 0 {
		r.Bad(what+":writer:server", "server module touches "+what, strings.Join(pos, ","))
	}
}

func init() {
	reg("C01-R6", "only LogManager.Flush writes the log file (DiskManager.WriteLog); only NewSamehadaDB truncates it (GCLogFile); only the buffer pool (plus one frozen recovery-time exception) writes data pages (DiskManager.WritePage)", func(w *World, r *Report) {
		a := w.A()
		wmc(w, r, "DiskManager.WriteLog", w.family(a.DMWriteLog), map[string]string{
			"(*recovery.LogManager).Flush": "the single durability point of the log",
		}, 1)
		wmc(w, r, "DiskManager.GCLogFile", w.family(a.DMGCLogFile), map[string]string{
			"samehada.NewSamehadaDB": "log truncation after recovery",
		}, 1)
		wmc(w, r, "DiskManager.WritePage", w.family(a.DMWritePage), map[string]string{
			"(*storage/buffer.BufferPoolManager).FetchPage": "victim write-back",
			"(*storage/buffer.BufferPoolManager).NewPage":   "victim write-back",
			"(*storage/buffer.BufferPoolManager).FlushPage": "explicit flush",
			"samehada.reconstructIndexDataOfATbl":           "zeroes hash-index block pages at recovery time, before they are fetched (unlogged index pages)",
			"(*recovery/log_recovery.LogRecovery).Redo":     "puts an empty page on the data file for a NewTablePage record whose page was never written before the crash (the page is not resident: FetchPage just failed); C01-R9 checks the shape",
		}, 4)
		wmc(w, r, "DiskManager.RemoveLogFile/RemoveDBFile", mergeSets(w.family(w.MethodObj("storage/disk", "DiskManager", "RemoveLogFile")), w.family(w.MethodObj("storage/disk", "DiskManager", "RemoveDBFile"))), map[string]string{
			"(*samehada.SamehadaInstance).Shutdown":        "ShutdownPatternRemoveFiles (explicit request to drop the database)",
			"(*storage/disk.DiskManagerImpl).GCLogFile":      "truncation is implemented as remove + re-create (GCLogFile's own callers are checked above)",
			"(*storage/disk.VirtualDiskManagerImpl).GCLogFile": "same, in-memory variant",
		}, 2)
	})

	reg("C13-R5", "no page I/O bypasses the buffer pool: DiskManager.ReadPage/WritePage/AllocatePage are called only from package buffer (plus the frozen recovery-time exception)", func(w *World, r *Report) {
		a := w.A()
		wmc(w, r, "DiskManager.ReadPage", w.family(a.DMReadPage), map[string]string{
			"(*storage/buffer.BufferPoolManager).FetchPage": "page-in",
		}, 1)
		wmc(w, r, "DiskManager.AllocatePage", w.family(a.DMAllocatePage), map[string]string{
			"(*storage/buffer.BufferPoolManager).NewPage": "page id allocation",
		}, 1)
		wmc(w, r, "DiskManager.WritePage", w.family(a.DMWritePage), map[string]string{
			"(*storage/buffer.BufferPoolManager).FetchPage": "victim write-back",
			"(*storage/buffer.BufferPoolManager).NewPage":   "victim write-back",
			"(*storage/buffer.BufferPoolManager).FlushPage": "explicit flush",
			"samehada.reconstructIndexDataOfATbl":           "zeroes hash-index block pages at recovery time, before they are fetched",
			"(*recovery/log_recovery.LogRecovery).Redo":     "materialises a page that was allocated but never written before the crash (not resident); C01-R9 checks the shape",
		}, 4)
	})

	reg("C05-R1", "strict 2PL ownership: LockManager.Unlock is called only by TransactionManager.releaseLocks, which only Commit and Abort call; lock-table entries shrink only inside Unlock; transaction lock sets are written only by the LockManager grant paths", func(w *World, r *Report) {
		a := w.A()
		wmc(w, r, "LockManager.Unlock", map[*types.Func]bool{a.LMUnlock: true}, map[string]string{
			"(*storage/access.TransactionManager).releaseLocks": "end of transaction",
		}, 1)
		wmc(w, r, "TransactionManager.releaseLocks", map[*types.Func]bool{a.TMReleaseLocks: true}, map[string]string{
			"(*storage/access.TransactionManager).Commit": "after the commit record is durable",
			"(*storage/access.TransactionManager).Abort":  "after rollback",
		}, 2)
		wmc(w, r, "LockManager.ClearLockTablesForDebug", map[*types.Func]bool{w.MethodObj("storage/access", "LockManager", "ClearLockTablesForDebug"): true}, map[string]string{}, 0)
		xt := w.Field("storage/access", "LockManager", "exclusiveLockTable")
		st := w.Field("storage/access", "LockManager", "sharedLockTable")
		shrink := map[string]bool{"delete": true, "store": true}
		wmw(w, r, "LockManager.exclusiveLockTable (delete/replace)", xt, shrink, map[string]string{
			"(*storage/access.LockManager).Unlock":                  "release at transaction end",
			"(*storage/access.LockManager).ClearLockTablesForDebug": "debug helper without non-test callers (checked above)",
			"storage/access.NewLockManager":                         "constructor",
		}, 2)
		wmw(w, r, "LockManager.sharedLockTable (delete/replace)", st, shrink, map[string]string{
			"(*storage/access.LockManager).ClearLockTablesForDebug": "debug helper without non-test callers (checked above)",
			"storage/access.NewLockManager":                         "constructor",
		}, 1)
		// shared table entries are rewritten (map update) by LockShared (grow) and Unlock (shrink) only
		wmw(w, r, "LockManager.sharedLockTable (entry update)", st, map[string]bool{"mapupdate": true}, map[string]string{
			"(*storage/access.LockManager).LockShared": "grant",
			"(*storage/access.LockManager).Unlock":     "release at transaction end",
		}, 2)
		wmw(w, r, "LockManager.exclusiveLockTable (entry update)", xt, map[string]bool{"mapupdate": true}, map[string]string{
			"(*storage/access.LockManager).LockExclusive": "grant",
			"(*storage/access.LockManager).LockUpgrade":   "grant",
		}, 2)
		wmc(w, r, "Transaction.SetSharedLockSet", map[*types.Func]bool{w.MethodObj("storage/access", "Transaction", "SetSharedLockSet"): true}, map[string]string{
			"(*storage/access.LockManager).LockShared": "grant",
		}, 1)
		wmc(w, r, "Transaction.SetExclusiveLockSet", map[*types.Func]bool{w.MethodObj("storage/access", "Transaction", "SetExclusiveLockSet"): true}, map[string]string{
			"(*storage/access.LockManager).LockExclusive": "grant",
			"(*storage/access.LockManager).LockUpgrade":   "grant",
		}, 2)
		wmw(w, r, "Transaction.sharedLockSet", w.Field("storage/access", "Transaction", "sharedLockSet"), nil, map[string]string{
			"(*storage/access.Transaction).SetSharedLockSet": "setter (callers checked above)",
			"storage/access.NewTransaction":                  "constructor",
		}, 1)
		wmw(w, r, "Transaction.exclusiveLockSet", w.Field("storage/access", "Transaction", "exclusiveLockSet"), nil, map[string]string{
			"(*storage/access.Transaction).SetExclusiveLockSet": "setter (callers checked above)",
			"storage/access.NewTransaction":                     "constructor",
		}, 1)
	})

	reg("C03-R4", "the write set of a transaction is written only by AddIntoWriteSet (heap mutators) and SetWriteSet (Commit/Abort consuming it)", func(w *World, r *Report) {
		a := w.A()
		wmw(w, r, "Transaction.writeSet", w.Field("storage/access", "Transaction", "writeSet"), nil, map[string]string{
			"(*storage/access.Transaction).AddIntoWriteSet": "append",
			"(*storage/access.Transaction).SetWriteSet":     "setter (callers checked below)",
			"storage/access.NewTransaction":                 "constructor",
		}, 2)
		wmc(w, r, "Transaction.SetWriteSet", map[*types.Func]bool{a.TxnSetWriteSet: true}, map[string]string{
			"(*storage/access.TransactionManager).Commit": "consumes the set",
			"(*storage/access.TransactionManager).Abort":  "consumes the set",
		}, 2)
		wmc(w, r, "Transaction.AddIntoWriteSet", map[*types.Func]bool{a.TxnAddWriteSet: true}, map[string]string{
			"(*storage/access.TableHeap).InsertTuple": "records INSERT",
			"(*storage/access.TableHeap).UpdateTuple": "records UPDATE",
			"(*storage/access.TableHeap).MarkDelete":  "records DELETE",
		}, 3)
	})

	reg("C04-R5", "index entries of deleted rows are removed only at commit (and inserted entries removed only at abort): Index.DeleteEntry is called only from TransactionManager.Commit/Abort and the wrappers' own UpdateEntry", func(w *World, r *Report) {
		idx := w.Named("storage/index", "Index")
		del := w.MethodObj("storage/index", "Index", "DeleteEntry")
		allow := map[string]string{
			"(*storage/access.TransactionManager).Commit": "deferred delete at commit",
			"(*storage/access.TransactionManager).Abort":  "rollback of an insert",
		}
		for _, impl := range w.Implementors(idx) {
			allow["(*"+strings.TrimPrefix(impl.String(), libMod+"/")+").UpdateEntry"] = "wrapper-internal delete+insert"
		}
		wmc(w, r, "Index.DeleteEntry", w.family(del), allow, 2)
	})
}

func mergeSets(a, b map[*types.Func]bool) map[*types.Func]bool {
	out := map[*types.Func]bool{}
	for k := range a {
		out[k] = true
	}
	for k := range b {
		out[k] = true
	}
	return out
}

func allIn(ks []string, allow map[string]string) bool {
	for _, k := range ks {
		if _, ok := allow[k]; !ok {
			return false
		}
	}
	return len(ks) > 0
}

func (w *World) fnByKey(k string) *ssa.Function {
	if w.byKey == nil {
		w.byKey = map[string]*ssa.Function{}
		for _, f := range w.RepoFuncs {
			if f.Parent() == nil {
				w.byKey[funcKey(f)] = f
			}
		}
	}
	return w.byKey[k]
}
