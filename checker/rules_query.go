package main

// rules_query.go — planner / executor / request-manager structure (C03, C04-R4, C06, C07-R1, C11, C12).

import (
	"fmt"
	"go/constant"
	"go/token"
	"go/types"
	"sort"
	"strings"

	"golang.org/x/tools/go/ssa"
)

// typeSwitchCases: the types asserted (comma-ok or switch) inside fn.
func typeSwitchCases(fn *ssa.Function) map[string]bool {
	out := map[string]bool{}
	for _, b := range fn.Blocks {
		for _, in := range b.Instrs {
			if ta, ok := in.(*ssa.TypeAssert); ok {
				out[ta.AssertedType.String()] = true
			}
		}
	}
	return out
}

// specTypeCut specialises type switches on values satisfying isSubject to dynamic type T.
func specTypeCut(isSubject func(ssa.Value) bool, T types.Type) EdgeCut {
	return func(b *ssa.BasicBlock, succ int) bool {
		i := blockIf(b)
		if i == nil {
			return false
		}
		v, neg := condBase(i.Cond)
		e, ok := v.(*ssa.Extract)
		if !ok || e.Index != 1 {
			return false
		}
		ta, ok := e.Tuple.(*ssa.TypeAssert)
		if !ok || !ta.CommaOk || !isSubject(ta.X) {
			return false
		}
		holds := types.Identical(ta.AssertedType, T)
		condVal := holds != neg
		if condVal {
			return succ == 1
		}
		return succ == 0
	}
}

func ifDependsOn(pred func(ssa.Value) bool) func(ssa.Instruction) bool {
	return func(in ssa.Instruction) bool {
		i, ok := in.(*ssa.If)
		return ok && DependsOn(i.Cond, pred)
	}
}

func init() {
	reg("C06-R1", "exhaustiveness of the query pipeline: every concrete plans.Plan type has a case in ExecutionEngine.CreateExecutor; every parser.QueryType in SimplePlanner.MakePlan; every ComparisonType in Comparison.performComparison and optimizer Range.Update; every LogicalOpType in LogicalOp evaluation", func(w *World, r *Report) {
		planI := w.Named("execution/plans", "Plan")
		cases := typeSwitchCases(w.Fn("execution/executors", "ExecutionEngine", "CreateExecutor"))
		n := 0
		for _, impl := range w.Implementors(planI) {
			if impl.Obj().Name() == "AbstractPlanNode" {
				continue
			}
			n++
			key := types.NewPointer(impl).String()
			r.Check(cases[key], "CreateExecutor:case:"+impl.Obj().Name(), "CreateExecutor has a case for plan node "+impl.Obj().Name(), "no case for "+key+": the engine would return a nil executor")
		}
		r.Floor("plan node types", n, 10)
		check := func(what string, enumT *types.Named, fns []*ssa.Function, subj func(ssa.Value) bool, skip map[string]bool, floor int) {
			enum := enumConsts(w, enumT)
			set := map[int64]bool{}
			for _, f := range fns {
				for v := range caseSet(f, subj) {
					set[v] = true
				}
			}
			var vals []int64
			for v := range enum {
				vals = append(vals, v)
			}
			sort.Slice(vals, func(i, j int) bool { return vals[i] < vals[j] })
			k := 0
			for _, v := range vals {
				if skip[enum[v].Name()] {
					continue
				}
				k++
				r.Check(set[v], what+":case:"+enum[v].Name(), what+" handles "+enum[v].Name(), "no case for "+enum[v].Name()+" (cases: "+constNames(enum, set)+")")
			}
			r.Floor(what+" enum members", k, floor)
		}
		qtFld := w.Field("parser", "QueryInfo", "QueryType")
		check("SimplePlanner.MakePlan", w.Named("parser", "QueryType"), []*ssa.Function{w.Fn("planner", "SimplePlanner", "MakePlan")},
			func(v ssa.Value) bool {
				u, ok := stripConv(v).(*ssa.UnOp)
				return ok && u.Op == token.MUL && fieldLoadOf(u.X, qtFld)
			}, nil, 5)
		ctFld := w.Field("execution/expression", "Comparison", "comparisonType")
		check("Comparison.performComparison", w.Named("execution/expression", "ComparisonType"), []*ssa.Function{w.Fn("execution/expression", "Comparison", "performComparison")},
			func(v ssa.Value) bool { return fieldLoadOf(v, ctFld) }, nil, 6)
		upd := w.Fn("planner/optimizer", "Range", "Update")
		var opParam *ssa.Parameter
		for _, p := range upd.Params {
			if p.Name() == "op" {
				opParam = p
			}
		}
		if opParam == nil {
			fatalf("Range.Update has no op parameter")
		}
		check("Range.Update", w.Named("execution/expression", "ComparisonType"), []*ssa.Function{upd},
			func(v ssa.Value) bool { return resolveCell(stripConv(v)) == ssa.Value(opParam) }, nil, 6)
		loFld := w.Field("execution/expression", "LogicalOp", "logicalOpType")
		check("LogicalOp evaluation", w.Named("execution/expression", "LogicalOpType"), []*ssa.Function{w.Fn("execution/expression", "LogicalOp", "performLogicalOp"), w.Fn("execution/expression", "LogicalOp", "Evaluate")},
			func(v ssa.Value) bool { return fieldLoadOf(v, loFld) }, nil, 3)
		// predicates with OR are routed to the sequential scan (the optimizer panics on OR): MakeSelectPlan branches on it
	})

	reg("C06-R2", "index range derivation: every store to Range.Min/Max in Range.Update is either guarded by a comparison with the old bound (a conjunct may only intersect the range) or recorded in an accumulating Range field that findBestScan consults before it emits a range scan without the residual selection", func(w *World, r *Report) {
		upd := w.Fn("planner/optimizer", "Range", "Update")
		fbs := w.Fn("planner/optimizer", "SelingerOptimizer", "findBestScan")
		rangeT := w.Named("planner/optimizer", "Range").Underlying().(*types.Struct)
		minF := w.Field("planner/optimizer", "Range", "Min")
		maxF := w.Field("planner/optimizer", "Range", "Max")
		// accumulating stores in Update: store to field F whose value depends on a load of F
		acc := map[*types.Var][]ssa.Instruction{}
		for _, b := range upd.Blocks {
			for _, in := range b.Instrs {
				st, ok := in.(*ssa.Store)
				if !ok {
					continue
				}
				fa, ok := st.Addr.(*ssa.FieldAddr)
				if !ok {
					continue
				}
				sst, ok := derefStruct(fa.X.Type())
				if !ok || sst != rangeT {
					continue
				}
				f := sst.Field(fa.Field)
				if DependsOn(st.Val, func(v ssa.Value) bool { return fieldLoadOf(v, f) }) {
					acc[f] = append(acc[f], in)
				}
			}
		}
		// which accumulating fields does findBestScan consult on the way to a bare range scan?
		newRange := w.FuncObj("execution/plans", "NewRangeScanWithIndexPlanNode")
		newSel := w.FuncObj("execution/plans", "NewSelectionPlanNode")
		rsSites := sitesCalling(fbs, newRange)
		r.Floor("NewRangeScanWithIndexPlanNode sites in findBestScan", len(rsSites), 1)
		consulted := map[*types.Var]bool{}
		for f := range acc {
			ff := f
			isIfOnF := ifDependsOn(func(v ssa.Value) bool { return fieldLoadOf(v, ff) })
			// every path from the range-scan creation to the cost comparison (AccessRowCount call) avoids neither selection nor the If on F
			acObj := w.MethodObj("execution/plans", "Plan", "AccessRowCount")
			wit := (&PathQ{Fn: fbs, Avoid: func(in ssa.Instruction) bool { return isIfOnF(in) || InstrCallsObj(newSel)(in) }, Target: func(in ssa.Instruction) bool {
				c, ok := in.(ssa.CallInstruction)
				return ok && CalleeObj(c) == acObj
			}}).FromAfter(rsSites)
			if wit == nil {
				consulted[f] = true
			}
		}
		n := 0
		for _, b := range upd.Blocks {
			for _, in := range b.Instrs {
				st, ok := in.(*ssa.Store)
				if !ok {
					continue
				}
				var f *types.Var
				if isFieldAddrOf(st.Addr, minF) {
					f = minF
				} else if isFieldAddrOf(st.Addr, maxF) {
					f = maxF
				} else {
					continue
				}
				n++
				ff := f
				guarded := (&PathQ{Fn: upd, Avoid: ifDependsOn(func(v ssa.Value) bool { return fieldLoadOf(v, ff) }), Target: func(x ssa.Instruction) bool { return x == in }}).FromEntry() == nil
				recorded := false
				for af, sites := range acc {
					if !consulted[af] {
						continue
					}
					isAcc := func(x ssa.Instruction) bool {
						for _, s := range sites {
							if s == x {
								return true
							}
						}
						return false
					}
					if (&PathQ{Fn: upd, Avoid: isAcc, Target: func(x ssa.Instruction) bool { return x == in }}).FromEntry() == nil {
						recorded = true
					}
				}
				key := fmt.Sprintf("Range.Update:store-%s%s", f.Name(), storeOrdinal(upd, in, f))
				r.Check(guarded || recorded, key, "the bound is only intersected, or the update is recorded so that the planner keeps the residual predicate", fmt.Sprintf("store to r.%s at %s overwrites the bound unconditionally and no accumulating field consulted by findBestScan records it: a redundant conjunct (a >= 10 AND a >= 5) widens the scan and the index plan returns rows outside the predicate", f.Name(), w.InstrPos(in)))
			}
		}
		r.Floor("stores to Range.Min/Max in Range.Update", n, 6)
		// a bare range scan is emitted only behind the inclusive-bounds test as well
		{
			fmin := w.Field("planner/optimizer", "Range", "MinInclusive")
			fmax := w.Field("planner/optimizer", "Range", "MaxInclusive")
			acObj := w.MethodObj("execution/plans", "Plan", "AccessRowCount")
			wit := (&PathQ{Fn: fbs, Avoid: func(in ssa.Instruction) bool {
				return ifDependsOn(func(v ssa.Value) bool { return fieldLoadOf(v, fmin) || fieldLoadOf(v, fmax) })(in) || InstrCallsObj(newSel)(in)
			}, Target: func(in ssa.Instruction) bool {
				c, ok := in.(ssa.CallInstruction)
				return ok && CalleeObj(c) == acObj
			}}).FromAfter(rsSites)
			r.Check(wit == nil, "findBestScan:bare-range-scan-needs-inclusive-test", "a range scan without residual selection is emitted only after testing the inclusiveness of the bounds", "path: "+w.DescribeWitness(fbs, wit))
			nIncl := 0
			for _, b := range fbs.Blocks {
				if ifDependsOn(func(v ssa.Value) bool { return fieldLoadOf(v, fmin) })(b.Instrs[len(b.Instrs)-1]) {
					nIncl++
				}
				if ifDependsOn(func(v ssa.Value) bool { return fieldLoadOf(v, fmax) })(b.Instrs[len(b.Instrs)-1]) {
					nIncl++
				}
			}
			r.Floor("branches on MinInclusive/MaxInclusive in findBestScan", nIncl, 2)
		}
		// the residual predicate handed to the selection is the conjunction of all related conjuncts (scanExp), not nil
		for _, s := range sitesCalling(fbs, newSel) {
			c := s.(*ssa.Call)
			appendCond := w.FuncObj("execution/expression", "AppendLogicalCondition")
			conv := w.FuncObj("parser", "ConvParsedBinaryOpExprToExpIFOne")
			r.Check(DependsOn(c.Call.Args[1], IsCallTo(appendCond, conv)), "findBestScan:selection-uses-scanExp"+ordinalIn(fbs, s, newSel), "the residual selection evaluates the converted WHERE conjuncts", "predicate argument at "+w.InstrPos(s)+" is not built from the WHERE conjuncts")
		}
	})

	reg("C04-R4", "index scans re-validate the fetched row against the scanned key: in PointScanWithIndexExecutor.Init a row is kept, and in RangeScanWithIndexExecutor.Next (per index kind) a row is returned, only after a branch on CompareEquals(key)", func(w *World, r *Report) {
		cmpEq := w.MethodObj("types", "Value", "CompareEquals")
		ps := w.Fn("execution/executors", "PointScanWithIndexExecutor", "Init")
		found := w.Field("execution/executors", "PointScanWithIndexExecutor", "foundTuples")
		isKeep := func(in ssa.Instruction) bool {
			st, ok := in.(*ssa.Store)
			if !ok || !isFieldAddrOf(st.Addr, found) {
				return false
			}
			return DependsOn(st.Val, func(v ssa.Value) bool {
				c, ok := v.(*ssa.Call)
				if !ok {
					return false
				}
				bi, ok := c.Call.Value.(*ssa.Builtin)
				return ok && bi.Name() == "append"
			})
		}
		nKeep := 0
		for _, b := range ps.Blocks {
			for _, in := range b.Instrs {
				if isKeep(in) {
					nKeep++
				}
			}
		}
		r.Floor("append to foundTuples in PointScan.Init", nKeep, 1)
		wit := (&PathQ{Fn: ps, Avoid: ifDependsOn(IsCallTo(cmpEq)), Target: isKeep}).FromEntry()
		r.Check(wit == nil, "PointScan.Init:keep-after-key-recheck", "a row found through the index is kept only after comparing its current column value with the scan key", "path: "+w.DescribeWitness(ps, wit))
		// mismatch aborts: on the mismatch side SetState(ABORTED) precedes return — structure: the If on CompareEquals has an edge that reaches return via SetState
		a := w.A()
		rs := w.Fn("execution/executors", "RangeScanWithIndexExecutor", "Next")
		idxI := w.Named("storage/index", "Index")
		getIdx := w.MethodObj("catalog", "TableMetadata", "GetIndex")
		isIdxVal := func(v ssa.Value) bool { return DependsOn(v, IsCallTo(getIdx)) }
		emit := func(in ssa.Instruction) bool { return returnsNonNilFirst(in) }
		noRange := map[string]string{
			"LinearProbeHashTableIndex": "hash index: GetRangeScanIterator returns nil, the executor cannot iterate it; the optimizer never produces a range plan that works on it",
		}
		n := 0
		fetches := sitesCalling(rs, a.THGetTuple)
		r.Floor("GetTuple sites in RangeScan.Next", len(fetches), 1)
		selfDeleted := w.Obj("storage/access", "ErrSelfDeletedCase")
		// own-deleted rows are skipped by `continue`; that edge is outside this rule (see DESIGN, C04 not covered)
		notSelfDeleted := CutWhen(func(v ssa.Value) bool {
			b, ok := v.(*ssa.BinOp)
			if !ok || b.Op != token.EQL {
				return false
			}
			isSD := func(x ssa.Value) bool {
				return DependsOn(x, func(y ssa.Value) bool {
					c, ok := y.(*ssa.Const)
					return ok && c.Value != nil && c.Value.Kind() == constant.String && constant.StringVal(c.Value) == constant.StringVal(selfDeleted.(*types.Const).Val())
				})
			}
			return isSD(b.X) || isSD(b.Y)
		}, true)
		for _, impl := range w.Implementors(idxI) {
			n++
			T := types.NewPointer(impl)
			isFetch := func(in ssa.Instruction) bool { return in == fetches[0] }
			wit := (&PathQ{Fn: rs, Cut: []EdgeCut{specTypeCut(isIdxVal, T), notSelfDeleted}, Avoid: func(in ssa.Instruction) bool { return ifDependsOn(IsCallTo(cmpEq))(in) || isFetch(in) }, Target: emit}).FromAfter(fetches)
			key := "RangeScan.Next:recheck:" + impl.Obj().Name()
			if reason, ok := noRange[impl.Obj().Name()]; ok {
				if wit != nil {
					r.Note(key, "index kind without range iterator is not re-validated", reason)
				} else {
					r.Ok(key, "rows are re-validated for this kind too")
				}
				continue
			}
			r.Check(wit == nil, key, "a row reached through a "+impl.Obj().Name()+" range iterator is returned only after comparing its current column value with the iterator's key", "path: "+w.DescribeWitness(rs, wit))
		}
		r.Floor("index kinds", n, 4)
		// failed fetch aborts before anything is emitted (C04-R6 for these two executors)
		wit = (&PathQ{Fn: rs, Avoid: ifDependsOn(IsCallTo(a.THGetTuple)), Target: emit}).FromAfter(fetches)
		r.Check(wit == nil, "RangeScan.Next:emit-after-fetch-check", "a row is returned only after the result of TableHeap.GetTuple was tested", "path: "+w.DescribeWitness(rs, wit))
		wit = (&PathQ{Fn: ps, Avoid: ifDependsOn(IsCallTo(a.THGetTuple)), Target: isKeep}).FromEntry()
		r.Check(wit == nil, "PointScan.Init:keep-after-fetch-check", "a row is kept only after the result of TableHeap.GetTuple was tested", "path: "+w.DescribeWitness(ps, wit))
	})

	reg("C07-R1", "heap and index effects are paired in the executors: InsertExecutor.Next inserts an entry into every non-nil index after a successful heap insert; UpdateExecutor.Next updates the entry of every index whose column was updated or whose row moved", func(w *World, r *Report) {
		a := w.A()
		getIdx := w.MethodObj("catalog", "TableMetadata", "GetIndex")
		colNum := w.MethodObj("catalog", "TableMetadata", "GetColumnNum")
		insEntry := w.MethodObj("storage/index", "Index", "InsertEntry")
		updEntry := w.MethodObj("storage/index", "Index", "UpdateEntry")
		ins := w.Fn("execution/executors", "InsertExecutor", "Next")
		heapIns := sitesCalling(ins, a.THInsert)
		r.Floor("heap inserts in InsertExecutor.Next", len(heapIns), 1)
		call := heapIns[0].(*ssa.Call)
		errOK := CutWhen(func(v ssa.Value) bool { // err != nil  -> keep the nil side
			b, ok := v.(*ssa.BinOp)
			if !ok {
				return false
			}
			isErr := func(x ssa.Value) bool {
				e, ok := x.(*ssa.Extract)
				return ok && e.Tuple == ssa.Value(call) && e.Index == 1
			}
			return (b.Op == token.NEQ || b.Op == token.EQL) && (isErr(b.X) || isErr(b.Y))
		}, true)
		// the cut above removes the edge on which the BinOp is true; for `err != nil` that is the failure edge
		loopIf := ifDependsOn(IsCallTo(colNum))
		wit := (&PathQ{Fn: ins, Cut: []EdgeCut{errOK}, Avoid: loopIf, Target: func(in ssa.Instruction) bool { return isReturn(in) || in == heapIns[0] }}).FromAfter(heapIns)
		r.Check(wit == nil, "InsertExecutor.Next:index-loop-after-heap-insert", "after a successful heap insert the per-column index loop is entered", "path: "+w.DescribeWitness(ins, wit))
		gi := sitesCalling(ins, getIdx)
		r.Floor("GetIndex sites in InsertExecutor.Next", len(gi), 1)
		nonNil := nilCompareCut(func(v ssa.Value) bool { return DependsOn(v, IsCallTo(getIdx)) }, true)
		wit = (&PathQ{Fn: ins, Cut: []EdgeCut{nonNil}, Avoid: InstrCallsObj(insEntry), Target: func(in ssa.Instruction) bool { return isReturn(in) || in == gi[0] || in == heapIns[0] }}).FromAfter(gi)
		r.Check(wit == nil, "InsertExecutor.Next:entry-for-every-index", "every non-nil index of the table receives an InsertEntry for the new row", "path: "+w.DescribeWitness(ins, wit))
		for _, s := range sitesCalling(ins, insEntry) {
			c := s.(ssa.CallInstruction)
			args := c.Common().Args
			r.Check(DependsOn(args[1], func(v ssa.Value) bool { return v == ssa.Value(call) }), "InsertExecutor.Next:entry-carries-new-rid", "the index entry carries the RID returned by the heap insert", "RID argument at "+w.InstrPos(s)+" does not come from TableHeap.InsertTuple")
		}
		// UpdateExecutor
		up := w.Fn("execution/executors", "UpdateExecutor", "Next")
		ugi := sitesCalling(up, getIdx)
		r.Floor("GetIndex sites in UpdateExecutor.Next", len(ugi), 1)
		hu := sitesCalling(up, a.THUpdate)
		r.Floor("heap updates in UpdateExecutor.Next", len(hu), 2)
		isNewRID := func(v ssa.Value) bool {
			return DependsOn(v, func(x ssa.Value) bool {
				e, ok := x.(*ssa.Extract)
				if !ok || e.Index != 1 {
					return false
				}
				c, ok := e.Tuple.(*ssa.Call)
				return ok && CalleeObj(c) == a.THUpdate
			})
		}
		moved := nilCompareCut(isNewRID, true) // keep newRID != nil
		stop := func(in ssa.Instruction) bool { return isReturn(in) || in == ugi[0] }
		wit = (&PathQ{Fn: up, Cut: []EdgeCut{nonNil, moved}, Avoid: InstrCallsObj(updEntry), Target: stop}).FromAfter(ugi)
		r.Check(wit == nil, "UpdateExecutor.Next:entry-updated-when-row-moved", "when the row was relocated every index gets an UpdateEntry (its RID changed)", "path: "+w.DescribeWitness(up, wit))
		contains := func(v ssa.Value) bool {
			c, ok := v.(*ssa.Call)
			if !ok {
				return false
			}
			f := c.Call.StaticCallee()
			return f != nil && strings.HasPrefix(f.Name(), "IsContainList")
		}
		updatedCol := CutWhen(contains, false)
		wit = (&PathQ{Fn: up, Cut: []EdgeCut{nonNil, updatedCol}, Avoid: InstrCallsObj(updEntry), Target: stop}).FromAfter(ugi)
		r.Check(wit == nil, "UpdateExecutor.Next:entry-updated-when-column-updated", "when the indexed column is among the updated columns the index gets an UpdateEntry", "path: "+w.DescribeWitness(up, wit))
		// the index loop is entered after every successful heap update
		wit = (&PathQ{Fn: up, Cut: []EdgeCut{CutWhen(func(v ssa.Value) bool { // !isUpdated || updateErr != nil -> keep success
			return false
		}, true)}, Avoid: func(in ssa.Instruction) bool { return ifDependsOn(IsCallTo(colNum))(in) || InstrCallsObj(a.TxnSetState)(in) }, Target: isReturn}).FromAfter(hu)
		r.Check(wit == nil, "UpdateExecutor.Next:index-loop-after-heap-update", "after a heap update the executor either aborts or enters the per-column index loop", "path: "+w.DescribeWitness(up, wit))
		// DeleteExecutor defers index deletion to commit: no index call at all (C04-R5 checks callers of DeleteEntry)
		del := w.Fn("execution/executors", "DeleteExecutor", "Next")
		r.Check(len(sitesCalling(del, getIdx)) == 0, "DeleteExecutor.Next:no-index-touch", "the delete executor leaves index entries in place (removed at commit)", "DeleteExecutor.Next touches indexes")
		// Commit removes the entries of deleted rows
		delEntry := w.MethodObj("storage/index", "Index", "DeleteEntry")
		commit := w.SSA(a.TMCommit)
		wtFld := w.Field("storage/access", "WriteRecord", "wtype")
		subj := func(v ssa.Value) bool { return fieldLoadOf(v, wtFld) }
		dv, _ := constant.Int64Val(w.Const("storage/access", "DELETE").Val())
		reach := (&PathQ{Fn: commit, Cut: []EdgeCut{specCut(subj, dv)}}).ReachableInstrs()
		okDel := false
		for in := range reach {
			if InstrCallsObj(delEntry)(in) {
				okDel = true
			}
		}
		r.Check(okDel, "Commit:DELETE-removes-index-entries", "Commit removes the index entries of rows whose delete is committed", "no DeleteEntry reachable in Commit for a DELETE write record")
	})

	reg("C11-R2", "join executors re-check the join predicate: HashJoinExecutor.Next emits a combination only after a branch on IsValidCombination (hash matches are candidates, not answers)", func(w *World, r *Report) {
		hj := w.Fn("execution/executors", "HashJoinExecutor", "Next")
		valid := w.MethodObj("execution/executors", "HashJoinExecutor", "IsValidCombination")
		mk := w.MethodObj("execution/executors", "HashJoinExecutor", "MakeOutputTuple")
		r.Floor("MakeOutputTuple sites", len(sitesCalling(hj, mk)), 1)
		wit := (&PathQ{Fn: hj, Avoid: ifDependsOn(IsCallTo(valid)), Target: InstrCallsObj(mk)}).FromEntry()
		r.Check(wit == nil, "HashJoin.Next:emit-after-predicate-recheck", "an output tuple is built only after IsValidCombination was evaluated for the candidate", "path: "+w.DescribeWitness(hj, wit))
		// IsValidCombination evaluates the plan's ON predicate on both tuples
		iv := w.SSA(valid)
		onPred := w.MethodObj("execution/plans", "HashJoinPlanNode", "OnPredicate")
		r.Check(len(sitesCalling(iv, onPred)) > 0, "HashJoin.IsValidCombination:uses-ON-predicate", "the re-check evaluates the join's ON predicate", "IsValidCombination does not consult plan.OnPredicate()")
		// NULL keys never enter / probe the hash table
		init := w.Fn("execution/executors", "HashJoinExecutor", "Init")
		isNull := w.MethodObj("types", "Value", "IsNull")
		jhtIns := w.MethodObj("execution/executors", "SimpleHashJoinHashTable", "Insert")
		wit = (&PathQ{Fn: init, Avoid: ifDependsOn(IsCallTo(isNull)), Target: InstrCallsObj(jhtIns)}).FromEntry()
		r.Check(wit == nil, "HashJoin.Init:null-keys-skipped", "a build-side row enters the hash table only after its key was tested for NULL", "path: "+w.DescribeWitness(init, wit))
	})
}

// nilCompareCut: for Ifs comparing a value satisfying isSubject with nil, remove the edge on which the
// value is nil (keepNonNil) or non-nil.
func nilCompareCut(isSubject func(ssa.Value) bool, keepNonNil bool) EdgeCut {
	return func(b *ssa.BasicBlock, succ int) bool {
		i := blockIf(b)
		if i == nil {
			return false
		}
		v, neg := condBase(i.Cond)
		bo, ok := v.(*ssa.BinOp)
		if !ok || (bo.Op != token.EQL && bo.Op != token.NEQ) {
			return false
		}
		isNil := func(x ssa.Value) bool { c, ok := x.(*ssa.Const); return ok && c.IsNil() }
		var other ssa.Value
		if isNil(bo.Y) {
			other = bo.X
		} else if isNil(bo.X) {
			other = bo.Y
		} else {
			return false
		}
		if !isSubject(other) {
			return false
		}
		condTrueMeansNil := (bo.Op == token.EQL) != neg
		edgeIsNil := (succ == 0) == condTrueMeansNil
		return edgeIsNil == keepNonNil
	}
}

func storeOrdinal(fn *ssa.Function, in ssa.Instruction, f *types.Var) string {
	var poss []token.Pos
	for _, b := range fn.Blocks {
		for _, x := range b.Instrs {
			if st, ok := x.(*ssa.Store); ok && isFieldAddrOf(st.Addr, f) {
				poss = append(poss, st.Pos())
			}
		}
	}
	sort.Slice(poss, func(i, j int) bool { return poss[i] < poss[j] })
	for i, p := range poss {
		if p == in.Pos() {
			return fmt.Sprintf("#%d", i+1)
		}
	}
	return "#?"
}

func init() {
	reg("C04-R7", "own writes: RangeScanWithIndexExecutor.Next never emits the tuple of a row the transaction itself deleted — on every path that takes the ErrSelfDeletedCase branch, a tuple is returned only after another fetch (path-sensitive: nil assignments to the loop variable and the final nil test are followed)", func(w *World, r *Report) {
		a := w.A()
		fn := w.Fn("execution/executors", "RangeScanWithIndexExecutor", "Next")
		lt := w.LockTable()
		selfDeleted := w.Obj("storage/access", "ErrSelfDeletedCase").(*types.Const)
		isSDCompare := func(v ssa.Value) (bool, bool) { // (matches, eqlOp)
			b, ok := v.(*ssa.BinOp)
			if !ok || (b.Op != token.EQL && b.Op != token.NEQ) {
				return false, false
			}
			isSD := func(x ssa.Value) bool {
				return DependsOn(x, func(y ssa.Value) bool {
					c, ok := y.(*ssa.Const)
					return ok && c.Value != nil && c.Value.Kind() == constant.String && constant.StringVal(c.Value) == constant.StringVal(selfDeleted.Val())
				})
			}
			return isSD(b.X) || isSD(b.Y), b.Op == token.EQL
		}
		nSD := 0
		var issues []string
		lw := &LockWalk{W: w, Fn: fn}
		lw.Classify = func(c ssa.CallInstruction, st *LState) (lockOp, string) { return opNone, "" }
		lw.OnInstr = func(in ssa.Instruction, st *LState) {
			if InstrCallsObj(a.THGetTuple)(in) {
				delete(st.held, "tag:self-deleted")
			}
		}
		lw.OnEdge = func(b *ssa.BasicBlock, succ int, st *LState) bool {
			i := blockIf(b)
			if i == nil {
				return true
			}
			v, neg := condBase(i.Cond)
			if m, eql := isSDCompare(v); m {
				condTrueMeansSD := eql != neg
				if (succ == 0) == condTrueMeansSD {
					st.held["tag:self-deleted"] = "W"
					nSD++
				}
				return true
			}
			// nil tests of a variable that holds the constant nil on this path
			bo, ok := v.(*ssa.BinOp)
			if !ok || (bo.Op != token.EQL && bo.Op != token.NEQ) {
				return true
			}
			isNil := func(x ssa.Value) bool { c, ok := x.(*ssa.Const); return ok && c.IsNil() }
			var other ssa.Value
			if isNil(bo.Y) {
				other = bo.X
			} else if isNil(bo.X) {
				other = bo.Y
			} else {
				return true
			}
			rp := st.root(lt.lockPath(other))
			if strings.HasPrefix(rp, "const:nil") {
				condTrueMeansNil := (bo.Op == token.EQL) != neg
				return (succ == 0) == condTrueMeansNil
			}
			return true
		}
		lw.OnReturn = func(ret *ssa.Return, st *LState) {
			if _, tagged := st.held["tag:self-deleted"]; tagged && returnsNonNilFirst(ret) {
				issues = append(issues, "returns a tuple at "+w.InstrPos(ret)+" on a path whose last fetched row was deleted by this transaction")
			}
		}
		lw.Run()
		r.Floor("ErrSelfDeletedCase edges taken", nSD, 1)
		if lw.Truncated {
			r.Undecided("RangeScan.Next:own-deleted-row-not-emitted", "state space cap hit", "")
			return
		}
		r.Check(len(issues) == 0, "RangeScan.Next:own-deleted-row-not-emitted", "after skipping a row deleted by the same transaction no tuple is returned without a new fetch", strings.Join(uniq(issues), "; "))
	})
}

func init() {
	reg("C06-R3", "select list: the optimizer's decision to omit the final projection depends on the names (not only the number) of the select-list entries; the sequential-scan planner's output schema is built from the select-list entries; the projection schema is built from qi.SelectFields", func(w *World, r *Report) {
		fbj := w.Fn("planner/optimizer", "SelingerOptimizer", "findBestJoin")
		newProj := w.FuncObj("execution/plans", "NewProjectionPlanNode")
		colName := w.Field("parser", "SelectFieldExpression", "ColName")
		sel := w.Field("parser", "QueryInfo", "SelectFields")
		conv := w.FuncObj("parser", "ConvParsedSelectionExprToSchema")
		dependsOnNames := func(v ssa.Value, depth int) bool { return dependsOnSelectNames(w, v, colName, depth) }
		ifOnNames := func(in ssa.Instruction) bool {
			i, ok := in.(*ssa.If)
			return ok && dependsOnNames(i.Cond, 0)
		}
		r.Floor("NewProjectionPlanNode sites in findBestJoin", len(sitesCalling(fbj, newProj)), 1)
		wit := (&PathQ{Fn: fbj, Avoid: func(in ssa.Instruction) bool { return InstrCallsObj(newProj)(in) || ifOnNames(in) }, Target: isReturn}).FromEntry()
		r.Check(wit == nil, "findBestJoin:projection-omitted-only-after-comparing-names", "the plan is returned without the final projection only after its output columns were compared with the select-list names", "path returning the plan without projection and without consulting SelectFields[i].ColName (a count-only test lets `SELECT b, a` come back in table order): "+w.DescribeWitness(fbj, wit))
		for _, s := range sitesCalling(fbj, newProj) {
			c := s.(*ssa.Call)
			r.Check(DependsOn(c.Call.Args[1], IsCallTo(conv)) && DependsOn(c.Call.Args[1], func(v ssa.Value) bool { return fieldLoadOf(v, sel) }), "findBestJoin:projection-schema-from-select-list", "the final projection's schema is converted from qi.SelectFields", "schema argument at "+w.InstrPos(s))
		}
		// ConvParsedSelectionExprToSchema keeps the order: it appends one column per entry in a single range loop
		cf := w.SSA(conv)
		newCol := w.FuncObj("storage/table/column", "NewColumn")
		okConv := false
		for _, s := range sitesCalling(cf, newCol) {
			if loopHeaderOf(s.Block()) != nil && DependsOn(s.(*ssa.Call).Call.Args[0], func(v ssa.Value) bool { return fieldLoadOf(v, colName) }) {
				okConv = true
			}
		}
		r.Check(okConv, "ConvParsedSelectionExprToSchema:one-column-per-entry-in-order", "the projection schema has one column per select-list entry, named after it, built in list order", "no NewColumn(entry name) inside the loop over the select list")
		// sequential-scan planner
		wj := w.Fn("planner", "SimplePlanner", "MakeSelectPlanWithoutJoin")
		seq := w.FuncObj("execution/plans", "NewSeqScanPlanNode")
		constructPred := w.MethodObj("planner", "SimplePlanner", "ConstructPredicate")
		for _, s := range sitesCalling(wj, seq) {
			c := s.(*ssa.Call)
			r.Check(DependsOn(c.Call.Args[1], func(v ssa.Value) bool { return fieldLoadOf(v, colName) }), "MakeSelectPlanWithoutJoin:schema-from-select-list", "the scan's output schema is built from the select-list entries", "schema argument at "+w.InstrPos(s)+" does not depend on SelectFields[i].ColName")
			r.Check(DependsOn(c.Call.Args[2], IsCallTo(constructPred)), "MakeSelectPlanWithoutJoin:predicate-from-where", "the scan's predicate is built from the WHERE clause", "predicate argument at "+w.InstrPos(s)+" does not depend on ConstructPredicate()")
		}
		r.Floor("NewSeqScanPlanNode sites in MakeSelectPlanWithoutJoin", len(sitesCalling(wj, seq)), 1)
	})
}

// dependsOnSelectNames: v's slice contains a load of SelectFieldExpression.ColName, or a call of a repo
// function (depth <= 2) whose returned value depends on one.
func dependsOnSelectNames(w *World, v ssa.Value, colName *types.Var, depth int) bool {
	return DependsOn(v, func(x ssa.Value) bool {
		if fieldLoadOf(x, colName) {
			return true
		}
		if depth >= 2 {
			return false
		}
		c, ok := x.(*ssa.Call)
		if !ok {
			return false
		}
		f := c.Call.StaticCallee()
		if f == nil || f.Blocks == nil || f.Pkg == nil || !isRepoPath(f.Pkg.Pkg.Path()) {
			return false
		}
		// does any branch or return inside the callee depend on the names?
		for _, b := range f.Blocks {
			for _, in := range b.Instrs {
				switch y := in.(type) {
				case *ssa.If:
					if dependsOnSelectNames(w, y.Cond, colName, depth+1) {
						return true
					}
				case *ssa.Return:
					for _, rv := range y.Results {
						if dependsOnSelectNames(w, rv, colName, depth+1) {
							return true
						}
					}
				}
			}
		}
		return false
	})
}

func init() {
	reg("C11-R5", "join keys are resolved in the schema in which the executor evaluates them: the optimizer builds hash-join keys against the very child plan they are evaluated on (ConvColumnStrsToExpIfOnes(child) with child = the plan passed as that side), and the right key of an index join against the table definition (child = nil), because IndexJoinExecutor interprets its column index in the catalog schema of the right table; the hash-join cursor over a bucket only moves relative to its previous position or restarts at 0 (every entry of a bucket is examined: two build-side keys may share a hash value)", func(w *World, r *Report) {
		conv := w.FuncObj("parser", "ConvColumnStrsToExpIfOnes")
		hj := w.FuncObj("execution/plans", "NewHashJoinPlanNodeWithChilds")
		ij := w.FuncObj("execution/plans", "NewIndexJoinPlanNode")
		convCalls := func(v ssa.Value) []*ssa.Call {
			var out []*ssa.Call
			DependsOn(v, func(x ssa.Value) bool {
				if c, ok := x.(*ssa.Call); ok && CalleeObj(c) == conv {
					out = append(out, c)
				}
				return false
			})
			return out
		}
		isNil := func(v ssa.Value) bool { c, ok := v.(*ssa.Const); return ok && c.IsNil() }
		check := func(key string, site *ssa.Call, keysArg ssa.Value, want ssa.Value, what string) {
			cs := convCalls(keysArg)
			good := len(cs) > 0
			for _, c := range cs {
				child := c.Call.Args[1]
				if want == nil {
					good = good && isNil(child)
				} else {
					good = good && child == want
				}
			}
			r.Check(good, key, "the keys are resolved against "+what, fmt.Sprintf("keys passed at %s are resolved against another schema than the one the executor evaluates them in", w.InstrPos(site)))
		}
		nHJ, nIJ := 0, 0
		for _, fn := range w.RepoFuncs {
			if w.IsTestFunc(fn) {
				continue
			}
			EachCall(fn, func(ci ssa.CallInstruction) {
				c, ok := ci.(*ssa.Call)
				if !ok {
					return
				}
				switch CalleeObj(c) {
				case hj:
					nHJ++
					k := funcKey(topFunc(fn)) + ":hash-join" + ordinalIn(fn, c, hj)
					check(k+":left-keys", c, c.Call.Args[1], c.Call.Args[0], "the left child plan")
					check(k+":right-keys", c, c.Call.Args[3], c.Call.Args[2], "the right child plan")
				case ij:
					nIJ++
					k := funcKey(topFunc(fn)) + ":index-join" + ordinalIn(fn, c, ij)
					check(k+":left-keys", c, c.Call.Args[2], c.Call.Args[1], "the left child plan")
					check(k+":right-keys", c, c.Call.Args[5], nil, "the table definition of the right table (child = nil)")
				}
			})
		}
		r.Floor("NewHashJoinPlanNodeWithChilds sites", nHJ, 1)
		r.Floor("NewIndexJoinPlanNode sites", nIJ, 1)
		// ConvColumnStrsToExpIfOnes: child nil -> catalog schema, else child's output schema
		cf := w.SSA(conv)
		var childP *ssa.Parameter
		for _, p := range cf.Params {
			if p.Name() == "childPlan" {
				childP = p
			}
		}
		outSchema := w.MethodObj("execution/plans", "Plan", "OutputSchema")
		tblSchema := w.MethodObj("catalog", "TableMetadata", "Schema")
		if childP == nil {
			fatalf("ConvColumnStrsToExpIfOnes has no childPlan parameter")
		}
		isChild := func(v ssa.Value) bool { return resolveCell(v) == ssa.Value(childP) }
		wit := (&PathQ{Fn: cf, Cut: []EdgeCut{nilCompareCut(isChild, false)}, Target: InstrCallsObj(outSchema)}).FromEntry()
		r.Check(wit == nil, "ConvColumnStrsToExpIfOnes:nil-child-uses-table-definition", "with child = nil the column index is looked up in the table definition", "OutputSchema reachable with child = nil: "+w.DescribeWitness(cf, wit))
		wit = (&PathQ{Fn: cf, Cut: []EdgeCut{nilCompareCut(isChild, true)}, Target: InstrCallsObj(tblSchema)}).FromEntry()
		r.Check(wit == nil, "ConvColumnStrsToExpIfOnes:child-uses-its-output-schema", "with a child plan the column index is looked up in its output schema", "catalog schema reachable with a child plan: "+w.DescribeWitness(cf, wit))
		// consumer: IndexJoinExecutor.Init hands the right key's column index to the point scan together with the catalog schema
		ini := w.Fn("execution/executors", "IndexJoinExecutor", "Init")
		mk := w.FuncObj("execution/executors", "makePointScanPlanNodeForJoin")
		n := 0
		EachCall(ini, func(ci ssa.CallInstruction) {
			if CalleeObj(ci) != mk {
				return
			}
			n++
			args := ci.Common().Args
			var scArg ssa.Value
			for _, x := range args {
				if strings.HasSuffix(x.Type().String(), "schema.Schema") {
					scArg = x
				}
			}
			fromCatalog := scArg != nil && DependsOn(scArg, IsCallTo(tblSchema))
			fromPlan := scArg != nil && DependsOn(scArg, func(x ssa.Value) bool {
				c, ok := x.(ssa.CallInstruction)
				return ok && CalleeObj(c) != nil && CalleeObj(c).Name() == "OutputSchema"
			})
			r.Check(fromCatalog && !fromPlan, "IndexJoinExecutor.Init:right-key-index-read-in-table-definition", "the executor interprets the right key's column index in the catalog schema of the right table", "schema passed to the point scan at "+w.InstrPos(ci)+" is not the table definition")
		})
		r.Floor("point-scan constructions in IndexJoinExecutor.Init", n, 1)
		// hash-join bucket cursor
		hn := w.Fn("execution/executors", "HashJoinExecutor", "Next")
		idx := w.Field("execution/executors", "HashJoinExecutor", "index")
		ns := 0
		for _, b := range hn.Blocks {
			for _, in := range b.Instrs {
				st, ok := in.(*ssa.Store)
				if !ok || !isFieldAddrOf(st.Addr, idx) {
					continue
				}
				ns++
				cv, isConst := constOf(st.Val)
				zero := false
				if isConst {
					iv, _ := constant.Int64Val(constant.ToInt(cv))
					zero = iv == 0
				}
				rel := DependsOn(st.Val, func(x ssa.Value) bool { return fieldLoadOf(x, idx) })
				r.Check(zero || rel, "HashJoinExecutor.Next:bucket-cursor-moves-stepwise"+storeOrdinal(hn, st, idx), "the cursor over the bucket restarts at 0 or moves relative to its previous position", "store at "+w.InstrPos(st)+" jumps the bucket cursor to a value unrelated to its previous position: the remaining entries of the bucket (other keys with the same hash value may sit in front of matching ones) are skipped")
			}
		}
		r.Floor("stores to HashJoinExecutor.index in Next", ns, 2)
	})
}

func init() {
	reg("C11-R6", "an index join never drops a filter: IndexJoinExecutor reads the right table itself and does not run the right plan, so the optimizer may build NewIndexJoinPlanNode only where the right plan is known to filter nothing — once the edge `SeqScanPlanNode(right or its projection child).GetPredicate() == nil` is removed, the constructor call is unreachable", func(w *World, r *Report) {
		ij := w.FuncObj("execution/plans", "NewIndexJoinPlanNode")
		getPred := w.MethodObj("execution/plans", "SeqScanPlanNode", "GetPredicate")
		n := 0
		for _, fn := range w.RepoFuncs {
			if w.IsTestFunc(fn) || fn.Parent() != nil {
				continue
			}
			sites := sitesCalling(fn, ij)
			if len(sites) == 0 {
				continue
			}
			n += len(sites)
			// the guard: a nil test of GetPredicate() of a *SeqScanPlanNode obtained by type assertion (comma-ok or not)
			isPredOfSeqScan := func(v ssa.Value) bool {
				return DependsOn(v, func(x ssa.Value) bool {
					c, ok := x.(*ssa.Call)
					return ok && CalleeObj(c) == getPred
				})
			}
			noFilter := nilCompareCut(isPredOfSeqScan, true) // remove the edge on which the predicate is nil
			nGuard := countCutEdges(fn, []EdgeCut{noFilter})
			wit := (&PathQ{Fn: fn, Cut: []EdgeCut{noFilter}, Target: InstrCallsObj(ij)}).FromEntry()
			r.Check(wit == nil && nGuard > 0, funcKey(fn)+":index-join-only-over-an-unfiltered-right-scan", "the index join candidate is built only when the right plan is a sequential scan without predicate", "NewIndexJoinPlanNode reachable without the test that the right plan filters nothing (its selections would be dropped): "+w.DescribeWitness(fn, wit))
		}
		r.Floor("NewIndexJoinPlanNode call sites", n, 1)
	})
}

func init() {
	reg("C11-R7", "no WHERE comparison between the two join sides is dropped: in findBestJoinInner a comparison between a column of the left plan and a column of the right plan is collected for the selection above the join whatever its operator — with `ComparisonOperationType == Equal` assumed false, the append to the collected conditions is still reachable (only equalities become join keys, the others are filters)", func(w *World, r *Report) {
		fn := w.Fn("planner/optimizer", "SelingerOptimizer", "findBestJoinInner")
		opFld := w.Field("parser", "BinaryOpExpression", "ComparisonOperationType")
		eqV, _ := constant.Int64Val(w.Const("execution/expression", "Equal").Val())
		notEqual := specCutNot(func(v ssa.Value) bool { return fieldLoadOf(v, opFld) }, eqV)
		isCollect := func(in ssa.Instruction) bool {
			c, ok := in.(*ssa.Call)
			if !ok {
				return false
			}
			b, ok := c.Call.Value.(*ssa.Builtin)
			if !ok || b.Name() != "append" {
				return false
			}
			sl, ok := c.Type().Underlying().(*types.Slice)
			return ok && strings.HasSuffix(sl.Elem().String(), "parser.BinaryOpExpression")
		}
		n := 0
		for _, b := range fn.Blocks {
			for _, in := range b.Instrs {
				if isCollect(in) {
					n++
				}
			}
		}
		r.Floor("appends to the collected join conditions", n, 1)
		nEq := countCutEdges(fn, []EdgeCut{notEqual})
		wit := (&PathQ{Fn: fn, Cut: []EdgeCut{notEqual}, Target: isCollect}).FromEntry()
		r.Check(wit != nil, "findBestJoinInner:non-equality-cross-conditions-are-collected", "a comparison between columns of both sides that is not an equality is still collected (and applied above the join)", fmt.Sprintf("with the operator assumed different from Equal (%d tests of the operator) no condition is collected: `left.a < right.b` is applied nowhere", nEq))
	})
}

// specCutNot: subject is assumed to differ from the constant k — removes the edges on which subject == k.
func specCutNot(subj func(ssa.Value) bool, k int64) EdgeCut {
	return func(b *ssa.BasicBlock, succ int) bool {
		i := blockIf(b)
		if i == nil {
			return false
		}
		v, neg := condBase(i.Cond)
		bo, ok := v.(*ssa.BinOp)
		if !ok || (bo.Op != token.EQL && bo.Op != token.NEQ) {
			return false
		}
		isK := func(x ssa.Value) bool {
			cv, ok := constOf(x)
			if !ok {
				return false
			}
			iv, ok := constant.Int64Val(constant.ToInt(cv))
			return ok && iv == k
		}
		if !((subj(stripConv(bo.X)) && isK(bo.Y)) || (subj(stripConv(bo.Y)) && isK(bo.X))) {
			return false
		}
		binTrue := (succ == 0) != neg
		equalOnEdge := binTrue == (bo.Op == token.EQL)
		return equalOnEdge
	}
}

func init() {
	reg("C06-R4", "the comparison operators mean the same thing at every stage (sibling agreement, evaluated per operator by specialising the switch): the SQL front end maps opcode EQ/NE/GT/GE/LT/LE to Equal/NotEqual/GreaterThan/GreaterThanOrEqual/LessThan/LessThanOrEqual; Comparison.performComparison calls Value.Compare<that operator> with lhs as receiver and rhs as argument; the optimizer's Range.Update writes, per operator and operand side, exactly the bound and the inclusiveness that the operator denotes (x < c: Max, exclusive; c < x: Min, exclusive; <= / >=: inclusive; =: both, inclusive; <>: nothing)", func(w *World, r *Report) {
		ct := w.Named("execution/expression", "ComparisonType")
		enum := enumConsts(w, ct)
		byName := map[string]int64{}
		for v, c := range enum {
			byName[c.Name()] = v
		}
		// (1) evaluation
		pc := w.Fn("execution/expression", "Comparison", "performComparison")
		ctFld := w.Field("execution/expression", "Comparison", "comparisonType")
		want := map[string]string{"Equal": "CompareEquals", "NotEqual": "CompareNotEquals", "GreaterThan": "CompareGreaterThan", "GreaterThanOrEqual": "CompareGreaterThanOrEqual", "LessThan": "CompareLessThan", "LessThanOrEqual": "CompareLessThanOrEqual"}
		var lhsP, rhsP *ssa.Parameter
		for _, p := range pc.Params {
			switch p.Name() {
			case "lhs":
				lhsP = p
			case "rhs":
				rhsP = p
			}
		}
		for name, callee := range want {
			k, ok := byName[name]
			if !ok {
				r.Bad("performComparison:"+name, "operator exists", "ComparisonType has no constant "+name)
				continue
			}
			reach := (&PathQ{Fn: pc, Cut: []EdgeCut{specCut(func(v ssa.Value) bool { return fieldLoadOf(v, ctFld) }, k)}}).ReachableInstrs()
			var got []string
			okArgs := true
			for in := range reach {
				c, isCall := in.(*ssa.Call)
				if !isCall {
					continue
				}
				o := CalleeObj(c)
				if o == nil || !strings.HasPrefix(o.Name(), "Compare") {
					continue
				}
				got = append(got, o.Name())
				if lhsP != nil && rhsP != nil {
					recvOK := DependsOn(c.Call.Args[0], func(x ssa.Value) bool { return x == ssa.Value(lhsP) }) && !DependsOn(c.Call.Args[0], func(x ssa.Value) bool { return x == ssa.Value(rhsP) })
					argOK := DependsOn(c.Call.Args[1], func(x ssa.Value) bool { return x == ssa.Value(rhsP) }) && !DependsOn(c.Call.Args[1], func(x ssa.Value) bool { return x == ssa.Value(lhsP) })
					okArgs = okArgs && recvOK && argOK
				}
			}
			sort.Strings(got)
			r.Check(len(got) == 1 && got[0] == callee && okArgs, "performComparison:"+name, "operator "+name+" is evaluated by lhs."+callee+"(rhs)", "for "+name+" the function calls {"+strings.Join(got, ",")+"} (operands in order: "+fmt.Sprint(okArgs)+")")
		}
		// (2) front end
		gt := w.FuncObj("parser", "GetTypesForBOperationExpr")
		gf := w.SSA(gt)
		opcodeWant := map[string]string{"EQ": "Equal", "NE": "NotEqual", "GT": "GreaterThan", "GE": "GreaterThanOrEqual", "LT": "LessThan", "LE": "LessThanOrEqual"}
		var opNamed *types.Named
		if len(gf.Params) == 1 {
			opNamed, _ = gf.Params[0].Type().(*types.Named)
		}
		if opNamed == nil {
			fatalf("GetTypesForBOperationExpr: unexpected signature")
		}
		opEnum := enumConsts(w, opNamed)
		opByName := map[string]int64{}
		for v, c := range opEnum {
			opByName[c.Name()] = v
		}
		for on, cn := range opcodeWant {
			ov, ok := opByName[on]
			if !ok {
				r.Bad("front-end:"+on, "opcode exists", "opcode."+on+" not found")
				continue
			}
			vals, unknown := w.ConstResultsUnder(gf, 0, ov, 1, 2)
			if unknown {
				vals[-999] = true
			}
			r.Check(len(vals) == 1 && vals[byName[cn]], "front-end:"+on+"->"+cn, "SQL operator "+on+" becomes ComparisonType "+cn, "GetTypesForBOperationExpr returns {"+constNames(enum, vals)+"} for opcode."+on)
		}
		// (3) optimizer range
		up := w.Fn("planner/optimizer", "Range", "Update")
		var opP, dirP *ssa.Parameter
		for _, p := range up.Params {
			switch p.Name() {
			case "op":
				opP = p
			case "dir":
				dirP = p
			}
		}
		if opP == nil || dirP == nil {
			fatalf("Range.Update: parameters op / dir not found")
		}
		// Direction is a bool type: DirRight = false (column on the left of the operator), DirLeft = true
		dirVal := map[string]bool{}
		for _, n := range []string{"DirRight", "DirLeft"} {
			dirVal[n] = constant.BoolVal(w.Const("planner/optimizer", n).Val())
		}
		fMin, fMax := w.Field("planner/optimizer", "Range", "Min"), w.Field("planner/optimizer", "Range", "Max")
		fMinI, fMaxI := w.Field("planner/optimizer", "Range", "MinInclusive"), w.Field("planner/optimizer", "Range", "MaxInclusive")
		type exp struct{ bound, incl string } // bound: "Max" | "Min" | "both" | "none"; incl "true"/"false"/""
		table := map[string]map[string]exp{
			"Equal":              {"DirRight": {"both", "true"}, "DirLeft": {"both", "true"}},
			"NotEqual":           {"DirRight": {"none", ""}, "DirLeft": {"none", ""}},
			"LessThan":           {"DirRight": {"Max", "false"}, "DirLeft": {"Min", "false"}},
			"GreaterThan":        {"DirRight": {"Min", "false"}, "DirLeft": {"Max", "false"}},
			"LessThanOrEqual":    {"DirRight": {"Max", "true"}, "DirLeft": {"Min", "true"}},
			"GreaterThanOrEqual": {"DirRight": {"Min", "true"}, "DirLeft": {"Max", "true"}},
		}
		for on, byDir := range table {
			for dn, e := range byDir {
				cuts := []EdgeCut{
					specCut(func(v ssa.Value) bool { return resolveCell(v) == ssa.Value(opP) }, byName[on]),
					CutWhen(func(v ssa.Value) bool { return resolveCell(v) == ssa.Value(dirP) }, !dirVal[dn]),
				}
				reach := (&PathQ{Fn: up, Cut: cuts}).ReachableInstrs()
				stMin, stMax := false, false
				incl := map[string]map[string]bool{"Min": {}, "Max": {}}
				for in := range reach {
					st, ok := in.(*ssa.Store)
					if !ok {
						continue
					}
					switch {
					case isFieldAddrOf(st.Addr, fMin):
						stMin = true
					case isFieldAddrOf(st.Addr, fMax):
						stMax = true
					case isFieldAddrOf(st.Addr, fMinI), isFieldAddrOf(st.Addr, fMaxI):
						which := "Min"
						if isFieldAddrOf(st.Addr, fMaxI) {
							which = "Max"
						}
						if cv, ok := constOf(st.Val); ok {
							incl[which][fmt.Sprint(constant.BoolVal(cv))] = true
						} else {
							incl[which]["?"] = true
						}
					}
				}
				good := true
				var why []string
				need := func(which string, stored bool) {
					wantStore := e.bound == which || e.bound == "both"
					if stored != wantStore {
						good = false
						why = append(why, fmt.Sprintf("%s stored: %v, expected %v", which, stored, wantStore))
					}
					if wantStore {
						if len(incl[which]) != 1 || !incl[which][e.incl] {
							good = false
							why = append(why, fmt.Sprintf("%sInclusive set to %v, expected %s", which, sortedKeys(incl[which]), e.incl))
						}
					} else if len(incl[which]) != 0 {
						good = false
						why = append(why, which+"Inclusive is written although the bound is not")
					}
				}
				need("Min", stMin)
				need("Max", stMax)
				r.Check(good, "Range.Update:"+on+":"+dn, "operator "+on+" with the column on the "+map[string]string{"DirRight": "left", "DirLeft": "right"}[dn]+" side narrows "+e.bound+" (inclusive: "+e.incl+")", strings.Join(why, "; "))
			}
		}
	})
}
