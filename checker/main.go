package main

// sdbcheck — static decision procedures for the 20 given SamehadaDB properties.
// Usage (cwd /verif):  bin/sdbcheck -property C08 -tier quick|thorough [-repo /repo]
// Exit 0: every obligation discharged (known findings printed as KNOWN-FINDING lines);
// exit 1: "VIOLATION property=<id> replay=<path>" — an obligation failed that is not a listed finding;
// exit 2: infrastructure failure (tree does not type-check, anchor lost, rule lost its instances,
//         engine met an idiom it does not model = undecided). Never a pass.

import (
	"encoding/json"
	"flag"
	"fmt"
	"os"
	"path/filepath"
	"runtime/debug"
	"sort"
	"strconv"
	"strings"
	"time"
)

type Obl struct {
	Rule       string `json:"rule"`
	Key        string `json:"key"`
	Desc       string `json:"desc"`
	Status     string `json:"status"` // ok | violated | known | note | undecided
	Detail     string `json:"detail,omitempty"`
	Nontrivial bool   `json:"nontrivial"`
}

type Report struct {
	Prop     string
	Tier     string
	Obls     []Obl
	Analysed map[string]int
	Notes    []string
	Mutants  []MutantResult
	w        *World
	curRule  string
}

func (r *Report) add(status, key, desc, detail string, nontrivial bool) {
	r.Obls = append(r.Obls, Obl{Rule: r.curRule, Key: key, Desc: desc, Status: status, Detail: detail, Nontrivial: nontrivial})
}

// Ok records a discharged obligation. nontrivial = the query actually traversed >=1 path / edge / case.
func (r *Report) Ok(key, desc string)             { r.add("ok", key, desc, "", true) }
func (r *Report) OkTrivial(key, desc string)      { r.add("ok", key, desc, "", false) }
func (r *Report) Bad(key, desc, detail string)    { r.add("violated", key, desc, detail, true) }
func (r *Report) Note(key, desc, detail string)   { r.add("note", key, desc, detail, false) }
func (r *Report) Undecided(key, desc, why string) { r.add("undecided", key, desc, why, true) }

// Check is Ok/Bad in one call.
func (r *Report) Check(ok bool, key, desc, detail string) {
	if ok {
		r.Ok(key, desc)
	} else {
		r.Bad(key, desc, detail)
	}
}

// Floor enforces the vacuity floor of the current rule.
func (r *Report) Floor(what string, got, want int) {
	r.Analysed[r.curRule+"/"+what] = got
	if got < want {
		r.Undecided("floor:"+what, fmt.Sprintf("rule lost its anchors: %s", what), fmt.Sprintf("found %d instances, at least %d were confirmed by hand on the reference tree", got, want))
	}
}

type Rule struct {
	ID   string
	Doc  string
	Run  func(w *World, r *Report)
	Tier string // "" = both, "thorough" = thorough only
}

var rules = map[string]*Rule{}

func reg(id, doc string, run func(w *World, r *Report)) {
	if rules[id] != nil {
		panic("duplicate rule " + id)
	}
	rules[id] = &Rule{ID: id, Doc: doc, Run: run}
}

// propertyRules: which rules decide which property (shared rules appear under several).
var propertyRules = map[string][]string{}

func prop(id string, ruleIDs ...string) { propertyRules[id] = append(propertyRules[id], ruleIDs...) }

type Finding struct {
	Status     string   `json:"status"` // known | fixed
	Properties []string `json:"properties"`
	Rule       string   `json:"rule"`
	Key        string   `json:"key"`
	What       string   `json:"what"`
	Commit     string   `json:"commit,omitempty"`
	Line       string   `json:"line,omitempty"`
}

type FindingsFile struct {
	Comment  string    `json:"comment"`
	Findings []Finding `json:"findings"`
}

func loadFindings(path string) *FindingsFile {
	ff := &FindingsFile{}
	b, err := os.ReadFile(path)
	if err != nil {
		return ff
	}
	if err := json.Unmarshal(b, ff); err != nil {
		fatalf("known findings file %s is not valid JSON: %v", path, err)
	}
	return ff
}

func (ff *FindingsFile) known(prop, rule, key string) *Finding {
	for i := range ff.Findings {
		f := &ff.Findings[i]
		if f.Status != "known" || f.Rule != rule || f.Key != key {
			continue
		}
		for _, p := range f.Properties {
			if p == prop {
				return f
			}
		}
	}
	return nil
}

func main() {
	var (
		propID    = flag.String("property", "", "property id (C01..C20) or 'all'")
		tier      = flag.String("tier", "quick", "quick|thorough")
		repo      = flag.String("repo", "/repo", "repository root")
		verifDir  = flag.String("verif", ".", "verification directory (evidence/, known_findings.json)")
		replay    = flag.String("replay", "", "re-evaluate only the obligations listed in this violations file")
		listRules = flag.Bool("list", false, "list rules per property")
		overlayF  = flag.String("overlay", "", "internal: JSON file {abs path: replacement source} (mutation self-test)")
		noEv      = flag.Bool("no-evidence", false, "internal: do not write evidence files (used by the mutation self-test children)")
		jsonOut   = flag.String("json-out", "", "internal: write obligation list to this file")
	)
	flag.Parse()
	if *listRules {
		var ps []string
		for p := range propertyRules {
			ps = append(ps, p)
		}
		sort.Strings(ps)
		for _, p := range ps {
			fmt.Println(p)
			for _, id := range propertyRules[p] {
				fmt.Printf("  %-8s %s\n", id, rules[id].Doc)
			}
		}
		return
	}
	if os.Getenv("VERIF_TIER") != "" && !isFlagSet("tier") {
		*tier = os.Getenv("VERIF_TIER")
	}
	if *tier != "quick" && *tier != "thorough" {
		fmt.Fprintln(os.Stderr, "bad tier")
		os.Exit(2)
	}
	seed := 0
	if s := os.Getenv("VERIF_SEED"); s != "" {
		seed, _ = strconv.Atoi(s)
	}
	var props []string
	if *propID == "all" {
		for p := range propertyRules {
			props = append(props, p)
		}
		sort.Strings(props)
	} else if _, ok := propertyRules[*propID]; ok {
		props = []string{*propID}
	} else {
		fmt.Fprintf(os.Stderr, "unknown or unclaimed property %q\n", *propID)
		os.Exit(2)
	}
	os.Exit(run(props, *tier, *repo, *verifDir, *replay, *overlayF, *noEv, *jsonOut, seed))
}

func isFlagSet(name string) bool {
	set := false
	flag.Visit(func(f *flag.Flag) {
		if f.Name == name {
			set = true
		}
	})
	return set
}

func run(props []string, tier, repo, verifDir, replay, overlayF string, noEv bool, jsonOut string, seed int) (code int) {
	t0 := time.Now()
	var overlay map[string][]byte
	if overlayF != "" {
		b, err := os.ReadFile(overlayF)
		if err != nil {
			fmt.Fprintln(os.Stderr, err)
			return 2
		}
		m := map[string]string{}
		if err := json.Unmarshal(b, &m); err != nil {
			fmt.Fprintln(os.Stderr, err)
			return 2
		}
		overlay = map[string][]byte{}
		for k, v := range m {
			overlay[k] = []byte(v)
		}
	}
	var w *World
	func() {
		defer func() {
			if e := recover(); e != nil {
				if hf, ok := e.(hardFail); ok {
					fmt.Fprintln(os.Stderr, "HARD FAILURE (load):", hf.msg)
				} else {
					fmt.Fprintln(os.Stderr, "HARD FAILURE (load panic):", e)
					debug.PrintStack()
				}
				code = 2
			}
		}()
		// test packages are not loaded: the rules exempt test code by construction (IsTestFunc) and the
		// recompiled test variants of packages would only duplicate every function under other object identities
		w = LoadWorld(repo, false, overlay, true)
	}()
	if w == nil {
		// the tree cannot be analysed: that is never a pass. Evidence still records the failure.
		for _, p := range props {
			if !noEv {
				writeEvidence(verifDir, p, tier, seed, &Report{Prop: p, Tier: tier, Analysed: map[string]int{}}, nil, time.Since(t0), 1, "the repository tree failed to load / type-check")
			}
			fmt.Printf("VIOLATION property=%s replay=%s\n", p, filepath.Join(verifDir, "evidence", p+".violations.json"))
		}
		return 1
	}
	loadDur := time.Since(t0)
	ff := loadFindings(filepath.Join(verifDir, "known_findings.json"))
	var replayKeys map[string]bool
	if replay != "" {
		b, err := os.ReadFile(replay)
		if err != nil {
			fmt.Fprintln(os.Stderr, err)
			return 2
		}
		var obls []Obl
		if err := json.Unmarshal(b, &obls); err != nil {
			fmt.Fprintln(os.Stderr, err)
			return 2
		}
		replayKeys = map[string]bool{}
		for _, o := range obls {
			replayKeys[o.Rule+"\x00"+o.Key] = true
		}
	}
	worst := 0
	var allObls []Obl
	for _, p := range props {
		tp := time.Now()
		rep := &Report{Prop: p, Tier: tier, Analysed: map[string]int{}, w: w}
		hard := ""
		for _, rid := range propertyRules[p] {
			rule := rules[rid]
			if rule == nil {
				fatalf("property %s names unknown rule %s", p, rid)
			}
			if rule.Tier == "thorough" && tier != "thorough" {
				continue
			}
			rep.curRule = rid
			func() {
				defer func() {
					if e := recover(); e != nil {
						if hf, ok := e.(hardFail); ok {
							hard = fmt.Sprintf("%s: %s", rid, hf.msg)
							rep.Undecided("hard-failure", "rule aborted", hf.msg)
						} else {
							hard = fmt.Sprintf("%s: engine panic: %v", rid, e)
							rep.Undecided("engine-panic", "rule aborted", fmt.Sprintf("%v\n%s", e, debug.Stack()))
						}
					}
				}()
				rule.Run(w, rep)
			}()
		}
		var mutRes []MutantResult
		if tier == "thorough" && overlayF == "" && replayKeys == nil {
			mutRes = runMutants(p, repo, verifDir)
			rep.curRule = "SELFTEST"
			for _, m := range mutRes {
				switch m.Status {
				case "detected":
					rep.Ok("mutant:"+m.ID, "in-memory variant with one instance broken is reported ("+strings.Join(m.Fired, "; ")+")")
				case "skipped":
					rep.Note("mutant:"+m.ID, "variant not applicable on this tree", m.Detail)
				default:
					rep.Undecided("mutant:"+m.ID, "the checker must report this broken variant", m.Status+": expected one of "+strings.Join(m.Expected, " | ")+"; fired "+strings.Join(m.Fired, "; ")+" "+m.Detail)
				}
			}
			rep.Mutants = mutRes
		}
		if replayKeys != nil {
			var kept []Obl
			for _, o := range rep.Obls {
				if replayKeys[o.Rule+"\x00"+o.Key] {
					kept = append(kept, o)
				}
			}
			rep.Obls = kept
		}
		// verdicts
		var viol, undec []Obl
		for i := range rep.Obls {
			o := &rep.Obls[i]
			switch o.Status {
			case "violated":
				if f := ff.known(p, o.Rule, o.Key); f != nil {
					o.Status = "known"
					fmt.Printf("KNOWN-FINDING: property=%s %s [%s] %s — %s\n", p, o.Rule, o.Key, f.What, o.Detail)
				} else {
					viol = append(viol, *o)
				}
			case "undecided":
				undec = append(undec, *o)
			}
		}
		// stale known findings: listed as known but the rule no longer reports them -> tell the operator
		for _, f := range ff.Findings {
			if f.Status != "known" {
				continue
			}
			for _, fp := range f.Properties {
				if fp != p {
					continue
				}
				found := false
				for _, o := range rep.Obls {
					if o.Rule == f.Rule && o.Key == f.Key && o.Status == "known" {
						found = true
					}
				}
				if !found && replayKeys == nil {
					fmt.Printf("note: listed finding %s [%s] no longer reported on this tree\n", f.Rule, f.Key)
				}
			}
		}
		allObls = append(allObls, rep.Obls...)
		code := 0
		msg := ""
		violPath := filepath.Join(verifDir, "evidence", p+".violations.json")
		if len(viol) > 0 || len(undec) > 0 {
			code = 1
			both := append(append([]Obl{}, viol...), undec...)
			if !noEv {
				os.MkdirAll(filepath.Join(verifDir, "evidence"), 0o755)
				b, _ := json.MarshalIndent(both, "", " ")
				os.WriteFile(violPath, b, 0o644)
			}
			for _, o := range viol {
				fmt.Printf("violated %s [%s] %s: %s\n", o.Rule, o.Key, o.Desc, o.Detail)
			}
			for _, o := range undec {
				fmt.Printf("UNDECIDED %s [%s] %s: %s\n", o.Rule, o.Key, o.Desc, o.Detail)
			}
			fmt.Printf("VIOLATION property=%s replay=%s\n", p, violPath)
			if len(viol) == 0 {
				msg = "undecided obligations / hard failure: " + hard
			}
		} else if !noEv {
			os.Remove(violPath)
		}
		if !noEv {
			writeEvidence(verifDir, p, tier, seed, rep, w, loadDur+time.Since(tp), len(viol)+len(undec), msg)
		}
		nOk, nKnown, nNote := 0, 0, 0
		for _, o := range rep.Obls {
			switch o.Status {
			case "ok":
				nOk++
			case "known":
				nKnown++
			case "note":
				nNote++
			}
		}
		fmt.Printf("%s %s: %d obligations, %d discharged, %d known findings, %d notes, %d violated, %d undecided (%.1fs; %d packages, %d functions, %s call graph %d nodes)\n",
			p, tier, len(rep.Obls)-nNote, nOk, nKnown, nNote, len(viol), len(undec), time.Since(t0).Seconds(), len(w.Pkgs), len(w.RepoFuncs), w.CGKind, len(w.CG.Nodes))
		if code > worst {
			worst = code
		}
	}
	if jsonOut != "" {
		b, _ := json.MarshalIndent(allObls, "", " ")
		os.WriteFile(jsonOut, b, 0o644)
	}
	return worst
}

func writeEvidence(verifDir, p, tier string, seed int, rep *Report, w *World, dur time.Duration, violations int, failMsg string) {
	os.MkdirAll(filepath.Join(verifDir, "evidence"), 0o755)
	obligations, discharged, nontrivial := 0, 0, 0
	distinct := map[string]bool{}
	var samples []interface{}
	perRule := map[string]map[string]int{}
	for _, o := range rep.Obls {
		if perRule[o.Rule] == nil {
			perRule[o.Rule] = map[string]int{}
		}
		perRule[o.Rule][o.Status]++
		if o.Status == "note" {
			continue
		}
		obligations++
		if o.Status == "ok" {
			discharged++
		}
		if o.Nontrivial && !distinct[o.Rule+"|"+o.Key] {
			distinct[o.Rule+"|"+o.Key] = true
			nontrivial++
		}
	}
	// samples: every non-ok obligation plus the first two ok obligations of each rule
	cnt := map[string]int{}
	for _, o := range rep.Obls {
		if o.Status != "ok" || cnt[o.Rule] < 2 {
			samples = append(samples, o)
			if o.Status == "ok" {
				cnt[o.Rule]++
			}
		}
	}
	var ruleDocs []string
	for _, rid := range propertyRules[p] {
		if rules[rid] != nil {
			ruleDocs = append(ruleDocs, rid+": "+rules[rid].Doc)
		}
	}
	analysed := map[string]interface{}{}
	for k, v := range rep.Analysed {
		analysed[k] = v
	}
	if w != nil {
		analysed["packages"] = len(w.Pkgs)
		analysed["functions_with_bodies"] = len(w.RepoFuncs)
		analysed["callgraph"] = w.CGKind
		analysed["callgraph_nodes"] = len(w.CG.Nodes)
		analysed["server_packages"] = len(w.ServerPkgs)
		analysed["test_packages_loaded"] = w.WithTests
	}
	expl := "Static analysis of /repo's current working tree (go/packages + go/types + go/ssa, x/tools v0.29.0). " +
		"Each rule enumerates every instance of its construct in the tree and decides it on the SSA control-flow graph / call graph / type information; " +
		"what is decided is a set of structural necessary conditions of the property, not the behaviour itself (see DESIGN.md section 3, " + p + "). " +
		"Rules: " + strings.Join(ruleDocs, " | ")
	if failMsg != "" {
		expl = "FAILED RUN: " + failMsg + ". " + expl
	}
	ev := map[string]interface{}{
		"property_id": p,
		"tier":        tier,
		"seed":        seed,
		"level":       "other",
		"coverage": map[string]interface{}{
			"explanation":         expl,
			"obligations":         obligations,
			"discharged":          discharged,
			"evaluations":         obligations,
			"distinct_nontrivial": nontrivial,
			"rule":                "one obligation per (rule, construct key) found by enumerating the whole tree; non-trivial = the engine traversed at least one CFG path, call-graph edge or case set to decide it; distinct = distinct (rule,key)",
			"samples":             samples,
			"exhaustive":          true,
			"per_rule":            perRule,
			"analysed":            analysed,
			"checker_cmd":         "bin/sdbcheck -property " + p + " -tier " + tier,
			"mutation_selftest":   rep.Mutants,
			"trusted_base":        []string{"go/types and go/ssa of golang.org/x/tools v0.29.0", "VTA call graph (sound for the loaded program without reflection)", "frozen tables in checker/rules_*.go (guard table, transfer table, allow-lists), each entry justified in place", "build configuration linux/amd64, no build tags"},
		},
		"assumptions": []string{
			"panics are process death (the code base has no recover())",
			"structural necessary conditions only: a green run does not establish the behavioural property",
			"reflection / unsafe function values are not used to call repo functions",
		},
		"wall_s":     dur.Seconds(),
		"violations": violations,
	}
	b, _ := json.MarshalIndent(ev, "", " ")
	os.WriteFile(filepath.Join(verifDir, "evidence", p+".json"), b, 0o644)
}
