package main

// rules_catalog.go — shutdown / reopen, catalog identity, index lifecycle (C07, C09, C10).

import (
	"fmt"
	"go/ast"
	"go/constant"
	"go/token"
	"go/types"
	"sort"
	"strings"

	"golang.org/x/tools/go/ssa"
)

func init() {
	reg("C09-R1", "clean shutdown order: SamehadaDB.Shutdown stops the background threads and finalises index state before SamehadaInstance.Shutdown(CloseFiles), which forces the log, writes all dirty pages, only then appends the GracefulShutdown record, forces the log again and closes the files; no GracefulShutdown record is appended before the dirty pages were written", func(w *World, r *Report) {
		a := w.A()
		dbSh := w.Fn("samehada", "SamehadaDB", "Shutdown")
		inSh := w.Fn("samehada", "SamehadaInstance", "Shutdown")
		inShObj := w.MethodObj("samehada", "SamehadaInstance", "Shutdown")
		graceful := w.Const("recovery", "GracefulShutdown")
		// --- SamehadaDB.Shutdown
		calls := sitesCalling(dbSh, inShObj)
		r.Floor("SamehadaInstance.Shutdown call in SamehadaDB.Shutdown", len(calls), 1)
		for _, s := range calls {
			c := s.(*ssa.Call)
			cv, ok := constOf(c.Call.Args[len(c.Call.Args)-1])
			want, _ := constant.Int64Val(w.Const("samehada", "ShutdownPatternCloseFiles").Val())
			iv, _ := constant.Int64Val(cv)
			r.Check(ok && iv == want, "SamehadaDB.Shutdown:CloseFiles-pattern", "the clean shutdown keeps the files (ShutdownPatternCloseFiles)", "argument at "+w.InstrPos(s)+" is not ShutdownPatternCloseFiles")
		}
		early := appendSitesOfType(w, dbSh, graceful)
		r.Check(len(early) == 0, "SamehadaDB.Shutdown:no-early-graceful-record", "no GracefulShutdown record is appended before the instance flushed the dirty pages (a crash inside shutdown must not look clean)", func() string {
			if len(early) == 0 {
				return ""
			}
			return "GracefulShutdown record appended at " + w.InstrPos(early[0]) + " before SamehadaInstance.Shutdown writes the dirty pages; the instance's first log flush makes it durable"
		}())
		stops := map[string]*types.Func{
			"StopStatsUpdateTh":            w.MethodObj("concurrency", "StatisticsUpdater", "StopStatsUpdateTh"),
			"StopCheckpointTh":             w.MethodObj("concurrency", "CheckpointManager", "StopCheckpointTh"),
			"RequestManager.StopTh":        w.MethodObj("samehada", "RequestManager", "StopTh"),
			"finalizeIndexesInternalState": w.MethodObj("samehada", "SamehadaDB", "finalizeIndexesInternalState"),
		}
		var ks []string
		for k := range stops {
			ks = append(ks, k)
		}
		sort.Strings(ks)
		for _, k := range ks {
			mustPrecede(w, r, dbSh, "SamehadaDB.Shutdown:"+k+"-before-instance-shutdown", k+" happens before pages are flushed and files closed", InstrCallsObj(stops[k]), InstrCallsObj(inShObj))
		}
		wit := (&PathQ{Fn: dbSh, Avoid: InstrCallsObj(inShObj), Target: isReturn}).FromEntry()
		r.Check(wit == nil, "SamehadaDB.Shutdown:always-shuts-instance-down", "every path shuts the instance down", "path: "+w.DescribeWitness(dbSh, wit))
		// --- SamehadaInstance.Shutdown, specialised to CloseFiles
		var pat *ssa.Parameter
		for _, p := range inSh.Params {
			if p.Name() == "shutdownPat" {
				pat = p
			}
		}
		if pat == nil {
			fatalf("SamehadaInstance.Shutdown has no shutdownPat parameter")
		}
		closeV, _ := constant.Int64Val(w.Const("samehada", "ShutdownPatternCloseFiles").Val())
		spec := specCut(func(v ssa.Value) bool { return resolveCell(v) == ssa.Value(pat) }, closeV)
		fs := a.flushSumm()
		gs := appendSitesOfType(w, inSh, graceful)
		r.Floor("GracefulShutdown append in SamehadaInstance.Shutdown", len(gs), 1)
		isGS := func(in ssa.Instruction) bool {
			for _, s := range gs {
				if s == in {
					return true
				}
			}
			return false
		}
		isPages := InstrCallsObj(a.BPMFlushAllDirty, a.BPMFlushAll)
		wit = (&PathQ{Fn: inSh, Cut: []EdgeCut{spec}, Avoid: isPages, Target: isGS}).FromEntry()
		r.Check(wit == nil, "SamehadaInstance.Shutdown:pages-before-graceful-record", "the GracefulShutdown record is appended only after all dirty pages were written", "path: "+w.DescribeWitness(inSh, wit))
		wit = (&PathQ{Fn: inSh, Cut: []EdgeCut{spec}, Avoid: isGS, Target: InstrCallsObj(a.DMShutDown)}).FromEntry()
		r.Check(wit == nil, "SamehadaInstance.Shutdown:graceful-record-before-close", "a clean shutdown always appends the GracefulShutdown record before closing the files", "path: "+w.DescribeWitness(inSh, wit))
		wit = (&PathQ{Fn: inSh, Cut: []EdgeCut{spec}, Avoid: fs.MustSite, Target: InstrCallsObj(a.DMShutDown)}).FromAfter(gs)
		r.Check(wit == nil, "SamehadaInstance.Shutdown:flush-after-graceful-record", "the GracefulShutdown record is forced to disk before the files are closed", "path: "+w.DescribeWitness(inSh, wit))
		pw := func(in ssa.Instruction) bool { return isPages(in) || InstrCallsObj(a.BPMFlushPage)(in) }
		wit = (&PathQ{Fn: inSh, Cut: []EdgeCut{spec}, Target: pw}).FromAfter(gs)
		r.Check(wit == nil, "SamehadaInstance.Shutdown:no-page-write-after-graceful-record", "no page is written after the GracefulShutdown record", "path: "+w.DescribeWitness(inSh, wit))
		wit = (&PathQ{Fn: inSh, Cut: []EdgeCut{spec}, Avoid: InstrCallsObj(a.DMShutDown), Target: isReturn}).FromEntry()
		r.Check(wit == nil, "SamehadaInstance.Shutdown:closes-files", "a clean shutdown closes the files", "path: "+w.DescribeWitness(inSh, wit))
		// the graceful record is emitted nowhere else
		em := emittedTypes(w)
		gv, _ := constant.Int64Val(graceful.Val())
		for _, f := range em[gv] {
			k := funcKey(topFunc(f))
			r.Check(k == "(*samehada.SamehadaInstance).Shutdown" || k == "recovery.NewLogRecordGracefulShutdown", "graceful-record-emitter:"+k, "only SamehadaInstance.Shutdown emits the GracefulShutdown record", k+" constructs a GracefulShutdown record")
		}
	})

	reg("C09-R3", "every index.Index implementor that keeps container state outside the buffer pool (declares WriteOutContainerStateToBPM) has a case in the finalizeIndexesInternalState type switch that calls it", func(w *World, r *Report) {
		idx := w.Named("storage/index", "Index")
		fn := w.Fn("samehada", "SamehadaDB", "finalizeIndexesInternalState")
		n := 0
		for _, impl := range w.Implementors(idx) {
			o, _, _ := types.LookupFieldOrMethod(types.NewPointer(impl), true, impl.Obj().Pkg(), "WriteOutContainerStateToBPM")
			m, ok := o.(*types.Func)
			if !ok {
				continue
			}
			n++
			called := len(sitesCalling(fn, m)) > 0
			// the call sits behind a type assertion/switch to that implementor
			asserted := false
			for _, b := range fn.Blocks {
				for _, in := range b.Instrs {
					if ta, ok := in.(*ssa.TypeAssert); ok && types.Identical(ta.AssertedType, types.NewPointer(impl)) {
						asserted = true
					}
				}
			}
			r.Check(called && asserted, "finalize:"+impl.Obj().Name(), "finalizeIndexesInternalState writes out the state of "+impl.Obj().Name(), impl.Obj().Name()+" declares WriteOutContainerStateToBPM but the shutdown path does not call it")
		}
		r.Floor("implementors with out-of-pool state", n, 1)
		// ShutdownForTescase (crash-style stop used by tests) also finalises
	})

	reg("C09-R4", "catalog round trip: every column attribute written by Catalog.insertTable is read back by RecoveryCatalogFromCatalogPage under the same catalog column name, and both use the catalog schema functions", func(w *World, r *Report) {
		p := w.Pkg("catalog")
		// names declared by ColumnsCatalogSchema / TableCatalogSchema: string literals passed to column.NewColumn
		declared := func(fname string) []string {
			var out []string
			for _, f := range p.Syntax {
				for _, d := range f.Decls {
					fd, ok := d.(*ast.FuncDecl)
					if !ok || fd.Name.Name != fname {
						continue
					}
					ast.Inspect(fd, func(n ast.Node) bool {
						ce, ok := n.(*ast.CallExpr)
						if !ok || len(ce.Args) == 0 {
							return true
						}
						if sel, ok := ce.Fun.(*ast.SelectorExpr); ok && sel.Sel.Name == "NewColumn" {
							if bl, ok := ce.Args[0].(*ast.BasicLit); ok {
								out = append(out, strings.Trim(bl.Value, "\""))
							}
						}
						return true
					})
				}
			}
			return out
		}
		colNames := declared("ColumnsCatalogSchema")
		tblNames := declared("TableCatalogSchema")
		r.Floor("columns-catalog attributes", len(colNames), 9)
		r.Floor("table-catalog attributes", len(tblNames), 3)
		// names read back: GetColIndex("...") literals inside RecoveryCatalogFromCatalogPage
		read := map[string]bool{}
		for _, f := range p.Syntax {
			for _, d := range f.Decls {
				fd, ok := d.(*ast.FuncDecl)
				if !ok || fd.Name.Name != "RecoveryCatalogFromCatalogPage" {
					continue
				}
				ast.Inspect(fd, func(n ast.Node) bool {
					ce, ok := n.(*ast.CallExpr)
					if !ok || len(ce.Args) != 1 {
						return true
					}
					if sel, ok := ce.Fun.(*ast.SelectorExpr); ok && sel.Sel.Name == "GetColIndex" {
						if bl, ok := ce.Args[0].(*ast.BasicLit); ok {
							read[strings.Trim(bl.Value, "\"")] = true
						}
					}
					return true
				})
			}
		}
		for _, n := range append(append([]string{}, colNames...), tblNames...) {
			r.Check(read[n], "catalog-attribute-read-back:"+n, "attribute "+n+" is read back at reload", "RecoveryCatalogFromCatalogPage never reads catalog column "+n)
		}
		for n := range read {
			ok := false
			for _, d := range append(append([]string{}, colNames...), tblNames...) {
				if d == n {
					ok = true
				}
			}
			r.Check(ok, "catalog-attribute-declared:"+n, "reload reads only declared catalog columns", "reload reads undeclared catalog column "+n)
		}
		// insertTable writes one value per declared column: count of row appends between NewTupleFromSchema calls
		ins := w.Fn("catalog", "Catalog", "insertTable")
		newTuple := w.FuncObj("storage/tuple", "NewTupleFromSchema")
		sites := sitesCalling(ins, newTuple)
		r.Floor("NewTupleFromSchema sites in insertTable", len(sites), 2)
		// each column accessor feeding the columns row: distinct Column getters used
		getters := map[string]bool{}
		EachCall(ins, func(c ssa.CallInstruction) {
			if o := CalleeObj(c); o != nil && o.Type().(*types.Signature).Recv() != nil && strings.HasSuffix(o.Type().(*types.Signature).Recv().Type().String(), "column.Column") {
				getters[o.Name()] = true
			}
		})
		r.Check(len(getters)+1 >= len(colNames), "insertTable:one-getter-per-attribute", "insertTable feeds every columns-catalog attribute from a Column getter (plus the table oid)", fmt.Sprintf("insertTable uses %d Column getters for %d declared attributes", len(getters), len(colNames)))
		// reload hands every read attribute to the rebuilt column (setters or constructor args)
		rec := w.Fn("catalog", "", "RecoveryCatalogFromCatalogPage")
		setters := map[string]bool{}
		EachCall(rec, func(c ssa.CallInstruction) {
			if o := CalleeObj(c); o != nil && o.Type().(*types.Signature).Recv() != nil && strings.HasSuffix(o.Type().(*types.Signature).Recv().Type().String(), "column.Column") {
				setters[o.Name()] = true
			}
		})
		for _, s := range []string{"SetFixedLength", "SetVariableLength", "SetOffset", "SetHasIndex", "SetIndexKind", "SetIndexHeaderPageID"} {
			r.Check(setters[s], "reload:"+s, "reload restores the attribute through "+s, "RecoveryCatalogFromCatalogPage does not call Column."+s)
		}
	})

	reg("C10-R1", "the table-id counter restored by RecoveryCatalogFromCatalogPage depends on the oids read from the catalog heap (it is not a constant)", func(w *World, r *Report) {
		rec := w.Fn("catalog", "", "RecoveryCatalogFromCatalogPage")
		cat := w.Named("catalog", "Catalog").Underlying().(*types.Struct)
		nextFld := w.Field("catalog", "Catalog", "nextTableID")
		idxNext := -1
		for i := 0; i < cat.NumFields(); i++ {
			if cat.Field(i) == nextFld {
				idxNext = i
			}
		}
		n := 0
		for _, b := range rec.Blocks {
			for _, in := range b.Instrs {
				st, ok := in.(*ssa.Store)
				if !ok {
					continue
				}
				fa, ok := st.Addr.(*ssa.FieldAddr)
				if !ok || fa.Field != idxNext {
					continue
				}
				if sst, ok := derefStruct(fa.X.Type()); !ok || sst != cat {
					continue
				}
				n++
				getVal := w.MethodObj("storage/tuple", "Tuple", "GetValue")
				dep := DependsOn(st.Val, IsCallTo(getVal))
				_, isConst := constOf(st.Val)
				// running maximum: some branch compares the accumulator with the candidate (or the value goes through the max builtin)
				isMaxShape := false
				for v := range BackSlice(st.Val).Vals {
					phi, ok := v.(*ssa.Phi)
					if !ok || !types.Identical(phi.Type(), st.Val.Type()) {
						continue
					}
					// the accumulator: a phi of the counter's type that starts from a constant
					hasConst := false
					for _, e := range phi.Edges {
						if _, isC := e.(*ssa.Const); isC {
							hasConst = true
						}
					}
					if !hasConst {
						continue
					}
					for _, bb := range rec.Blocks {
						if i := blockIf(bb); i != nil && DependsOn(i.Cond, func(x ssa.Value) bool { return x == ssa.Value(phi) }) && DependsOn(i.Cond, IsCallTo(getVal)) {
							isMaxShape = true
						}
					}
				}
				for v := range BackSlice(st.Val).Vals {
					if c, ok := v.(*ssa.Call); ok {
						if bi, ok := c.Call.Value.(*ssa.Builtin); ok && bi.Name() == "max" {
							isMaxShape = true
						}
					}
				}
				r.Check(isMaxShape, "RecoveryCatalogFromCatalogPage:nextTableID-is-a-running-maximum", "the restored counter exceeds every stored table id whatever the order of the catalog rows (accumulator compared with each candidate)", "nextTableID at "+w.InstrPos(in)+" is taken from catalog rows without comparing against the value accumulated so far: it ends as (some row's oid)+1, which is below an id already in use when the rows are not met in creation order")
				r.Check(dep && !isConst, "RecoveryCatalogFromCatalogPage:nextTableID-from-catalog", "the next table id is derived from the table ids stored in the catalog", "nextTableID is initialised at "+w.InstrPos(in)+" with a value that does not depend on the catalog rows (constant): the first CREATE TABLE after a restart re-uses an existing table id")
			}
		}
		r.Floor("nextTableID initialisations in reload", n, 1)
	})

	reg("C10-R2", "Catalog.CreateTable takes the new table id from the atomic increment itself (no separate plain read of nextTableID)", func(w *World, r *Report) {
		fn := w.Fn("catalog", "Catalog", "CreateTable")
		nextFld := w.Field("catalog", "Catalog", "nextTableID")
		newMeta := w.FuncObj("catalog", "NewTableMetadata")
		var plainReads []ssa.Instruction
		for _, b := range fn.Blocks {
			for _, in := range b.Instrs {
				if u, ok := in.(*ssa.UnOp); ok && fieldLoadOf(u, nextFld) {
					plainReads = append(plainReads, in)
				}
			}
		}
		r.Check(len(plainReads) == 0, "CreateTable:no-plain-read-of-nextTableID", "the id counter is read only through the atomic operation", func() string {
			if len(plainReads) == 0 {
				return ""
			}
			return "plain (non-atomic) read of c.nextTableID at " + w.InstrPos(plainReads[0]) + ": two concurrent CREATE TABLE statements can obtain the same id"
		}())
		sites := sitesCalling(fn, newMeta)
		r.Floor("NewTableMetadata sites in CreateTable", len(sites), 1)
		for _, s := range sites {
			c := s.(*ssa.Call)
			oid := c.Call.Args[3]
			isAtomic := func(v ssa.Value) bool {
				cc, ok := v.(*ssa.Call)
				if !ok {
					return false
				}
				o := CalleeObj(cc)
				return o != nil && o.Pkg() != nil && o.Pkg().Path() == "sync/atomic"
			}
			r.Check(DependsOn(oid, isAtomic), "CreateTable:oid-from-atomic-op", "the oid given to the new table is the result of the atomic operation on the counter", "oid argument at "+w.InstrPos(s)+" does not depend on a sync/atomic call")
		}
	})

	reg("C10-R3", "Catalog.CreateTable registers the table under its id and name and persists it (insertTable) on every path; insertTable writes the table row and one row per column and flushes both catalog pages", func(w *World, r *Report) {
		a := w.A()
		fn := w.Fn("catalog", "Catalog", "CreateTable")
		ins := w.Fn("catalog", "Catalog", "insertTable")
		insObj := w.MethodObj("catalog", "Catalog", "insertTable")
		ids := w.Field("catalog", "Catalog", "tableIDs")
		names := w.Field("catalog", "Catalog", "tableNames")
		isUpd := func(f *types.Var) func(ssa.Instruction) bool {
			return func(in ssa.Instruction) bool {
				mu, ok := in.(*ssa.MapUpdate)
				return ok && fieldLoadOf(mu.Map, f)
			}
		}
		for k, pred := range map[string]func(ssa.Instruction) bool{"register-by-id": isUpd(ids), "register-by-name": isUpd(names), "persist": InstrCallsObj(insObj)} {
			wit := (&PathQ{Fn: fn, Avoid: pred, Target: isReturn}).FromEntry()
			r.Check(wit == nil, "CreateTable:"+k, "every path through CreateTable performs "+k, "path: "+w.DescribeWitness(fn, wit))
		}
		// the id map key and the metadata oid are the same value
		for _, b := range fn.Blocks {
			for _, in := range b.Instrs {
				if mu, ok := in.(*ssa.MapUpdate); ok && fieldLoadOf(mu.Map, ids) {
					newMeta := w.FuncObj("catalog", "NewTableMetadata")
					for _, s := range sitesCalling(fn, newMeta) {
						oidArg := s.(*ssa.Call).Call.Args[3]
						r.Check(resolveCell(mu.Key) == resolveCell(oidArg), "CreateTable:id-key-equals-metadata-oid", "the table is registered under the oid stored in its metadata", "map key at "+w.InstrPos(in)+" differs from the oid passed to NewTableMetadata")
					}
				}
			}
		}
		// insertTable
		nFlush := 0
		want := map[int64]bool{}
		for _, nm := range []string{"TableCatalogPageID", "ColumnsCatalogPageID"} {
			v, _ := constant.Int64Val(w.Const("catalog", nm).Val())
			want[v] = false
		}
		for _, s := range sitesCalling(ins, a.BPMFlushPage) {
			c := s.(*ssa.Call)
			if cv, ok := constOf(c.Call.Args[len(c.Call.Args)-1]); ok {
				iv, _ := constant.Int64Val(cv)
				if _, ok := want[iv]; ok {
					want[iv] = true
					nFlush++
					wit := (&PathQ{Fn: ins, Avoid: func(in ssa.Instruction) bool { return in == s }, Target: isReturn}).FromEntry()
					r.Check(wit == nil, fmt.Sprintf("insertTable:flush-catalog-page-%d", iv), "insertTable flushes this catalog page on every path", "path: "+w.DescribeWitness(ins, wit))
				}
			}
		}
		r.Floor("catalog page flushes in insertTable", nFlush, 2)
		inserts := sitesCalling(ins, a.THInsert)
		r.Floor("heap inserts in insertTable", len(inserts), 2)
		// one of them sits in a loop over the schema's columns
		getCols := w.MethodObj("storage/table/schema", "Schema", "GetColumns")
		inLoop := false
		for _, s := range inserts {
			if loopHeaderOf(s.Block()) != nil {
				inLoop = true
			}
		}
		r.Check(inLoop && len(sitesCalling(ins, getCols)) > 0, "insertTable:one-row-per-column", "a columns-catalog row is inserted for every column of the schema (loop over GetColumns())", "no heap insert inside a loop over the schema columns")
	})

	reg("C10-R4", "bootstrap and reload agree on the catalog page ids: the first heap created by BootstrapCatalog/CreateTable order and InitTableHeap(… TableCatalogPageID / ColumnsCatalogPageID …) at reload use the declared constants", func(w *World, r *Report) {
		rec := w.Fn("catalog", "", "RecoveryCatalogFromCatalogPage")
		initHeap := w.FuncObj("storage/access", "InitTableHeap")
		tv, _ := constant.Int64Val(w.Const("catalog", "TableCatalogPageID").Val())
		cvv, _ := constant.Int64Val(w.Const("catalog", "ColumnsCatalogPageID").Val())
		seen := map[int64]int{}
		nonConst := 0
		for _, s := range sitesCalling(rec, initHeap) {
			c := s.(*ssa.Call)
			if cv, ok := constOf(c.Call.Args[1]); ok {
				iv, _ := constant.Int64Val(cv)
				seen[iv]++
			} else {
				nonConst++
			}
		}
		r.Check(seen[tv] >= 2, "reload:table-catalog-page", "reload scans the table catalog at TableCatalogPageID and re-opens the catalog heap there", fmt.Sprintf("InitTableHeap with page id %d used %d times", tv, seen[tv]))
		r.Check(seen[cvv] >= 1, "reload:columns-catalog-page", "reload scans the columns catalog at ColumnsCatalogPageID", fmt.Sprintf("InitTableHeap with page id %d used %d times", cvv, seen[cvv]))
		r.Check(nonConst >= 1, "reload:user-heaps-from-first_page", "user table heaps are re-opened at the first_page stored in the catalog", "no InitTableHeap with a page id read from the catalog")
		for k := range seen {
			r.Check(k == tv || k == cvv, fmt.Sprintf("reload:const-page-%d", k), "only the two declared catalog page ids are used as constants", fmt.Sprintf("InitTableHeap with undeclared constant page id %d", k))
		}
		// the user heap's first page depends on the catalog row
		getVal := w.MethodObj("storage/tuple", "Tuple", "GetValue")
		for _, s := range sitesCalling(rec, initHeap) {
			c := s.(*ssa.Call)
			if _, ok := constOf(c.Call.Args[1]); !ok {
				r.Check(DependsOn(c.Call.Args[1], IsCallTo(getVal)), "reload:first_page-from-row", "the heap's first page id comes from the catalog row", "page id at "+w.InstrPos(s)+" does not depend on a catalog tuple value")
			}
		}
		// ColumnsCatalogOID row: bootstrap creates columns_catalog as the first table with oid 0
		boot := w.Fn("catalog", "", "BootstrapCatalog")
		create := w.MethodObj("catalog", "Catalog", "CreateTable")
		r.Check(len(sitesCalling(boot, create)) == 1, "bootstrap:creates-columns-catalog", "bootstrap creates exactly the columns catalog table", "BootstrapCatalog does not call CreateTable exactly once")
	})

	reg("C07-R2", "index kinds: every IndexKind constant (except IndexKindInvalid) has a case in NewTableMetadata (construction) and in reconstructIndexDataOfATbl (rebuild)", func(w *World, r *Report) {
		kind := w.Named("storage/index/index_constants", "IndexKind")
		enum := enumConsts(w, kind)
		kindM := w.MethodObj("storage/table/column", "Column", "IndexKind")
		subj := func(v ssa.Value) bool { return IsCallTo(kindM)(stripConv(v)) }
		mk := caseSet(w.Fn("catalog", "", "NewTableMetadata"), subj)
		rb := caseSet(w.Fn("samehada", "", "reconstructIndexDataOfATbl"), subj)
		n := 0
		var vals []int64
		for v := range enum {
			vals = append(vals, v)
		}
		sort.Slice(vals, func(i, j int) bool { return vals[i] < vals[j] })
		for _, v := range vals {
			c := enum[v]
			if c.Name() == "IndexKindInvalid" {
				continue
			}
			n++
			r.Check(mk[v], "NewTableMetadata:case:"+c.Name(), "NewTableMetadata constructs an index of kind "+c.Name(), "no case for "+c.Name())
			r.Check(rb[v], "reconstructIndexDataOfATbl:case:"+c.Name(), "index rebuild handles kind "+c.Name(), "no case for "+c.Name())
		}
		r.Floor("index kinds", n, 4)
	})

	reg("C07-R3", "restart: each index kind is either re-attached to its persisted header page (constructor argument depends on col.IndexHeaderPageID()) or is rebuilt from the heap on every start — the rebuild of such kinds must not be skipped after a graceful shutdown", func(w *World, r *Report) {
		kind := w.Named("storage/index/index_constants", "IndexKind")
		enum := enumConsts(w, kind)
		kindM := w.MethodObj("storage/table/column", "Column", "IndexKind")
		hdr := w.MethodObj("storage/table/column", "Column", "IndexHeaderPageID")
		subj := func(v ssa.Value) bool { return IsCallTo(kindM)(stripConv(v)) }
		mk := w.Fn("catalog", "", "NewTableMetadata")
		idxIface := w.Named("storage/index", "Index")
		ctorOf := map[*types.Func]bool{}
		for _, impl := range w.Implementors(idxIface) {
			if o := impl.Obj().Pkg().Scope().Lookup("New" + impl.Obj().Name()); o != nil {
				if f, ok := o.(*types.Func); ok {
					ctorOf[f] = true
				}
			}
		}
		r.Floor("index constructors", len(ctorOf), 4)
		// rebuild-on-graceful-start: is the ReconstructAllIndexData call in NewSamehadaDB reachable when Redo reported graceful?
		nsdb := w.Fn("samehada", "", "NewSamehadaDB")
		redoObj := w.MethodObj("recovery/log_recovery", "LogRecovery", "Redo")
		recon := w.FuncObj("samehada", "ReconstructAllIndexData")
		redoSites := sitesCalling(nsdb, redoObj)
		r.Floor("Redo sites", len(redoSites), 1)
		redoCall := redoSites[0].(*ssa.Call)
		isGraceful := func(v ssa.Value) bool {
			e, ok := resolveCell(v).(*ssa.Extract)
			return ok && e.Tuple == ssa.Value(redoCall) && e.Index == 2
		}
		// specialise to isGracefulShutdown == true
		gcut := CutWhen(isGraceful, false)
		reconFn := w.Fn("samehada", "", "reconstructIndexDataOfATbl")
		insertEntry := w.family(w.MethodObj("storage/index", "Index", "InsertEntry"))
		isInsert := func(in ssa.Instruction) bool {
			c, ok := in.(ssa.CallInstruction)
			if !ok {
				return false
			}
			o := CalleeObj(c)
			return o != nil && insertEntry[o]
		}
		// does the rebuild function, called with the given constant flag values, reach InsertEntry for kind K?
		insertReachable := func(call *ssa.Call, K int64) bool {
			var cuts []EdgeCut
			for i, p := range reconFn.Params {
				if b, ok := p.Type().Underlying().(*types.Basic); ok && b.Kind() == types.Bool {
					if cv, ok := constOf(call.Call.Args[i]); ok {
						pp := p
						cuts = append(cuts, CutWhen(func(v ssa.Value) bool { return resolveCell(v) == ssa.Value(pp) }, !constant.BoolVal(cv)))
					}
				}
			}
			// Ifs on a pure predicate g(kind): evaluate g for K
			cuts = append(cuts, func(b *ssa.BasicBlock, succ int) bool {
				i := blockIf(b)
				if i == nil {
					return false
				}
				v, neg := condBase(i.Cond)
				gc, ok := v.(*ssa.Call)
				if !ok {
					return false
				}
				g := gc.Call.StaticCallee()
				if g == nil || g.Blocks == nil || len(g.Params) != 1 || !types.Identical(g.Params[0].Type(), kind) {
					return false
				}
				val, known := evalBoolFnOnEnum(g, K)
				if !known {
					return false
				}
				condVal := val != neg
				if condVal {
					return succ == 1
				}
				return succ == 0
			})
			// switch on col.IndexKind() inside the rebuild function
			cuts = append(cuts, specCut(subj, K))
			return (&PathQ{Fn: reconFn, Cut: cuts, Target: isInsert}).FromEntry() != nil
		}
		rebuildOnGraceful := func(K int64) bool {
			reach := (&PathQ{Fn: nsdb, Cut: []EdgeCut{gcut}}).ReachableInstrs()
			for in := range reach {
				c, ok := in.(*ssa.Call)
				if !ok {
					continue
				}
				f := c.Call.StaticCallee()
				if f == nil || f.Blocks == nil || f.Pkg == nil || f.Pkg.Pkg.Path() != libMod+"/samehada" {
					continue
				}
				for _, b := range f.Blocks {
					for _, in2 := range b.Instrs {
						if c2, ok := in2.(*ssa.Call); ok && c2.Call.StaticCallee() == reconFn {
							if insertReachable(c2, K) {
								return true
							}
						}
					}
				}
			}
			return false
		}
		_ = recon
		var vals []int64
		for v := range enum {
			vals = append(vals, v)
		}
		sort.Slice(vals, func(i, j int) bool { return vals[i] < vals[j] })
		n := 0
		for _, v := range vals {
			c := enum[v]
			if c.Name() == "IndexKindInvalid" {
				continue
			}
			n++
			reach := (&PathQ{Fn: mk, Cut: []EdgeCut{specCut(subj, v)}}).ReachableInstrs()
			reattach := false
			found := false
			for in := range reach {
				call, ok := in.(*ssa.Call)
				if !ok {
					continue
				}
				if o := CalleeObj(call); o != nil && ctorOf[o] {
					found = true
					for _, arg := range call.Call.Args {
						if DependsOn(arg, IsCallTo(hdr)) {
							reattach = true
						}
					}
				}
			}
			if !found {
				r.Bad("restart:"+c.Name(), "an index constructor is called for kind "+c.Name(), "no index constructor reachable in NewTableMetadata for "+c.Name())
				continue
			}
			r.Check(reattach || rebuildOnGraceful(v), "restart:"+c.Name(), "kind "+c.Name()+" is re-attached to its persisted pages or rebuilt on every start", "index kind "+c.Name()+" is created empty by NewTableMetadata (constructor gets no persisted header page id) and NewSamehadaDB rebuilds indexes only after an unclean stop: after Shutdown()+reopen every scan through such an index returns nothing")
		}
		r.Floor("index kinds", n, 4)
	})
}

// evalBoolFnOnEnum evaluates a pure predicate g(k) over an enum constant: specialise g's parameter to K
// and collect the boolean constants its reachable returns can yield.
func evalBoolFnOnEnum(g *ssa.Function, K int64) (bool, bool) {
	p := g.Params[0]
	spec := specCut(func(v ssa.Value) bool { return resolveCell(stripConv(v)) == ssa.Value(p) }, K)
	reach := (&PathQ{Fn: g, Cut: []EdgeCut{spec}}).ReachableInstrs()
	seenT, seenF, unknown := false, false, false
	for in := range reach {
		ret, ok := in.(*ssa.Return)
		if !ok || len(ret.Results) != 1 {
			continue
		}
		cv, ok := constOf(retOperand(ret, 0))
		if !ok || cv.Kind() != constant.Bool {
			unknown = true
			continue
		}
		if constant.BoolVal(cv) {
			seenT = true
		} else {
			seenF = true
		}
	}
	if unknown || seenT == seenF {
		return false, false
	}
	return seenT, true
}

func init() {
	reg("C07-R6", "the index header page id in the catalog follows the index: an index kind that is re-attached to its persisted header page at a graceful launch may be created on new pages at a launch after a crash; RecoveryCatalogFromCatalogPage therefore compares, per column, the id the index reports after construction (Column.IndexHeaderPageID) with the id stored in the columns catalog, and on the side where they differ every path passes TableHeap.UpdateTuple before the comparison is evaluated again or the function returns", func(w *World, r *Report) {
		a := w.A()
		fn := w.Fn("catalog", "", "RecoveryCatalogFromCatalogPage")
		idxHdr := w.MethodObj("storage/table/column", "Column", "IndexHeaderPageID")
		getVal := w.MethodObj("storage/tuple", "Tuple", "GetValue")
		n := 0
		for _, b := range fn.Blocks {
			i := blockIf(b)
			if i == nil {
				continue
			}
			var cmp *ssa.BinOp
			DependsOn(i.Cond, func(x ssa.Value) bool {
				bo, ok := x.(*ssa.BinOp)
				if !ok || (bo.Op != token.NEQ && bo.Op != token.EQL) || cmp != nil {
					return false
				}
				// one operand *is* the id the column reports now, the other comes from the stored row
				isIdx := func(v ssa.Value) bool { return IsCallTo(idxHdr)(stripConv(v)) }
				fromRow := func(v ssa.Value) bool { return !isIdx(v) && DependsOn(v, IsCallTo(getVal)) }
				if (isIdx(bo.X) && fromRow(bo.Y)) || (isIdx(bo.Y) && fromRow(bo.X)) {
					cmp = bo
				}
				return false
			})
			if cmp == nil {
				continue
			}
			n++
			// the block that evaluates the comparison, and its "differs" successor
			cb := cmp.Block()
			ci := blockIf(cb)
			if ci == nil {
				r.Bad("RecoveryCatalogFromCatalogPage:header-id-comparison-is-a-branch", "the comparison decides a branch", "comparison at "+w.Pos(cmp.Pos())+" is not a branch condition")
				continue
			}
			base, neg := condBase(ci.Cond)
			if base != ssa.Value(cmp) {
				continue
			}
			differsSucc := 0
			if (cmp.Op == token.EQL) != neg {
				differsSucc = 1
			}
			wit := (&PathQ{Fn: fn, Avoid: InstrCallsObj(a.THUpdate), Target: func(in ssa.Instruction) bool { return isReturn(in) || in == ssa.Instruction(cmp) }}).FromAfterPos(cb.Succs[differsSucc])
			r.Check(wit == nil, "RecoveryCatalogFromCatalogPage:changed-header-id-is-stored", "when an index reports another header page id than the catalog holds, the catalog row is updated", "path from the `differs` side to the next column / return without TableHeap.UpdateTuple: "+w.DescribeWitness(fn, wit))
		}
		r.Floor("comparisons of the reported and the stored index header page id", n, 1)
	})
}
