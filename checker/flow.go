package main

// flow.go — path queries over the SSA control-flow graph at instruction granularity:
//   * constant-edge pruning (dead debug code hangs off `if false`)
//   * guard edges (true/false edge of an If whose condition is a resolved call / comparison)
//   * "exists a path from S to T avoiding B with edges E removed" — the single primitive behind
//     the ORD (must-pass-through) and GRD (guard-cut reachability) engines
//   * must-reach / may-reach summaries over the call graph
//   * backward data-dependence slices (DEP)

import (
	"fmt"
	"go/constant"
	"go/token"
	"go/types"
	"sort"
	"strings"

	"golang.org/x/tools/go/ssa"
)

// EdgeCut reports whether the edge b -> b.Succs[succ] is removed from the graph.
type EdgeCut func(b *ssa.BasicBlock, succ int) bool

// condBase strips negations and comparisons with boolean constants from a condition value and
// returns the underlying value plus whether it was negated an odd number of times.
// curBind: boolean phi nodes resolved on the path currently explored by a PathQ (set by the
// search before edge cuts are evaluated; nil outside a search). `x := a || b; if !x` keeps the
// information which operand decided x only on the path, not in the value.
var curBind map[*ssa.Phi]ssa.Value

func condBase(v ssa.Value) (ssa.Value, bool) {
	neg := false
	for {
		switch x := v.(type) {
		case *ssa.Phi:
			if bv, ok := curBind[x]; ok && bv != ssa.Value(x) {
				v = bv
				continue
			}
		case *ssa.UnOp:
			if x.Op == token.NOT {
				neg = !neg
				v = x.X
				continue
			}
		case *ssa.BinOp:
			if x.Op == token.EQL || x.Op == token.NEQ {
				if c, ok := x.Y.(*ssa.Const); ok && c.Value != nil && c.Value.Kind() == constant.Bool {
					if constant.BoolVal(c.Value) != (x.Op == token.EQL) {
						neg = !neg
					}
					v = x.X
					continue
				}
				if c, ok := x.X.(*ssa.Const); ok && c.Value != nil && c.Value.Kind() == constant.Bool {
					if constant.BoolVal(c.Value) != (x.Op == token.EQL) {
						neg = !neg
					}
					v = x.Y
					continue
				}
			}
		}
		return v, neg
	}
}

// blockIf returns the If terminating b, or nil.
func blockIf(b *ssa.BasicBlock) *ssa.If {
	if len(b.Instrs) == 0 {
		return nil
	}
	i, _ := b.Instrs[len(b.Instrs)-1].(*ssa.If)
	return i
}

// constCut removes edges that cannot be taken because the condition is a compile-time constant.
func constCut(b *ssa.BasicBlock, succ int) bool {
	i := blockIf(b)
	if i == nil {
		return false
	}
	v, neg := condBase(i.Cond)
	c, ok := v.(*ssa.Const)
	if !ok || c.Value == nil || c.Value.Kind() != constant.Bool {
		return false
	}
	val := constant.BoolVal(c.Value) != neg
	// succ 0 is the true edge
	if val {
		return succ == 1
	}
	return succ == 0
}

// CutWhen builds an EdgeCut that removes, for every If whose (de-negated) condition satisfies
// match, the edge on which the condition has truth value `truth`.
func CutWhen(match func(v ssa.Value) bool, truth bool) EdgeCut {
	return func(b *ssa.BasicBlock, succ int) bool {
		i := blockIf(b)
		if i == nil {
			return false
		}
		v, neg := condBase(i.Cond)
		if !match(v) {
			return false
		}
		// edge on which v == truth: if !neg, cond==truth -> succ 0 when truth; if neg, flipped
		condVal := truth != neg // value of If.Cond on that edge
		if condVal {
			return succ == 0
		}
		return succ == 1
	}
}

// IsCallTo matches SSA values that are calls whose named callee object is one of objs
// (static function, concrete method, or interface method).
func IsCallTo(objs ...*types.Func) func(ssa.Value) bool {
	set := map[*types.Func]bool{}
	for _, o := range objs {
		set[o] = true
	}
	return func(v ssa.Value) bool {
		c, ok := v.(*ssa.Call)
		if !ok {
			return false
		}
		o := CalleeObj(c)
		if o == nil {
			return false
		}
		return set[o] || set[o.Origin()]
	}
}

// InstrCallsObj matches call instructions (call, go, defer) naming one of objs.
func InstrCallsObj(objs ...*types.Func) func(ssa.Instruction) bool {
	set := map[*types.Func]bool{}
	for _, o := range objs {
		set[o] = true
	}
	return func(in ssa.Instruction) bool {
		c, ok := in.(ssa.CallInstruction)
		if !ok {
			return false
		}
		if _, isDefer := in.(*ssa.Defer); isDefer {
			return false // a deferred call runs at RunDefers, not here
		}
		o := CalleeObj(c)
		return o != nil && (set[o] || set[o.Origin()])
	}
}

func isReturn(in ssa.Instruction) bool { _, ok := in.(*ssa.Return); return ok }

// PathQ: does a path exist from the start to an instruction matching Target, along which no
// instruction matches Avoid, using only edges not removed by Cut (constant edges always removed)?
type PathQ struct {
	Fn     *ssa.Function
	Cut    []EdgeCut
	Avoid  func(ssa.Instruction) bool
	Target func(ssa.Instruction) bool
	// statistics
	Visited int
}

type Witness struct {
	Start  ssa.Instruction // nil = function entry
	Target ssa.Instruction
	Blocks []int // block indices along the path
}

func (q *PathQ) cut(b *ssa.BasicBlock, s int) bool {
	if constCut(b, s) {
		return true
	}
	for _, c := range q.Cut {
		if c(b, s) {
			return true
		}
	}
	return false
}

type bpos struct {
	b *ssa.BasicBlock
	i int
}

// Bound resolves a boolean phi to the operand it received on the path currently explored.
func Bound(v ssa.Value) ssa.Value {
	for k := 0; k < 4; k++ {
		p, ok := v.(*ssa.Phi)
		if !ok {
			return v
		}
		bv, ok := curBind[p]
		if !ok || bv == v {
			return v
		}
		v = bv
	}
	return v
}

// bindPhis extends the boolean-phi bindings along the edge pred -> blk.
func bindPhis(bind map[*ssa.Phi]ssa.Value, pred, blk *ssa.BasicBlock) map[*ssa.Phi]ssa.Value {
	pi := -1
	for i, p := range blk.Preds {
		if p == pred {
			pi = i
		}
	}
	var out map[*ssa.Phi]ssa.Value
	for _, in := range blk.Instrs {
		phi, ok := in.(*ssa.Phi)
		if !ok {
			break
		}
		b, isBasic := phi.Type().Underlying().(*types.Basic)
		if !isBasic || b.Kind() != types.Bool || pi < 0 || pi >= len(phi.Edges) {
			continue
		}
		val := phi.Edges[pi]
		for k := 0; k < 4; k++ {
			if p2, ok := val.(*ssa.Phi); ok {
				if bv, ok := bind[p2]; ok {
					val = bv
					continue
				}
			}
			break
		}
		if out == nil {
			out = make(map[*ssa.Phi]ssa.Value, len(bind)+1)
			for k, v := range bind {
				out[k] = v
			}
		}
		out[phi] = val
	}
	if out == nil {
		return bind
	}
	return out
}

func bindKey(bind map[*ssa.Phi]ssa.Value) string {
	if len(bind) == 0 {
		return ""
	}
	var parts []string
	for k, v := range bind {
		parts = append(parts, k.Name()+"="+v.Name()+":"+v.String())
	}
	sort.Strings(parts)
	return strings.Join(parts, ",")
}

// search runs a BFS from the given (block, instruction index) positions. Boolean phi nodes are bound
// to the operand of the edge taken, so the state is (block, bindings).
func (q *PathQ) search(starts []bpos, startInstr []ssa.Instruction) *Witness {
	type node struct {
		p      bpos
		parent int
		origin int
		bind   map[*ssa.Phi]ssa.Value
	}
	var nodes []node
	seenEntry := map[string]bool{}
	queue := []int{}
	for k, s := range starts {
		nodes = append(nodes, node{s, -1, k, nil})
		queue = append(queue, len(nodes)-1)
	}
	defer func() { curBind = nil }()
	for len(queue) > 0 {
		ni := queue[0]
		queue = queue[1:]
		n := nodes[ni]
		b := n.p.b
		q.Visited++
		dead := false
		curBind = n.bind // callbacks may resolve boolean phis of this path through Bound()
		for i := n.p.i; i < len(b.Instrs); i++ {
			in := b.Instrs[i]
			if q.Target != nil && q.Target(in) {
				wit := &Witness{Target: in}
				if startInstr != nil {
					wit.Start = startInstr[n.origin]
				}
				for k := ni; k >= 0; k = nodes[k].parent {
					wit.Blocks = append([]int{nodes[k].p.b.Index}, wit.Blocks...)
				}
				return wit
			}
			if q.Avoid != nil && q.Avoid(in) {
				dead = true
				break
			}
		}
		if dead {
			continue
		}
		curBind = n.bind
		for s, succ := range b.Succs {
			if q.cut(b, s) {
				continue
			}
			nb := bindPhis(n.bind, b, succ)
			key := itoa(succ.Index) + "|" + bindKey(nb)
			if seenEntry[key] {
				continue
			}
			seenEntry[key] = true
			nodes = append(nodes, node{bpos{succ, 0}, ni, n.origin, nb})
			queue = append(queue, len(nodes)-1)
			if len(nodes) > 200000 {
				panic(hardFail{"path query state cap hit in " + funcKey(q.Fn)})
			}
		}
		curBind = nil
	}
	return nil
}

// FromEntry searches from the first instruction of the function.
func (q *PathQ) FromEntry() *Witness {
	if len(q.Fn.Blocks) == 0 {
		return nil
	}
	return q.search([]bpos{{q.Fn.Blocks[0], 0}}, nil)
}

// FromAfter searches from the instruction following each start instruction.
func (q *PathQ) FromAfter(starts []ssa.Instruction) *Witness {
	var ps []bpos
	for _, s := range starts {
		b := s.Block()
		for i, in := range b.Instrs {
			if in == s {
				ps = append(ps, bpos{b, i + 1})
				break
			}
		}
	}
	return q.search(ps, starts)
}

// FromAfterPos searches from the first instruction of block b.
func (q *PathQ) FromAfterPos(b *ssa.BasicBlock) *Witness {
	return q.search([]bpos{{b, 0}}, nil)
}

// Reachable lists every instruction of Fn reachable from entry under the cuts (Avoid respected).
func (q *PathQ) ReachableInstrs() map[ssa.Instruction]bool {
	out := map[ssa.Instruction]bool{}
	if len(q.Fn.Blocks) == 0 {
		return out
	}
	type st struct {
		b    *ssa.BasicBlock
		bind map[*ssa.Phi]ssa.Value
	}
	seen := map[string]bool{itoa(q.Fn.Blocks[0].Index) + "|": true}
	work := []st{{q.Fn.Blocks[0], nil}}
	defer func() { curBind = nil }()
	for len(work) > 0 {
		cur := work[0]
		work = work[1:]
		b := cur.b
		dead := false
		for _, in := range b.Instrs {
			out[in] = true
			if q.Avoid != nil && q.Avoid(in) {
				dead = true
				break
			}
		}
		if dead {
			continue
		}
		curBind = cur.bind
		for s, succ := range b.Succs {
			if q.cut(b, s) {
				continue
			}
			nb := bindPhis(cur.bind, b, succ)
			key := itoa(succ.Index) + "|" + bindKey(nb)
			if seen[key] {
				continue
			}
			seen[key] = true
			work = append(work, st{succ, nb})
		}
		curBind = nil
	}
	return out
}

func (w *World) DescribeWitness(fn *ssa.Function, wit *Witness) string {
	if wit == nil {
		return ""
	}
	var sb strings.Builder
	if wit.Start != nil {
		sb.WriteString("from " + w.InstrPos(wit.Start) + " ")
	} else {
		sb.WriteString("from entry of " + funcKey(fn) + " ")
	}
	sb.WriteString("to " + w.InstrPos(wit.Target) + " [" + instrShort(wit.Target) + "] via blocks")
	for k, bi := range wit.Blocks {
		if k > 12 {
			sb.WriteString(" …")
			break
		}
		sb.WriteString(" " + itoa(bi))
	}
	// line trace of block heads
	var lines []string
	for _, bi := range wit.Blocks {
		b := fn.Blocks[bi]
		for _, in := range b.Instrs {
			if in.Pos().IsValid() {
				p := w.Pos(in.Pos())
				if i := strings.LastIndex(p, ":"); i >= 0 {
					p = p[i+1:]
				}
				if len(lines) == 0 || lines[len(lines)-1] != p {
					lines = append(lines, p)
				}
				break
			}
		}
	}
	if len(lines) > 0 {
		if len(lines) > 14 {
			lines = append(lines[:14], "…")
		}
		sb.WriteString(" (lines " + strings.Join(lines, ">") + ")")
	}
	return sb.String()
}

func itoa(i int) string {
	if i == 0 {
		return "0"
	}
	neg := i < 0
	if neg {
		i = -i
	}
	var b []byte
	for i > 0 {
		b = append([]byte{byte('0' + i%10)}, b...)
		i /= 10
	}
	if neg {
		b = append([]byte{'-'}, b...)
	}
	return string(b)
}

func instrShort(in ssa.Instruction) string {
	s := in.String()
	if v, ok := in.(ssa.Value); ok {
		s = v.Name() + " = " + s
	}
	if len(s) > 90 {
		s = s[:90] + "…"
	}
	return s
}

// ---------------------------------------------------------------------------------------------
// interprocedural summaries

// Summ holds memoised must-reach / may-reach facts for one target predicate.
type Summ struct {
	W *World
	// IsTarget: the call instruction itself is a target site (independent of callee bodies)
	IsTarget func(ssa.Instruction) bool
	// Assume: edge cuts applied inside every callee while summarising (e.g. "logging is enabled")
	Assume   []EdgeCut
	MaxDepth int
	must     map[*ssa.Function]int // 0 unknown, 1 true, 2 false, 3 in progress
	may      map[*ssa.Function]int
}

func NewSumm(w *World, isTarget func(ssa.Instruction) bool, assume ...EdgeCut) *Summ {
	return &Summ{W: w, IsTarget: isTarget, Assume: assume, MaxDepth: 6, must: map[*ssa.Function]int{}, may: map[*ssa.Function]int{}}
}

// MustSite: executing this instruction certainly passes a target (it is a target call, or every
// possible callee must-reach a target on all of its entry->return paths).
func (s *Summ) MustSite(in ssa.Instruction) bool { return s.mustSite(in, 0) }

func (s *Summ) mustSite(in ssa.Instruction, depth int) bool {
	if _, isGo := in.(*ssa.Go); isGo {
		return false
	}
	if _, isDefer := in.(*ssa.Defer); isDefer {
		return false
	}
	if s.IsTarget(in) {
		return true
	}
	c, ok := in.(ssa.CallInstruction)
	if !ok {
		return false
	}
	cs := s.W.Callees(c)
	if len(cs) == 0 {
		return false
	}
	for _, f := range cs {
		if !s.mustFn(f, depth+1) {
			return false
		}
	}
	return true
}

func (s *Summ) MustFn(f *ssa.Function) bool { return s.mustFn(f, 0) }

func (s *Summ) mustFn(f *ssa.Function, depth int) bool {
	if f == nil || f.Blocks == nil || depth > s.MaxDepth {
		return false
	}
	switch s.must[f] {
	case 1:
		return true
	case 2, 3:
		return false // recursion = false
	}
	s.must[f] = 3
	q := &PathQ{Fn: f, Cut: s.Assume,
		Avoid:  func(in ssa.Instruction) bool { return s.mustSite(in, depth) },
		Target: isReturn}
	ok := q.FromEntry() == nil
	if ok {
		s.must[f] = 1
	} else {
		s.must[f] = 2
	}
	return ok
}

// MaySite: executing this instruction may (transitively, through repo functions) reach a target.
func (s *Summ) MaySite(in ssa.Instruction) bool {
	if s.IsTarget(in) {
		return true
	}
	c, ok := in.(ssa.CallInstruction)
	if !ok {
		return false
	}
	for _, f := range s.W.Callees(c) {
		if s.MayFn(f) {
			return true
		}
	}
	return false
}

func (s *Summ) MayFn(f *ssa.Function) bool {
	if f == nil || f.Blocks == nil {
		return false
	}
	switch s.may[f] {
	case 1:
		return true
	case 2, 3:
		return false
	}
	s.may[f] = 3
	res := false
	reach := (&PathQ{Fn: f, Cut: s.Assume}).ReachableInstrs()
	for _, ff := range WithNested(f) {
		for _, b := range ff.Blocks {
			for _, in := range b.Instrs {
				if ff == f && !reach[in] {
					continue
				}
				if s.MaySite(in) {
					res = true
				}
			}
		}
	}
	if res {
		s.may[f] = 1
	} else {
		s.may[f] = 2
	}
	return res
}

// ---------------------------------------------------------------------------------------------
// DEP: backward data-dependence slice (may-depend, over-approximate)

type Slice struct {
	Vals   map[ssa.Value]bool
	Instrs int
}

// BackSlice collects every SSA value that v may depend on inside its function: operands, phi
// edges, loads from cells (all stores to the same alloc / field address expression in the function),
// tuple extraction, call arguments (results are assumed to depend on all arguments and receiver).
// If intoCallees is non-nil, results of calls to repo functions additionally depend on the
// callee's returned values (one level, through `follow`).
func BackSlice(v ssa.Value) *Slice {
	s := &Slice{Vals: map[ssa.Value]bool{}}
	var visit func(v ssa.Value)
	visit = func(v ssa.Value) {
		if v == nil || s.Vals[v] {
			return
		}
		s.Vals[v] = true
		s.Instrs++
		switch x := v.(type) {
		case *ssa.UnOp:
			visit(x.X)
			if x.Op == token.MUL { // load: look for stores to the same address in this function
				for _, st := range storesTo(x.X) {
					visit(st.Val)
				}
			}
		case *ssa.Phi:
			for _, e := range x.Edges {
				visit(e)
			}
		case *ssa.Alloc:
			// contents written through derived addresses (variadic argument arrays, struct literals)
			for _, st := range storesInto(x) {
				visit(st.Val)
			}
		case ssa.Instruction:
			for _, op := range x.Operands(nil) {
				if op != nil && *op != nil {
					visit(*op)
				}
			}
		}
	}
	visit(v)
	return s
}

// sameAddr: two address values denote the same cell if they are the same SSA value, or field
// addresses of the same field on sameAddr bases, or index addresses with identical operands.
func sameAddr(a, b ssa.Value) bool {
	if a == b {
		return true
	}
	switch x := a.(type) {
	case *ssa.FieldAddr:
		y, ok := b.(*ssa.FieldAddr)
		return ok && x.Field == y.Field && sameBase(x.X, y.X)
	case *ssa.IndexAddr:
		y, ok := b.(*ssa.IndexAddr)
		return ok && sameBase(x.X, y.X) && x.Index == y.Index
	}
	return false
}

func sameBase(a, b ssa.Value) bool {
	if a == b {
		return true
	}
	// loads of the same single-store cell
	ua, ok1 := a.(*ssa.UnOp)
	ub, ok2 := b.(*ssa.UnOp)
	if ok1 && ok2 && ua.Op == token.MUL && ub.Op == token.MUL {
		return sameAddr(ua.X, ub.X)
	}
	return sameAddr(a, b)
}

func storesTo(addr ssa.Value) []*ssa.Store {
	var fn *ssa.Function
	if in, ok := addr.(ssa.Instruction); ok {
		fn = in.Parent()
	} else if p, ok := addr.(*ssa.Parameter); ok {
		fn = p.Parent()
	} else if fv, ok := addr.(*ssa.FreeVar); ok {
		fn = fv.Parent()
	}
	if fn == nil {
		return nil
	}
	var out []*ssa.Store
	for _, b := range fn.Blocks {
		for _, in := range b.Instrs {
			if st, ok := in.(*ssa.Store); ok && sameAddr(st.Addr, addr) {
				out = append(out, st)
			}
		}
	}
	return out
}

// storesInto: stores whose address is the alloc itself or a field/index address rooted at it.
func storesInto(al *ssa.Alloc) []*ssa.Store {
	fn := al.Parent()
	var out []*ssa.Store
	for _, b := range fn.Blocks {
		for _, in := range b.Instrs {
			st, ok := in.(*ssa.Store)
			if !ok {
				continue
			}
			a := st.Addr
			for {
				if a == ssa.Value(al) {
					out = append(out, st)
					break
				}
				if fa, ok := a.(*ssa.FieldAddr); ok {
					a = fa.X
					continue
				}
				if ia, ok := a.(*ssa.IndexAddr); ok {
					a = ia.X
					continue
				}
				break
			}
		}
	}
	return out
}

// retOperand resolves the idx-th result of a Return. In functions with defers the results are spilled
// to cells (`*r0 = v; rundefers; t = *r0; return t`): the value stored last in the same block is used.
func retOperand(ret *ssa.Return, idx int) ssa.Value {
	v := ret.Results[idx]
	u, ok := v.(*ssa.UnOp)
	if !ok || u.Op != token.MUL {
		return v
	}
	al, ok := u.X.(*ssa.Alloc)
	if !ok {
		return v
	}
	b := ret.Block()
	// walk back through single-predecessor chains (the spill may sit in the predecessor block)
	for hops := 0; hops < 4 && b != nil; hops++ {
		for i := len(b.Instrs) - 1; i >= 0; i-- {
			if st, ok := b.Instrs[i].(*ssa.Store); ok && st.Addr == ssa.Value(al) {
				return st.Val
			}
		}
		if len(b.Preds) != 1 {
			break
		}
		b = b.Preds[0]
	}
	return v
}

// DependsOn reports whether v's backward slice contains a value satisfying pred.
func DependsOn(v ssa.Value, pred func(ssa.Value) bool) bool {
	for x := range BackSlice(v).Vals {
		if pred(x) {
			return true
		}
	}
	return false
}

// resolveCell: if v is a load of a local cell (Alloc) that has exactly one store in the function,
// return the stored value; otherwise v. (Closure-captured parameters are spilled this way.)
func resolveCell(v ssa.Value) ssa.Value {
	for k := 0; k < 8; k++ {
		u, ok := v.(*ssa.UnOp)
		if !ok || u.Op != token.MUL {
			return v
		}
		al, ok := u.X.(*ssa.Alloc)
		if !ok {
			return v
		}
		sts := storesTo(al)
		if len(sts) != 1 {
			return v
		}
		v = sts[0].Val
	}
	return v
}

// stripConv removes conversions / type changes / MakeInterface wrappers.
func stripConv(v ssa.Value) ssa.Value {
	for {
		switch x := v.(type) {
		case *ssa.Convert:
			v = x.X
		case *ssa.ChangeType:
			v = x.X
		case *ssa.MakeInterface:
			v = x.X
		case *ssa.ChangeInterface:
			v = x.X
		default:
			return v
		}
	}
}

// constOf returns the types.Const-like constant value of v if it is an SSA constant.
func constOf(v ssa.Value) (constant.Value, bool) {
	v = stripConv(resolveCell(v))
	c, ok := v.(*ssa.Const)
	if !ok || c.Value == nil {
		return nil, false
	}
	return c.Value, true
}

func sortedKeys(m map[string]bool) []string {
	var out []string
	for k := range m {
		out = append(out, k)
	}
	sort.Strings(out)
	return out
}

// CalledThroughHelpers returns the objects called by the given instructions, descending (to the given
// depth) into statically resolved callees which are private helpers: unexported functions or methods of a
// repo package. An "extract method" refactoring therefore leaves the result unchanged. watched objects are
// never descended into.
func (w *World) CalledThroughHelpers(instrs map[ssa.Instruction]bool, watched func(*types.Func) bool, depth int) map[*types.Func]bool {
	got := map[*types.Func]bool{}
	seen := map[*ssa.Function]bool{}
	var visit func(in ssa.Instruction, d int)
	visit = func(in ssa.Instruction, d int) {
		cc, ok := in.(ssa.CallInstruction)
		if !ok {
			return
		}
		o := CalleeObj(cc)
		if o == nil {
			return
		}
		got[o] = true
		if watched(o) || d <= 0 || o.Exported() || o.Pkg() == nil || !isRepoPath(o.Pkg().Path()) {
			return
		}
		f := cc.Common().StaticCallee()
		if f == nil || len(f.Blocks) == 0 || seen[f] {
			return
		}
		seen[f] = true
		for _, b := range f.Blocks {
			for _, i2 := range b.Instrs {
				visit(i2, d-1)
			}
		}
	}
	for in := range instrs {
		visit(in, depth)
	}
	return got
}

// ---- linear offsets along paths ------------------------------------------------------------------

// LinVal is base + Off where base is an SSA value that is not itself an addition/subtraction of a
// constant (nil base = pure constant).
type LinVal struct {
	Base ssa.Value
	Off  int64
	OK   bool
}

// linEval evaluates v as base+const with integer phis resolved through env (phi -> value chosen by
// the path taken).
func linEval(v ssa.Value, env map[*ssa.Phi]ssa.Value, depth int) LinVal {
	if depth > 20 {
		return LinVal{}
	}
	v = stripConv(v)
	if cv, ok := constOf(v); ok {
		if i, ok := constant.Int64Val(constant.ToInt(cv)); ok {
			return LinVal{nil, i, true}
		}
		return LinVal{}
	}
	switch x := v.(type) {
	case *ssa.Phi:
		if e, ok := env[x]; ok {
			return linEval(e, env, depth+1)
		}
		return LinVal{x, 0, true}
	case *ssa.BinOp:
		if x.Op == token.ADD || x.Op == token.SUB {
			l, r := linEval(x.X, env, depth+1), linEval(x.Y, env, depth+1)
			if l.OK && r.OK && r.Base == nil {
				if x.Op == token.ADD {
					return LinVal{l.Base, l.Off + r.Off, true}
				}
				return LinVal{l.Base, l.Off - r.Off, true}
			}
			if l.OK && r.OK && l.Base == nil && x.Op == token.ADD {
				return LinVal{r.Base, l.Off + r.Off, true}
			}
		}
	}
	return LinVal{v, 0, true}
}

// LinPath is one explored path: the value read at the stop instruction, in linear form.
type LinPath struct {
	Val    LinVal
	Stop   ssa.Instruction
	Blocks []int
}

// LinPaths enumerates the acyclic paths of fn that start right after `start` (or at the entry when start
// is nil), respect the cuts, do not pass an `abandon` instruction, and end at the first instruction for
// which stop returns a value; that value is evaluated with the phis bound by the path.
func LinPaths(fn *ssa.Function, start ssa.Instruction, cuts []EdgeCut, stop func(ssa.Instruction) (ssa.Value, bool), abandon func(ssa.Instruction) bool) []LinPath {
	var out []LinPath
	q := &PathQ{Fn: fn, Cut: cuts}
	var walk func(b *ssa.BasicBlock, from int, env map[*ssa.Phi]ssa.Value, onPath map[int]bool, trail []int)
	walk = func(b *ssa.BasicBlock, from int, env map[*ssa.Phi]ssa.Value, onPath map[int]bool, trail []int) {
		if len(out) > 4096 {
			panic(hardFail{"LinPaths: path cap hit in " + funcKey(fn)})
		}
		trail = append(trail, b.Index)
		for i := from; i < len(b.Instrs); i++ {
			in := b.Instrs[i]
			if abandon != nil && abandon(in) {
				return
			}
			if v, ok := stop(in); ok {
				out = append(out, LinPath{linEval(v, env, 0), in, append([]int(nil), trail...)})
				return
			}
		}
		for s, succ := range b.Succs {
			if q.cut(b, s) || onPath[succ.Index] {
				continue
			}
			nenv := map[*ssa.Phi]ssa.Value{}
			for k, v := range env {
				nenv[k] = v
			}
			pi := -1
			for k, p := range succ.Preds {
				if p == b {
					pi = k
				}
			}
			for _, in := range succ.Instrs {
				p, ok := in.(*ssa.Phi)
				if !ok {
					break
				}
				if pi >= 0 {
					// parallel assignment: evaluate against the environment of the predecessor
					e := p.Edges[pi]
					if pe, ok := stripConv(e).(*ssa.Phi); ok {
						if bound, ok := env[pe]; ok {
							e = bound
						}
					}
					nenv[p] = e
				}
			}
			np := map[int]bool{}
			for k := range onPath {
				np[k] = true
			}
			np[succ.Index] = true
			walk(succ, 0, nenv, np, trail)
		}
	}
	if start == nil {
		walk(fn.Blocks[0], 0, map[*ssa.Phi]ssa.Value{}, map[int]bool{0: true}, nil)
		return out
	}
	b := start.Block()
	for i, in := range b.Instrs {
		if in == start {
			walk(b, i+1, map[*ssa.Phi]ssa.Value{}, map[int]bool{b.Index: true}, nil)
		}
	}
	return out
}

// ---- linear forms over several symbols -------------------------------------------------------------

// LinForm is c + Σ coeff·symbol. Symbols are SSA values that are not sums (named by their register; calls to
// the functions in pureGetters are named by callee and argument symbols, because go/ssa has no CSE).
type LinForm struct {
	C int64
	T map[string]int64
}

func (f LinForm) String() string {
	var ks []string
	for k, c := range f.T {
		if c != 0 {
			ks = append(ks, fmt.Sprintf("%+d*%s", c, k))
		}
	}
	sort.Strings(ks)
	return fmt.Sprintf("%s %+d", strings.Join(ks, " "), f.C)
}

func (f LinForm) Sub(g LinForm) LinForm {
	out := LinForm{f.C - g.C, map[string]int64{}}
	for k, c := range f.T {
		out.T[k] += c
	}
	for k, c := range g.T {
		out.T[k] -= c
	}
	for k, c := range out.T {
		if c == 0 {
			delete(out.T, k)
		}
	}
	return out
}

func (f LinForm) IsZero() bool { return f.C == 0 && len(f.Sub(LinForm{}).T) == 0 }

func (f LinForm) Equal(g LinForm) bool { return f.Sub(g).IsZero() }

// Positive keeps the symbols with a positive coefficient (and no constant).
func (f LinForm) Positive() LinForm {
	out := LinForm{0, map[string]int64{}}
	for k, c := range f.T {
		if c > 0 {
			out.T[k] = c
		}
	}
	return out
}

func linForm(v ssa.Value, pureGetters map[*types.Func]bool, depth int) LinForm {
	v = stripConv(v)
	if cv, ok := constOf(v); ok {
		if i, ok := constant.Int64Val(constant.ToInt(cv)); ok {
			return LinForm{i, map[string]int64{}}
		}
	}
	if bo, ok := v.(*ssa.BinOp); ok && depth < 30 && (bo.Op == token.ADD || bo.Op == token.SUB) {
		l, r := linForm(bo.X, pureGetters, depth+1), linForm(bo.Y, pureGetters, depth+1)
		if bo.Op == token.SUB {
			return l.Sub(r)
		}
		return l.Sub(LinForm{0, map[string]int64{}}.Sub(r))
	}
	if bo, ok := v.(*ssa.BinOp); ok && depth < 30 && bo.Op == token.MUL {
		// scaling by a constant
		l, r := linForm(bo.X, pureGetters, depth+1), linForm(bo.Y, pureGetters, depth+1)
		scale := func(f LinForm, k int64) LinForm {
			out := LinForm{f.C * k, map[string]int64{}}
			for s, c := range f.T {
				if c*k != 0 {
					out.T[s] = c * k
				}
			}
			return out
		}
		if len(l.T) == 0 {
			return scale(r, l.C)
		}
		if len(r.T) == 0 {
			return scale(l, r.C)
		}
	}
	return LinForm{0, map[string]int64{symKey(v, pureGetters, depth): 1}}
}

func symKey(v ssa.Value, pureGetters map[*types.Func]bool, depth int) string {
	v = stripConv(resolveCell(stripConv(v)))
	if c, ok := v.(*ssa.Call); ok && depth < 30 {
		if o := CalleeObj(c); o != nil && pureGetters[o] {
			var as []string
			for _, a := range c.Call.Args {
				as = append(as, symKey(a, pureGetters, depth+1))
			}
			return o.Name() + "(" + strings.Join(as, ",") + ")"
		}
	}
	if cv, ok := constOf(v); ok {
		return cv.String()
	}
	return v.Name()
}

// DependsOnThroughHelpers is DependsOn that also looks into the values returned by private helpers (unexported
// functions of a repo package, statically called, two levels): `slot := tp.findFreeSlot()` depends on what
// findFreeSlot computes.
func (w *World) DependsOnThroughHelpers(v ssa.Value, pred func(ssa.Value) bool) bool {
	seenFn := map[*ssa.Function]bool{}
	var visit func(v ssa.Value, depth int) bool
	visit = func(v ssa.Value, depth int) bool {
		found := false
		DependsOn(v, func(x ssa.Value) bool {
			if found {
				return true
			}
			if pred(x) {
				found = true
				return true
			}
			c, ok := x.(*ssa.Call)
			if !ok || depth <= 0 {
				return false
			}
			f := c.Call.StaticCallee()
			if f == nil || len(f.Blocks) == 0 || token.IsExported(f.Name()) || f.Pkg == nil || !isRepoPath(f.Pkg.Pkg.Path()) || seenFn[f] {
				return false
			}
			seenFn[f] = true
			for _, b := range f.Blocks {
				if ret, ok := b.Instrs[len(b.Instrs)-1].(*ssa.Return); ok {
					for i := range ret.Results {
						if visit(retOperand(ret, i), depth-1) {
							found = true
							return true
						}
					}
				}
			}
			return false
		})
		return found
	}
	return visit(v, 2)
}

// FuncAndHelpers: fn plus the private helpers it calls statically (two levels), for rules that look for a
// construct "somewhere in the implementation of fn".
func (w *World) FuncAndHelpers(fn *ssa.Function) []*ssa.Function {
	out := []*ssa.Function{fn}
	seen := map[*ssa.Function]bool{fn: true}
	var add func(f *ssa.Function, depth int)
	add = func(f *ssa.Function, depth int) {
		EachCall(f, func(c ssa.CallInstruction) {
			g := c.Common().StaticCallee()
			if g == nil || seen[g] || len(g.Blocks) == 0 || token.IsExported(g.Name()) || g.Pkg == nil || g.Pkg != fn.Pkg {
				return
			}
			seen[g] = true
			out = append(out, g)
			if depth > 0 {
				add(g, depth-1)
			}
		})
	}
	add(fn, 1)
	return out
}

// ConstResultsUnder: the constants fn can return as result number resIdx when its parameter number paramIdx is
// assumed equal to k (enum specialisation). A result that is the result of a private helper called with that same
// parameter is evaluated in the helper under the same assumption (two levels). unknown=true when some reachable
// return is neither a constant nor such a call.
func (w *World) ConstResultsUnder(fn *ssa.Function, paramIdx int, k int64, resIdx int, depth int) (vals map[int64]bool, unknown bool) {
	vals = map[int64]bool{}
	if paramIdx >= len(fn.Params) {
		return vals, true
	}
	p := fn.Params[paramIdx]
	isP := func(v ssa.Value) bool { return resolveCell(v) == ssa.Value(p) }
	reach := (&PathQ{Fn: fn, Cut: []EdgeCut{specCut(isP, k)}}).ReachableInstrs()
	for in := range reach {
		ret, ok := in.(*ssa.Return)
		if !ok || len(ret.Results) <= resIdx {
			continue
		}
		v := stripConv(retOperand(ret, resIdx))
		if cv, ok := constOf(v); ok {
			if iv, ok := constant.Int64Val(constant.ToInt(cv)); ok {
				vals[iv] = true
				continue
			}
		}
		ri := 0
		if e, ok := v.(*ssa.Extract); ok {
			ri = e.Index
			v = e.Tuple
		}
		c, isCall := v.(*ssa.Call)
		if !isCall || depth <= 0 {
			unknown = true
			continue
		}
		f := c.Call.StaticCallee()
		pi := -1
		for i, a := range c.Call.Args {
			if isP(stripConv(a)) {
				pi = i
			}
		}
		if f == nil || len(f.Blocks) == 0 || token.IsExported(f.Name()) || f.Pkg != fn.Pkg || pi < 0 {
			unknown = true
			continue
		}
		sub, u := w.ConstResultsUnder(f, pi, k, ri, depth-1)
		for x := range sub {
			vals[x] = true
		}
		unknown = unknown || u
	}
	return vals, unknown
}
