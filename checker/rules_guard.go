package main

// rules_guard.go — guard-cut reachability (GRD) and branch-dependence rules:
// tuple access is guarded by row locks (C04), lock grants depend on the lock tables (C05, C16),
// page writes are guarded by space checks (C15).

import (
	"fmt"
	"go/ast"
	"go/constant"
	"go/token"
	"go/types"
	"sort"
	"strings"

	"golang.org/x/tools/go/ssa"
)

func returnsNonNilFirst(in ssa.Instruction) bool {
	ret, ok := in.(*ssa.Return)
	if !ok || len(ret.Results) == 0 {
		return false
	}
	c, isConst := retOperand(ret, 0).(*ssa.Const)
	return !(isConst && c.IsNil())
}

func returnsConstBool(in ssa.Instruction, idx int, val bool) bool {
	ret, ok := in.(*ssa.Return)
	if !ok || len(ret.Results) <= idx {
		return false
	}
	cv, ok := constOf(retOperand(ret, idx))
	return ok && cv.Kind() == constant.Bool && constant.BoolVal(cv) == val
}

// mayReturnBool: the Return's idx-th result can be `val` (constant val, or non-constant).
func mayReturnBool(in ssa.Instruction, idx int, val bool) bool {
	ret, ok := in.(*ssa.Return)
	if !ok || len(ret.Results) <= idx {
		return false
	}
	return canBeBool(retOperand(ret, idx), val, map[ssa.Value]bool{})
}

func canBeBool(v ssa.Value, val bool, seen map[ssa.Value]bool) bool {
	return canBeBoolK(v, val, seen, nil)
}

// canBeBoolK: as canBeBool, with values whose truth is known under the rule's assumption
func canBeBoolK(v ssa.Value, val bool, seen map[ssa.Value]bool, known func(ssa.Value) (bool, bool)) bool {
	if seen[v] {
		return false
	}
	seen[v] = true
	if known != nil {
		if k, ok := known(v); ok {
			return k == val
		}
	}
	if cv, ok := constOf(v); ok && cv.Kind() == constant.Bool {
		return constant.BoolVal(cv) == val
	}
	if p, ok := v.(*ssa.Phi); ok {
		for _, e := range p.Edges {
			if canBeBoolK(e, val, seen, known) {
				return true
			}
		}
		return false
	}
	return true
}

func init() {
	reg("C04-R1", "read path: in TablePage.GetTuple (and TableHeap.GetTuple) no tuple byte is read and no tuple is returned once the 'lock held / lock granted / recovery phase' edges are removed — every successful read holds a row lock", func(w *World, r *Report) {
		a := w.A()
		cuts := []EdgeCut{
			CutWhen(IsCallTo(a.TxnIsRecovery), true),
			CutWhen(IsCallTo(a.TxnIsShared), true),
			CutWhen(IsCallTo(a.TxnIsExclusive), true),
			CutWhen(IsCallTo(a.LockShared), true),
		}
		fn := w.SSA(a.TPGetTuple)
		nGuards := countCutEdges(fn, cuts)
		r.Floor("guard edges in TablePage.GetTuple", nGuards, 4)
		isRead := func(in ssa.Instruction) bool {
			c, ok := in.(*ssa.Call)
			if !ok {
				return false
			}
			if b, ok := c.Call.Value.(*ssa.Builtin); ok && b.Name() == "copy" && len(c.Call.Args) == 2 {
				return DependsOn(c.Call.Args[1], a.isPageDataSource)
			}
			return false
		}
		nReads := 0
		for _, b := range fn.Blocks {
			for _, in := range b.Instrs {
				if isRead(in) {
					nReads++
				}
			}
		}
		r.Floor("tuple byte reads in TablePage.GetTuple", nReads, 1)
		wit := (&PathQ{Fn: fn, Cut: cuts, Target: isRead}).FromEntry()
		r.Check(wit == nil, "TablePage.GetTuple:read-needs-lock", "tuple bytes are copied out only under a row lock (or in recovery)", "unguarded path: "+w.DescribeWitness(fn, wit))
		wit = (&PathQ{Fn: fn, Cut: cuts, Target: returnsNonNilFirst}).FromEntry()
		r.Check(wit == nil, "TablePage.GetTuple:return-needs-lock", "a tuple is returned only under a row lock (or in recovery)", "unguarded path: "+w.DescribeWitness(fn, wit))
		// failing to get the lock aborts the transaction: on the all-guards-false path SetState(ABORTED) precedes return
		hfn := w.SSA(a.THGetTuple)
		r.Floor("guard edges in TableHeap.GetTuple", countCutEdges(hfn, cuts), 4)
		// (pinning the page before the lock check would be harmless; reading it is not)
		wit = (&PathQ{Fn: hfn, Cut: cuts, Target: InstrCallsObj(a.TPGetTuple)}).FromEntry()
		r.Check(wit == nil, "TableHeap.GetTuple:read-needs-lock", "the heap page is read (TablePage.GetTuple) only under a row lock (or in recovery)", "unguarded path: "+w.DescribeWitness(hfn, wit))
		for _, f := range []*ssa.Function{fn, hfn} {
			wit = (&PathQ{Fn: f, Cut: cuts, Avoid: InstrCallsObj(a.TxnSetState), Target: isReturn}).FromEntry()
			r.Check(wit == nil, funcKey(f)+":lock-failure-aborts", "when no lock can be had the transaction is set ABORTED before returning", "path: "+w.DescribeWitness(f, wit))
		}
	})

	reg("C04-R2", "write path: in TablePage.InsertTuple/UpdateTuple/MarkDelete no page byte is written and no log record appended once the 'exclusive lock held / granted / upgraded / recovery phase' edges are removed", func(w *World, r *Report) {
		a := w.A()
		cuts := []EdgeCut{
			CutWhen(IsCallTo(a.TxnIsRecovery), true),
			CutWhen(IsCallTo(a.TxnIsExclusive), true),
			CutWhen(IsCallTo(a.LockExclusive), true),
			CutWhen(IsCallTo(a.LockUpgrade), true),
		}
		pw := a.pageWriteSumm()
		isEffect := func(in ssa.Instruction) bool {
			if InstrCallsObj(a.LMAppend)(in) {
				return true
			}
			return pw.MaySite(in)
		}
		floors := map[*types.Func]int{a.TPInsert: 2, a.TPUpdate: 4, a.TPMarkDelete: 4}
		for _, o := range []*types.Func{a.TPInsert, a.TPUpdate, a.TPMarkDelete} {
			fn := w.SSA(o)
			r.Floor("guard edges in TablePage."+o.Name(), countCutEdges(fn, cuts), floors[o])
			wit := (&PathQ{Fn: fn, Cut: cuts, Target: isEffect}).FromEntry()
			r.Check(wit == nil, "TablePage."+o.Name()+":write-needs-X-lock", "page bytes are written / log records appended only under an exclusive row lock (or in recovery)", "unguarded path: "+w.DescribeWitness(fn, wit))
			// success is reported only under the lock
			succ := func(in ssa.Instruction) bool {
				if o == a.TPInsert {
					return returnsNonNilFirst(in)
				}
				return mayReturnBool(in, 0, true)
			}
			wit = (&PathQ{Fn: fn, Cut: cuts, Target: succ}).FromEntry()
			r.Check(wit == nil, "TablePage."+o.Name()+":success-needs-X-lock", "success is reported only under an exclusive row lock", "unguarded path: "+w.DescribeWitness(fn, wit))
		}
	})

	reg("C16-R1", "lock grants are decided from the lock tables: in LockShared every path to a grant passes a branch on the exclusiveLockTable lookup; in LockExclusive on both table lookups; in LockUpgrade on both (C05-R3)", func(w *World, r *Report) {
		a := w.A()
		xt := w.Field("storage/access", "LockManager", "exclusiveLockTable")
		st := w.Field("storage/access", "LockManager", "sharedLockTable")
		setS := w.MethodObj("storage/access", "Transaction", "SetSharedLockSet")
		setX := w.MethodObj("storage/access", "Transaction", "SetExclusiveLockSet")
		lookupOf := func(fld *types.Var) func(ssa.Value) bool {
			return func(v ssa.Value) bool {
				l, ok := v.(*ssa.Lookup)
				return ok && fieldLoadOf(l.X, fld)
			}
		}
		ifOn := func(fld *types.Var) func(ssa.Instruction) bool {
			return func(in ssa.Instruction) bool {
				i, ok := in.(*ssa.If)
				return ok && DependsOn(i.Cond, lookupOf(fld))
			}
		}
		isEffect := func(in ssa.Instruction) bool {
			if mu, ok := in.(*ssa.MapUpdate); ok {
				return fieldLoadOf(mu.Map, xt) || fieldLoadOf(mu.Map, st)
			}
			return InstrCallsObj(setS, setX)(in)
		}
		rec := []EdgeCut{CutWhen(IsCallTo(a.TxnIsRecovery), true)}
		type inst struct {
			o      *types.Func
			tables []*types.Var
			retTbl []*types.Var
		}
		for _, it := range []inst{
			{a.LockShared, []*types.Var{xt}, []*types.Var{xt}},
			{a.LockExclusive, []*types.Var{xt, st}, []*types.Var{xt}},
			{a.LockUpgrade, []*types.Var{xt, st}, []*types.Var{xt}},
		} {
			fn := w.SSA(it.o)
			nEff := 0
			for _, b := range fn.Blocks {
				for _, in := range b.Instrs {
					if isEffect(in) {
						nEff++
					}
				}
			}
			r.Floor(it.o.Name()+" grant effects", nEff, 2)
			for _, t := range it.tables {
				wit := (&PathQ{Fn: fn, Cut: rec, Avoid: ifOn(t), Target: isEffect}).FromEntry()
				r.Check(wit == nil, it.o.Name()+":grant-depends-on:"+t.Name(), "every path to a lock-table update / lock-set update branches on the "+t.Name()+" lookup for the requested row", "grant reachable without consulting "+t.Name()+": "+w.DescribeWitness(fn, wit))
			}
			for _, t := range it.retTbl {
				wit := (&PathQ{Fn: fn, Cut: rec, Avoid: ifOn(t), Target: func(in ssa.Instruction) bool { return mayReturnBool(in, 0, true) }}).FromEntry()
				r.Check(wit == nil, it.o.Name()+":true-depends-on:"+t.Name(), "outside recovery, `true` is returned only after branching on the "+t.Name()+" lookup", "`return true` reachable without consulting "+t.Name()+": "+w.DescribeWitness(fn, wit))
			}
		}
	})

	reg("C16-R2", "a denied lock request leaves everything unchanged: in LockShared/LockExclusive/LockUpgrade no lock-table update or lock-set update can be followed by `return false`", func(w *World, r *Report) {
		a := w.A()
		xt := w.Field("storage/access", "LockManager", "exclusiveLockTable")
		st := w.Field("storage/access", "LockManager", "sharedLockTable")
		setS := w.MethodObj("storage/access", "Transaction", "SetSharedLockSet")
		setX := w.MethodObj("storage/access", "Transaction", "SetExclusiveLockSet")
		for _, o := range []*types.Func{a.LockShared, a.LockExclusive, a.LockUpgrade} {
			fn := w.SSA(o)
			var effs []ssa.Instruction
			var tbl, set []ssa.Instruction
			for _, b := range fn.Blocks {
				for _, in := range b.Instrs {
					if mu, ok := in.(*ssa.MapUpdate); ok && (fieldLoadOf(mu.Map, xt) || fieldLoadOf(mu.Map, st)) {
						effs = append(effs, in)
						tbl = append(tbl, in)
					} else if InstrCallsObj(setS, setX)(in) {
						effs = append(effs, in)
						set = append(set, in)
					}
				}
			}
			r.Floor(o.Name()+" effects", len(effs), 2)
			wit := (&PathQ{Fn: fn, Target: func(in ssa.Instruction) bool { return mayReturnBool(in, 0, false) }}).FromAfter(effs)
			r.Check(wit == nil, o.Name()+":no-effect-before-deny", "no table / lock-set update precedes a `return false`", "path: "+w.DescribeWitness(fn, wit))
			// a grant updates the table AND the transaction's lock set (Unlock walks the lock set)
			isSet := func(in ssa.Instruction) bool { return InstrCallsObj(setS, setX)(in) }
			wit = (&PathQ{Fn: fn, Avoid: isSet, Target: isReturn}).FromAfter(tbl)
			r.Check(wit == nil, o.Name()+":table-update-recorded-in-lock-set", "every lock-table update is followed by recording the row in the transaction's lock set (otherwise the lock is never released)", "path: "+w.DescribeWitness(fn, wit))
			// the rid recorded is the requested rid
			for _, s := range set {
				c := s.(*ssa.Call)
				arg := c.Call.Args[len(c.Call.Args)-1]
				var ridParam *ssa.Parameter
				for _, p := range fn.Params {
					if p.Name() == "rid" {
						ridParam = p
					}
				}
				r.Check(ridParam != nil && DependsOn(arg, func(v ssa.Value) bool { return v == ssa.Value(ridParam) }), o.Name()+":lock-set-gets-requested-rid"+ordinalIn(fn, s, CalleeObj(c)), "the lock set grows by the requested row id", "argument at "+w.InstrPos(s)+" does not depend on parameter rid")
			}
		}
		// Unlock removes the entries of exactly the transaction that ends
		un := w.SSA(a.LMUnlock)
		getID := w.MethodObj("storage/access", "Transaction", "GetTransactionID")
		n := 0
		for _, b := range un.Blocks {
			for _, in := range b.Instrs {
				c, ok := in.(*ssa.Call)
				if !ok {
					continue
				}
				if bi, ok := c.Call.Value.(*ssa.Builtin); ok && bi.Name() == "delete" && fieldLoadOf(c.Call.Args[0], xt) {
					n++
					// dominated by an If comparing the table entry with txn id
					isOwnerIf := func(in ssa.Instruction) bool {
						i, ok := in.(*ssa.If)
						return ok && DependsOn(i.Cond, IsCallTo(getID))
					}
					wit := (&PathQ{Fn: un, Avoid: isOwnerIf, Target: func(x ssa.Instruction) bool { return x == in }}).FromEntry()
					r.Check(wit == nil, "Unlock:exclusive-delete-owner-checked", "an exclusive entry is deleted only after comparing its owner with the ending transaction", "path: "+w.DescribeWitness(un, wit))
				}
			}
		}
		r.Floor("Unlock exclusive deletes", n, 1)
	})

	reg("C15-R1", "bounded writes: in TablePage.InsertTuple every page write is preceded by a branch on getFreeSpaceRemaining(); in UpdateTuple by a branch on getFreeSpaceRemaining() and by the shrink/rollback check (branch on isRollbackOrUndo); slot validity (branch on GetTupleCount) precedes writes in UpdateTuple/MarkDelete", func(w *World, r *Report) {
		a := w.A()
		pw := a.pageWriteSumm()
		free := w.MethodObj("storage/access", "TablePage", "getFreeSpaceRemaining")
		cnt := w.MethodObj("storage/access", "TablePage", "GetTupleCount")
		isDel := w.FuncObj("storage/access", "IsDeleted")
		isWrite := func(in ssa.Instruction) bool {
			if c, ok := in.(ssa.CallInstruction); ok && CalleeObj(c) == a.PageSetLSN {
				return false
			}
			return pw.MaySite(in)
		}
		ifDep := func(pred func(ssa.Value) bool) func(ssa.Instruction) bool {
			return func(in ssa.Instruction) bool {
				i, ok := in.(*ssa.If)
				return ok && DependsOn(i.Cond, pred)
			}
		}
		ins := w.SSA(a.TPInsert)
		wit := (&PathQ{Fn: ins, Avoid: ifDep(IsCallTo(free)), Target: isWrite}).FromEntry()
		r.Check(wit == nil, "InsertTuple:write-after-space-check", "no page write without a branch on getFreeSpaceRemaining()", "path: "+w.DescribeWitness(ins, wit))
		// the not-enough-space edge cannot reach a write: cut the edge on which (remaining < need) is false... value-level; instead:
		// the error return ErrNotEnoughSpace is reachable directly from that branch (structure kept)
		upd := w.SSA(a.TPUpdate)
		wit = (&PathQ{Fn: upd, Avoid: ifDep(IsCallTo(free)), Target: isWrite}).FromEntry()
		r.Check(wit == nil, "UpdateTuple:write-after-space-check", "no page write without a branch on getFreeSpaceRemaining()", "path: "+w.DescribeWitness(upd, wit))
		var rb *ssa.Parameter
		for _, p := range upd.Params {
			if p.Name() == "isRollbackOrUndo" {
				rb = p
			}
		}
		if rb == nil {
			fatalf("UpdateTuple has no isRollbackOrUndo parameter")
		}
		// shrink check: an If on isRollbackOrUndo exists whose forward-update side (parameter false) cannot reach a page write
		isRb := func(v ssa.Value) bool { return resolveCell(v) == ssa.Value(rb) }
		nIf := 0
		okShrink := true
		detail := ""
		for _, b := range upd.Blocks {
			i := blockIf(b)
			if i == nil {
				continue
			}
			if v, _ := condBase(i.Cond); !isRb(v) {
				continue
			}
			nIf++
			cutTrue := CutWhen(isRb, true) // keep only the edge on which isRollbackOrUndo is false
			for s, succ := range b.Succs {
				if cutTrue(b, s) || len(succ.Instrs) == 0 {
					continue
				}
				wit := (&PathQ{Fn: upd, Target: isWrite}).FromAfterPos(succ)
				if wit != nil {
					okShrink = false
					detail = "forward (non-rollback) side of the shrink check reaches a page write: " + w.DescribeWitness(upd, wit)
				}
			}
		}
		r.Floor("branches on isRollbackOrUndo in UpdateTuple", nIf, 1)
		r.Check(okShrink, "UpdateTuple:shrink-check-blocks-forward-update", "the branch on isRollbackOrUndo sends a forward update that would shrink the row away from any page write (it is relocated instead, so rollback always has room)", detail)
		for _, o := range []*types.Func{a.TPUpdate, a.TPMarkDelete} {
			fn := w.SSA(o)
			wit = (&PathQ{Fn: fn, Avoid: ifDep(IsCallTo(cnt)), Target: isWrite}).FromEntry()
			r.Check(wit == nil, o.Name()+":write-after-slot-range-check", "no page write without a branch on GetTupleCount() (slot in range)", "path: "+w.DescribeWitness(fn, wit))
			wit = (&PathQ{Fn: fn, Avoid: ifDep(IsCallTo(isDel)), Target: isWrite}).FromEntry()
			r.Check(wit == nil, o.Name()+":write-after-deleted-check", "no page write without a branch on IsDeleted(size) (row still live)", "path: "+w.DescribeWitness(fn, wit))
		}
		// InsertTuple writes into the slot found by its free-slot scan and bumps the count only for a new slot
		setTuple := w.MethodObj("storage/access", "TablePage", "setTuple")
		tsz := w.MethodObj("storage/access", "TablePage", "GetTupleSize")
		n := 0
		EachCall(ins, func(c ssa.CallInstruction) {
			if CalleeObj(c) != setTuple {
				return
			}
			n++
			slot := c.Common().Args[1]
			// the slot written comes out of the free-slot scan: it depends (through a private helper, if the scan was
			// extracted) on GetTupleCount(), and the code that computes it branches on GetTupleSize(candidate) — a
			// constant or otherwise unrelated slot would overwrite a live row
			isScanVar := func(x ssa.Value) bool {
				if IsCallTo(cnt)(x) {
					return true // "no free slot": the index of a new slot
				}
				ph, ok := x.(*ssa.Phi)
				if !ok {
					return false
				}
				// the loop variable of a loop whose continuation test depends on GetTupleCount()
				hdr := ph.Block()
				if i := blockIf(hdr); i != nil && DependsOn(i.Cond, func(y ssa.Value) bool { return y == ssa.Value(ph) }) && DependsOn(i.Cond, IsCallTo(cnt)) {
					return true
				}
				return false
			}
			fromScan := w.DependsOnThroughHelpers(slot, isScanVar)
			r.Check(fromScan, "InsertTuple:slot-from-scan", "the slot written is produced by the free-slot scan (a loop bounded by the tuple count, or the count itself)", "slot argument at "+w.InstrPos(c)+" does not come from a scan bounded by GetTupleCount()")
			sizeTested := false
			for _, f := range w.FuncAndHelpers(ins) {
				for _, b := range f.Blocks {
					if i := blockIf(b); i != nil && DependsOn(i.Cond, IsCallTo(tsz)) {
						sizeTested = true
					}
				}
			}
			r.Check(sizeTested, "InsertTuple:scan-bounded-by-count", "the free-slot scan tests the size entry of its candidates", "no branch on GetTupleSize() in InsertTuple or its private helpers")
		})
		r.Floor("setTuple sites in InsertTuple", n, 1)
		setCnt := w.MethodObj("storage/access", "TablePage", "SetTupleCount")
		wit = (&PathQ{Fn: ins, Avoid: ifDep(IsCallTo(cnt)), Target: InstrCallsObj(setCnt)}).FromAfter(sitesCalling(ins, setTuple))
		r.Check(wit == nil, "InsertTuple:count-bumped-conditionally", "SetTupleCount after the write is conditional on `slot == GetTupleCount()`", "path: "+w.DescribeWitness(ins, wit))
	})

	reg("C15-R2", "compaction triple: a function that shifts the tuple area (copy with page bytes as source and destination) afterwards always moves the free-space pointer and runs the slot-offset fix-up loop", func(w *World, r *Report) {
		a := w.A()
		setFSP := w.MethodObj("storage/access", "TablePage", "SetFreeSpacePointer")
		setOff := w.MethodObj("storage/access", "TablePage", "SetTupleOffsetAtSlot")
		cnt := w.MethodObj("storage/access", "TablePage", "GetTupleCount")
		n := 0
		for _, fn := range w.RepoFuncs {
			if w.IsTestFunc(fn) || fn.Pkg == nil || fn.Pkg.Pkg.Path() != libMod+"/storage/access" {
				continue
			}
			var shifts []ssa.Instruction
			for _, b := range fn.Blocks {
				for _, in := range b.Instrs {
					c, ok := in.(*ssa.Call)
					if !ok {
						continue
					}
					if bi, ok := c.Call.Value.(*ssa.Builtin); ok && bi.Name() == "copy" && len(c.Call.Args) == 2 &&
						DependsOn(c.Call.Args[0], a.isPageDataSource) && DependsOn(c.Call.Args[1], a.isPageDataSource) {
						shifts = append(shifts, in)
					}
				}
			}
			if len(shifts) == 0 {
				continue
			}
			n++
			k := funcKey(fn)
			wit := (&PathQ{Fn: fn, Avoid: InstrCallsObj(setFSP), Target: isReturn}).FromAfter(shifts)
			r.Check(wit == nil, k+":shift-then-SetFreeSpacePointer", "after shifting the tuple area the free-space pointer is always updated", "path: "+w.DescribeWitness(fn, wit))
			// fix-up loop: a SetTupleOffsetAtSlot site reachable from the shift that sits in a cycle whose
			// exit branch depends on the tuple count, and every path shift->return passes that loop header
			offs := sitesCalling(fn, setOff)
			inLoop := false
			var header *ssa.BasicBlock
			for _, s := range offs {
				if h := loopHeaderOf(s.Block()); h != nil {
					if i := blockIf(h); i != nil && DependsOn(i.Cond, IsCallTo(cnt)) {
						inLoop = true
						header = h
					}
				}
			}
			r.Check(inLoop, k+":offset-fixup-loop-exists", "a loop bounded by GetTupleCount() rewrites slot offsets (SetTupleOffsetAtSlot)", "no such loop in "+k)
			if header != nil {
				wit = (&PathQ{Fn: fn, Avoid: func(in ssa.Instruction) bool { return in.Block() == header }, Target: isReturn}).FromAfter(shifts)
				r.Check(wit == nil, k+":shift-then-fixup-loop", "every path from the shift to return runs the slot-offset fix-up loop", "path: "+w.DescribeWitness(fn, wit))
				// the fix-up compares each slot's offset with the moved tuple's offset (branch inside the loop depends on GetTupleOffsetAtSlot)
				getOff := w.MethodObj("storage/access", "TablePage", "GetTupleOffsetAtSlot")
				ok := false
				for _, s := range offs {
					for _, p := range s.Block().Preds {
						if i := blockIf(p); i != nil && DependsOn(i.Cond, IsCallTo(getOff)) {
							ok = true
						}
					}
				}
				r.Check(ok, k+":fixup-conditional-on-offset", "slot offsets are rewritten only for tuples that were moved (branch on the slot's current offset)", "SetTupleOffsetAtSlot in the loop is not guarded by a comparison of GetTupleOffsetAtSlot")
			}
		}
		r.Floor("functions shifting the tuple area", n, 2)
	})

	reg("C15-R3", "the delete-mark bit is manipulated only by IsDeleted/SetDeletedFlag/UnsetDeletedFlag (const deleteMask has no other user)", func(w *World, r *Report) {
		c := w.Const("storage/access", "deleteMask")
		p := w.Pkg("storage/access")
		allowed := map[string]bool{"IsDeleted": true, "SetDeletedFlag": true, "UnsetDeletedFlag": true}
		users := map[string]bool{}
		for id, obj := range p.TypesInfo.Uses {
			if obj != types.Object(c) {
				continue
			}
			// enclosing function
			name := "?"
			for _, f := range p.Syntax {
				if f.Pos() <= id.Pos() && id.Pos() <= f.End() {
					for _, d := range f.Decls {
						if fd, ok := d.(*ast.FuncDecl); ok && fd.Pos() <= id.Pos() && id.Pos() <= fd.End() {
							name = fd.Name.Name
						}
					}
				}
			}
			users[name] = true
		}
		r.Floor("deleteMask users", len(users), 3)
		var us []string
		for u := range users {
			us = append(us, u)
		}
		sort.Strings(us)
		for _, u := range us {
			r.Check(allowed[u], "deleteMask-user:"+u, "only the three flag helpers touch the delete-mark bit", u+" uses deleteMask directly")
		}
		// ApplyDelete clears a slot by size 0 + offset 0; GetTuple treats (0,0) as deleted: both helpers agree on size==0 => deleted
		isDel := w.Fn("storage/access", "", "IsDeleted")
		zeroCmp := false
		for _, b := range isDel.Blocks {
			for _, in := range b.Instrs {
				if bo, ok := in.(*ssa.BinOp); ok && strings.Contains(bo.String(), "== 0:uint32") {
					zeroCmp = true
				}
			}
		}
		r.Check(zeroCmp, "IsDeleted:empty-slot-is-deleted", "IsDeleted treats an emptied slot (size 0) as deleted", "IsDeleted has no `size == 0` clause")
	})
}

func countCutEdges(fn *ssa.Function, cuts []EdgeCut) int {
	n := 0
	for _, b := range fn.Blocks {
		for s := range b.Succs {
			for _, c := range cuts {
				if c(b, s) && !constCut(b, s) {
					n++
					break
				}
			}
		}
	}
	return n
}

// loopHeaderOf: if b lies on a cycle, return a block on that cycle that ends in an If with an exit
// out of the cycle (the loop header/condition block); nil otherwise.
func loopHeaderOf(b *ssa.BasicBlock) *ssa.BasicBlock {
	// blocks reachable from b that can reach b
	fwd := map[*ssa.BasicBlock]bool{}
	var dfs func(x *ssa.BasicBlock)
	dfs = func(x *ssa.BasicBlock) {
		for _, s := range x.Succs {
			if !fwd[s] {
				fwd[s] = true
				dfs(s)
			}
		}
	}
	dfs(b)
	if !fwd[b] {
		return nil
	}
	bwd := map[*ssa.BasicBlock]bool{}
	var rdfs func(x *ssa.BasicBlock)
	rdfs = func(x *ssa.BasicBlock) {
		for _, p := range x.Preds {
			if !bwd[p] {
				bwd[p] = true
				rdfs(p)
			}
		}
	}
	rdfs(b)
	var best *ssa.BasicBlock
	for x := range fwd {
		if !bwd[x] {
			continue
		}
		if i := blockIf(x); i != nil {
			for _, s := range x.Succs {
				if !(fwd[s] && bwd[s]) { // exit edge
					if best == nil || x.Index < best.Index {
						best = x
					}
				}
			}
		}
	}
	return best
}

func init() {
	reg("C16-R4", "exclusive grants need a sole holder: with two or more shared holders assumed for the row (every comparison of len(sharedLockTable[rid]) with 0/1/2 and every nil test of that slice resolved accordingly) no exclusiveLockTable update is reachable in LockExclusive / LockUpgrade; and in LockExclusive none is reachable with exactly one holder that is not the caller (len == 1, holder == caller resolved false)", func(w *World, r *Report) {
		a := w.A()
		xt := w.Field("storage/access", "LockManager", "exclusiveLockTable")
		st := w.Field("storage/access", "LockManager", "sharedLockTable")
		isSharedArr := func(v ssa.Value) bool {
			return DependsOn(v, func(x ssa.Value) bool {
				l, ok := x.(*ssa.Lookup)
				return ok && fieldLoadOf(l.X, st)
			})
		}
		isLenOfShared := func(v ssa.Value) bool {
			c, ok := stripConv(v).(*ssa.Call)
			if !ok {
				return false
			}
			bi, ok := c.Call.Value.(*ssa.Builtin)
			return ok && bi.Name() == "len" && isSharedArr(c.Call.Args[0])
		}
		// truth of (len OP c) under len >= 2; ok=false when undetermined
		var evalLen func(op token.Token, c int64, lenOnLeft bool) (bool, bool)
		evalLen = func(op token.Token, c int64, lenOnLeft bool) (bool, bool) {
			if !lenOnLeft { // c OP len  ==  len OP' c
				switch op {
				case token.LSS:
					op = token.GTR
				case token.GTR:
					op = token.LSS
				case token.LEQ:
					op = token.GEQ
				case token.GEQ:
					op = token.LEQ
				}
			}
			switch op {
			case token.EQL:
				if c < 2 {
					return false, true
				}
			case token.NEQ:
				if c < 2 {
					return true, true
				}
			case token.GTR:
				if c < 2 {
					return true, true
				}
			case token.GEQ:
				if c <= 2 {
					return true, true
				}
			case token.LSS:
				if c <= 2 {
					return false, true
				}
			case token.LEQ:
				if c < 2 {
					return false, true
				}
			}
			return false, false
		}
		// second scenario: exactly one shared holder, and it is not the caller
		oneForeign := false
		evalLenAtLeast2 := evalLen
		evalLen = func(op token.Token, c int64, lenOnLeft bool) (bool, bool) {
			if !oneForeign {
				return evalLenAtLeast2(op, c, lenOnLeft)
			}
			l, rr := int64(1), c
			if !lenOnLeft {
				l, rr = c, 1
			}
			switch op {
			case token.EQL:
				return l == rr, true
			case token.NEQ:
				return l != rr, true
			case token.LSS:
				return l < rr, true
			case token.LEQ:
				return l <= rr, true
			case token.GTR:
				return l > rr, true
			case token.GEQ:
				return l >= rr, true
			}
			return false, false
		}
		isElemOfShared := func(v ssa.Value) bool {
			u, ok := stripConv(v).(*ssa.UnOp)
			if !ok || u.Op != token.MUL {
				return false
			}
			ia, ok := u.X.(*ssa.IndexAddr)
			return ok && isSharedArr(ia.X)
		}
		isContain := w.FuncObj("storage/access", "isContainTxnID")
		assume := func(b *ssa.BasicBlock, succ int) bool {
			i := blockIf(b)
			if i == nil {
				return false
			}
			v, neg := condBase(i.Cond)
			if c, ok := v.(*ssa.Call); ok && oneForeign && CalleeObj(c) == isContain && isSharedArr(c.Call.Args[0]) {
				// the only holder is somebody else: the caller is not in the list
				if !neg {
					return succ == 0
				}
				return succ == 1
			}
			bo, ok := v.(*ssa.BinOp)
			if !ok {
				return false
			}
			var val, known bool
			if oneForeign && (bo.Op == token.EQL || bo.Op == token.NEQ) && (isElemOfShared(bo.X) || isElemOfShared(bo.Y)) {
				// holder == caller is false
				val, known = bo.Op == token.NEQ, true
			}
			constInt := func(x ssa.Value) (int64, bool) {
				cv, ok := constOf(x)
				if !ok || cv.Kind() != constant.Int {
					return 0, false
				}
				iv, ok := constant.Int64Val(cv)
				return iv, ok
			}
			isNil := func(x ssa.Value) bool { c, ok := x.(*ssa.Const); return ok && c.IsNil() }
			switch {
			case known:
			case isLenOfShared(bo.X):
				if c, ok := constInt(bo.Y); ok {
					val, known = evalLen(bo.Op, c, true)
				}
			case isLenOfShared(bo.Y):
				if c, ok := constInt(bo.X); ok {
					val, known = evalLen(bo.Op, c, false)
				}
			case (isNil(bo.Y) && isSharedArr(bo.X)) || (isNil(bo.X) && isSharedArr(bo.Y)):
				if _, isSlice := bo.X.Type().Underlying().(*types.Slice); isSlice || isNil(bo.X) {
					val, known = bo.Op == token.NEQ, true // the slice is not nil
				}
			}
			if !known {
				return false
			}
			condVal := val != neg
			if condVal {
				return succ == 1
			}
			return succ == 0
		}
		rec := CutWhen(IsCallTo(a.TxnIsRecovery), true)
		// the comma-ok of the shared-table lookup is true (an entry exists)
		okTrue := CutWhen(func(v ssa.Value) bool {
			e, ok := v.(*ssa.Extract)
			if !ok || e.Index != 1 {
				return false
			}
			l, ok := e.Tuple.(*ssa.Lookup)
			return ok && fieldLoadOf(l.X, st)
		}, false)
		for _, o := range []*types.Func{a.LockExclusive, a.LockUpgrade} {
			fn := w.SSA(o)
			n := 0
			for _, b := range fn.Blocks {
				for s := range b.Succs {
					if assume(b, s) {
						n++
					}
				}
			}
			r.Floor(o.Name()+" holder-count tests resolved", n, 1)
			isGrant := func(in ssa.Instruction) bool {
				mu, ok := in.(*ssa.MapUpdate)
				return ok && fieldLoadOf(mu.Map, xt)
			}
			wit := (&PathQ{Fn: fn, Cut: []EdgeCut{rec, okTrue, assume}, Target: isGrant}).FromEntry()
			r.Check(wit == nil, o.Name()+":no-exclusive-grant-with-several-shared-holders", "when two or more transactions hold the row shared, no exclusive entry is created", "grant reachable although the holder-count tests say >= 2 holders: "+w.DescribeWitness(fn, wit))
			if o == a.LockExclusive {
				// (LockUpgrade is entered by a holder: with one holder it is the caller)
				oneForeign = true
				wit = (&PathQ{Fn: fn, Cut: []EdgeCut{rec, okTrue, assume}, Target: isGrant}).FromEntry()
				oneForeign = false
				r.Check(wit == nil, o.Name()+":no-exclusive-grant-over-one-foreign-reader", "when exactly one other transaction holds the row shared, no exclusive entry is created", "grant reachable with one shared holder that is not the caller (holder-count tests resolved for len == 1, holder == caller false): "+w.DescribeWitness(fn, wit))
			}
		}
	})

	reg("C15-R4", "compaction treats delete-marked rows as occupying space: in every function that shifts the tuple area, the slot-offset fix-up (SetTupleOffsetAtSlot) stays reachable when IsDeleted(size) is assumed true for the slot under inspection (marked rows keep their bytes until commit, so they move with their neighbours)", func(w *World, r *Report) {
		a := w.A()
		setOff := w.MethodObj("storage/access", "TablePage", "SetTupleOffsetAtSlot")
		isDel := w.FuncObj("storage/access", "IsDeleted")
		n := 0
		for _, o := range []*types.Func{a.TPUpdate, a.TPApplyDelete} {
			fn := w.SSA(o)
			var inLoop []ssa.Instruction
			for _, s := range sitesCalling(fn, setOff) {
				if loopHeaderOf(s.Block()) != nil {
					inLoop = append(inLoop, s)
				}
			}
			if len(inLoop) == 0 {
				continue
			}
			n++
			// inside the loop: from the loop header, assuming IsDeleted(...) is true wherever it is consulted
			hdr := loopHeaderOf(inLoop[0].Block())
			marked := CutWhen(func(v ssa.Value) bool {
				c, ok := v.(*ssa.Call)
				if !ok || CalleeObj(c) != isDel {
					return false
				}
				// only calls made inside the loop
				return loopHeaderOf(c.Block()) == hdr || c.Block() == hdr
			}, false)
			wit := (&PathQ{Fn: fn, Cut: []EdgeCut{marked}, Target: func(in ssa.Instruction) bool { return in == inLoop[0] }}).FromAfterPos(hdr)
			r.Check(wit != nil, "TablePage."+o.Name()+":fixup-covers-delete-marked-rows", "a delete-marked slot still gets its offset fixed when the tuple area moves", "with IsDeleted(size)=true for the inspected slot the fix-up loop of "+o.Name()+" cannot reach SetTupleOffsetAtSlot: rows that are only marked deleted (uncommitted delete) are skipped and come back corrupted when that delete is rolled back")
		}
		r.Floor("compaction loops", n, 2)
	})
}

func init() {
	reg("C15-R5", "compaction arithmetic agrees with the bytes moved: in TablePage.UpdateTuple and ApplyDelete the tuple area [free-space pointer, offset of the touched row) is moved by d = (destination low − source low); then (1) the free-space pointer is advanced by exactly d, (2) every slot offset rewritten in the fix-up loop is its old value + d, (3) the rows selected for the fix-up are those below the touched row: the loop compares a slot's offset with a threshold that is the upper end of the moved area, or that end plus the old size of the touched row (which then includes the row itself), (4) the loop visits every slot: its index starts at the constant 0, advances by 1 and is bounded by the tuple count — all four as equalities of linear forms over the function's SSA values", func(w *World, r *Report) {
		a := w.A()
		setOff := w.MethodObj("storage/access", "TablePage", "SetTupleOffsetAtSlot")
		getOff := w.MethodObj("storage/access", "TablePage", "GetTupleOffsetAtSlot")
		setFSP := w.MethodObj("storage/access", "TablePage", "SetFreeSpacePointer")
		getCnt := w.MethodObj("storage/access", "TablePage", "GetTupleCount")
		pure := map[*types.Func]bool{w.MethodObj("storage/tuple", "Tuple", "Size"): true}
		lf := func(v ssa.Value) LinForm { return linForm(v, pure, 0) }
		for _, o := range []*types.Func{a.TPUpdate, a.TPApplyDelete} {
			fn := w.SSA(o)
			name := "TablePage." + o.Name()
			// the shift copy
			var shift *ssa.Call
			var srcS, dstS *ssa.Slice
			nShift := 0
			for _, b := range fn.Blocks {
				for _, in := range b.Instrs {
					c, ok := in.(*ssa.Call)
					if !ok {
						continue
					}
					bi, ok := c.Call.Value.(*ssa.Builtin)
					if !ok || bi.Name() != "copy" || len(c.Call.Args) != 2 {
						continue
					}
					d, ok1 := c.Call.Args[0].(*ssa.Slice)
					s, ok2 := c.Call.Args[1].(*ssa.Slice)
					if !ok1 || !ok2 || !DependsOn(d.X, a.isPageDataSource) || !DependsOn(s.X, a.isPageDataSource) {
						continue
					}
					if s.Low == nil || s.High == nil || d.Low == nil {
						continue
					}
					nShift++
					shift, srcS, dstS = c, s, d
				}
			}
			if nShift != 1 {
				r.Undecided(name+":shift-copy", "exactly one copy moves the tuple area inside the page", fmt.Sprintf("%d candidates", nShift))
				continue
			}
			delta := lf(dstS.Low).Sub(lf(srcS.Low))
			upper := lf(srcS.High)
			// (1) free-space pointer
			nF := 0
			for _, s := range sitesCalling(fn, setFSP) {
				nF++
				c := s.(*ssa.Call)
				got := lf(c.Call.Args[1]).Sub(lf(srcS.Low))
				r.Check(got.Equal(delta), name+":free-space-pointer-moves-with-the-bytes"+ordinalIn(fn, s, setFSP), "the free-space pointer is advanced by the distance the tuple area was moved", fmt.Sprintf("SetFreeSpacePointer at %s moves the pointer by [%s], the bytes were moved by [%s] (copy at %s)", w.InstrPos(s), got, delta, w.InstrPos(shift)))
			}
			r.Floor(name+" SetFreeSpacePointer sites", nF, 1)
			// (2)-(4) fix-up loop
			nL := 0
			for _, s := range sitesCalling(fn, setOff) {
				hdr := loopHeaderOf(s.Block())
				if hdr == nil {
					continue
				}
				nL++
				c := s.(*ssa.Call)
				ord := ordinalIn(fn, s, setOff)
				// (2) new offset = old offset of the same slot + delta
				var oldOff *ssa.Call
				DependsOn(c.Call.Args[2], func(x ssa.Value) bool {
					if cc, ok := x.(*ssa.Call); ok && CalleeObj(cc) == getOff && oldOff == nil {
						oldOff = cc
					}
					return false
				})
				good := false
				why := "the new offset is not computed from the slot's old offset"
				if oldOff != nil {
					sameSlot := symKey(oldOff.Call.Args[1], pure, 0) == symKey(c.Call.Args[1], pure, 0)
					got := lf(c.Call.Args[2]).Sub(lf(oldOff))
					good = sameSlot && got.Equal(delta)
					why = fmt.Sprintf("slot offset is changed by [%s], the bytes were moved by [%s]", got, delta)
					if !sameSlot {
						why = "the old offset is read from another slot than the one written"
					}
				}
				r.Check(good, name+":offset-shift-equals-move-distance"+ord, "a row's slot offset changes by the distance its bytes were moved", why+" (at "+w.InstrPos(s)+")")
				// (3) selection threshold: a dominating `old offset < T` (or <=) test
				okSel := false
				whySel := "no dominating comparison of the slot's old offset with the moved area"
				for d, child := s.Block().Idom(), s.Block(); d != nil && oldOff != nil; child, d = d, d.Idom() {
					i := blockIf(d)
					if i == nil {
						continue
					}
					base, neg := condBase(i.Cond)
					bo, isBin := base.(*ssa.BinOp)
					if !isBin {
						continue
					}
					// normalise to "old offset REL t" as it holds when the comparison is true
					var t ssa.Value
					var rel token.Token
					flip := map[token.Token]token.Token{token.LSS: token.GTR, token.LEQ: token.GEQ, token.GTR: token.LSS, token.GEQ: token.LEQ}
					switch {
					case stripConv(bo.X) == ssa.Value(oldOff) && flip[bo.Op] != 0:
						t, rel = bo.Y, bo.Op
					case stripConv(bo.Y) == ssa.Value(oldOff) && flip[bo.Op] != 0:
						t, rel = bo.X, flip[bo.Op]
					default:
						continue
					}
					// which edge leads to the fix-up, and what does it say about the comparison?
					onTrue := d.Succs[0] == child || (d.Succs[0].Dominates(child) && len(d.Succs[0].Preds) == 1)
					onFalse := d.Succs[1] == child || (d.Succs[1].Dominates(child) && len(d.Succs[1].Preds) == 1)
					if onTrue == onFalse {
						whySel = "the fix-up is not on one side of the comparison at " + w.InstrPos(i)
						break
					}
					holds := onTrue != neg // truth of the BinOp on the way to the fix-up
					if !holds {
						rel = map[token.Token]token.Token{token.LSS: token.GEQ, token.LEQ: token.GTR, token.GTR: token.LEQ, token.GEQ: token.LSS}[rel]
					}
					if rel != token.LSS && rel != token.LEQ {
						whySel = "rows *above* the threshold are selected at " + w.InstrPos(i)
						break
					}
					strict := rel == token.LSS
					diff := lf(t).Sub(upper)
					oldSize := delta.Positive()
					switch {
					case strict && diff.IsZero(), strict && diff.Equal(oldSize), !strict && diff.IsZero():
						okSel = true
					default:
						whySel = fmt.Sprintf("rows are selected by offset %s [%s]; the moved area ends at [%s] (copy at %s): rows between the two keep a stale offset, or rows above are shifted", map[bool]string{true: "<", false: "<="}[strict], lf(t), upper, w.InstrPos(shift))
					}
					break
				}
				r.Check(okSel, name+":fix-up-selects-the-moved-rows"+ord, "exactly the rows whose bytes were moved get a new offset", whySel)
				// (4) loop over all slots
				var ph *ssa.Phi
				DependsOn(c.Call.Args[1], func(x ssa.Value) bool {
					if p, ok := x.(*ssa.Phi); ok && p.Block() == hdr && ph == nil {
						ph = p
					}
					return false
				})
				okLoop := false
				whyLoop := "the slot index is not the induction variable of the enclosing loop"
				if ph != nil {
					init0, step1 := false, false
					for k, e := range ph.Edges {
						pred := hdr.Preds[k]
						if hdr.Dominates(pred) { // back edge
							f := lf(e).Sub(lf(ph))
							step1 = f.C == 1 && len(f.T) == 0
						} else {
							f := lf(e)
							init0 = f.C == 0 && len(f.T) == 0
						}
					}
					bound := false
					if i := blockIf(hdr); i != nil {
						bound = DependsOn(i.Cond, func(x ssa.Value) bool { return x == ssa.Value(ph) }) && DependsOn(i.Cond, IsCallTo(getCnt))
					}
					okLoop = init0 && step1 && bound
					whyLoop = fmt.Sprintf("loop at %s: starts at 0: %v, step 1: %v, bounded by GetTupleCount: %v", w.Pos(ph.Pos()), init0, step1, bound)
				}
				r.Check(okLoop, name+":fix-up-visits-every-slot"+ord, "the fix-up loop runs over all slots of the page (a reused slot with a low number can hold the lowest row)", whyLoop)
			}
			r.Floor(name+" offset fix-ups in loops", nL, 1)
		}
	})
}
