package main

// selftest.go — thorough tier: mutation self-test. Each mutant is an in-memory variant of the
// repository (packages.Config.Overlay; nothing is written to /repo) with exactly one rule instance
// broken. The variant must still type-check and the rule must report it. A mutant whose anchor text
// is no longer present in the tree is skipped (the tree moved on), never counted as detected.

import (
	"encoding/json"
	"fmt"
	"os"
	"os/exec"
	"path/filepath"
	"strings"
	"sync"
)

type Mutant struct {
	ID         string   `json:"id"`
	Properties []string `json:"properties"`
	File       string   `json:"file"` // repo-relative
	Old        string   `json:"old"`
	New        string   `json:"new"`
	Expect     []string `json:"expect"` // substrings of "<rule> [<key>]" of which at least one must be reported
	Note       string   `json:"note,omitempty"`
}

type MutantResult struct {
	ID       string   `json:"id"`
	Status   string   `json:"status"` // detected | missed | skipped | broken-variant
	Fired    []string `json:"fired,omitempty"`
	Expected []string `json:"expected"`
	Detail   string   `json:"detail,omitempty"`
}

func runMutants(prop, repo, verifDir string) []MutantResult {
	b, err := os.ReadFile(filepath.Join(verifDir, "mutants", "mutants.json"))
	if err != nil {
		return []MutantResult{{ID: "mutants.json", Status: "broken-variant", Detail: err.Error()}}
	}
	var all []Mutant
	if err := json.Unmarshal(b, &all); err != nil {
		return []MutantResult{{ID: "mutants.json", Status: "broken-variant", Detail: err.Error()}}
	}
	var mine []Mutant
	for _, m := range all {
		for _, p := range m.Properties {
			if p == prop {
				mine = append(mine, m)
			}
		}
	}
	results := make([]MutantResult, len(mine))
	sem := make(chan bool, 4)
	var wg sync.WaitGroup
	for i, m := range mine {
		wg.Add(1)
		go func(i int, m Mutant) {
			defer wg.Done()
			sem <- true
			defer func() { <-sem }()
			results[i] = runMutant(prop, repo, verifDir, m)
		}(i, m)
	}
	wg.Wait()
	return results
}

func runMutant(prop, repo, verifDir string, m Mutant) MutantResult {
	res := MutantResult{ID: m.ID, Expected: m.Expect}
	abs := filepath.Join(repo, m.File)
	src, err := os.ReadFile(abs)
	if err != nil {
		res.Status, res.Detail = "skipped", "file not present: "+m.File
		return res
	}
	if strings.Count(string(src), m.Old) != 1 {
		res.Status, res.Detail = "skipped", fmt.Sprintf("anchor text occurs %d times in %s (tree changed)", strings.Count(string(src), m.Old), m.File)
		return res
	}
	overlay := map[string]string{abs: strings.Replace(string(src), m.Old, m.New, 1)}
	tmp, err := os.CreateTemp("", "sdbmut-*.json")
	if err != nil {
		res.Status, res.Detail = "broken-variant", err.Error()
		return res
	}
	defer os.Remove(tmp.Name())
	ob, _ := json.Marshal(overlay)
	tmp.Write(ob)
	tmp.Close()
	out := tmp.Name() + ".out"
	defer os.Remove(out)
	cmd := exec.Command(os.Args[0], "-property", prop, "-tier", "quick", "-repo", repo, "-verif", verifDir, "-overlay", tmp.Name(), "-no-evidence", "-json-out", out)
	cmd.Env = append(os.Environ(), "VERIF_TIER=quick")
	stdout, _ := cmd.CombinedOutput()
	if strings.Contains(string(stdout), "HARD FAILURE (load)") {
		res.Status, res.Detail = "broken-variant", "variant does not type-check: "+lastLines(string(stdout), 3)
		return res
	}
	var obls []Obl
	if jb, err := os.ReadFile(out); err == nil {
		json.Unmarshal(jb, &obls)
	}
	for _, o := range obls {
		if o.Status == "violated" || o.Status == "undecided" || o.Status == "known" {
			res.Fired = append(res.Fired, o.Rule+" ["+o.Key+"]")
		}
	}
	res.Status = "missed"
	for _, f := range res.Fired {
		for _, e := range m.Expect {
			if strings.Contains(f, e) {
				res.Status = "detected"
			}
		}
	}
	if res.Status == "missed" {
		res.Detail = lastLines(string(stdout), 2)
	}
	return res
}

func lastLines(s string, n int) string {
	ls := strings.Split(strings.TrimSpace(s), "\n")
	if len(ls) > n {
		ls = ls[len(ls)-n:]
	}
	return strings.Join(ls, " | ")
}
