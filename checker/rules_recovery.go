package main

// rules_recovery.go — log record exhaustiveness / writer-reader agreement, redo / undo structure,
// start-up and shutdown ordering (C01, C02, C09, C20).

import (
	"fmt"
	"go/constant"
	"go/token"
	"go/types"
	"sort"
	"strings"

	"golang.org/x/tools/go/ssa"
)

// enumConsts lists the package-level constants of a named (enum) type, by value.
func enumConsts(w *World, n *types.Named) map[int64]*types.Const {
	out := map[int64]*types.Const{}
	sc := n.Obj().Pkg().Scope()
	for _, nm := range sc.Names() {
		c, ok := sc.Lookup(nm).(*types.Const)
		if !ok || !types.Identical(c.Type(), n) {
			continue
		}
		if v, ok := constant.Int64Val(c.Val()); ok {
			if prev, dup := out[v]; !dup || prev.Name() > c.Name() {
				out[v] = c
			}
		}
	}
	return out
}

// fieldLoadOf: v is a load (or by-value field read) of struct field fld.
func fieldLoadOf(v ssa.Value, fld *types.Var) bool {
	v = stripConv(v)
	switch x := v.(type) {
	case *ssa.UnOp:
		if x.Op != token.MUL {
			return false
		}
		fa, ok := x.X.(*ssa.FieldAddr)
		if !ok {
			return false
		}
		st, ok := derefStruct(fa.X.Type())
		return ok && st.Field(fa.Field) == fld
	case *ssa.Field:
		st, ok := x.X.Type().Underlying().(*types.Struct)
		return ok && st.Field(x.Field) == fld
	case *ssa.Call:
		// trivial getter `func (r *T) GetX() X { return r.x }`
		if f := x.Call.StaticCallee(); f != nil && len(f.Blocks) == 1 {
			for _, in := range f.Blocks[0].Instrs {
				if ret, ok := in.(*ssa.Return); ok && len(ret.Results) == 1 {
					return fieldLoadOf(ret.Results[0], fld)
				}
			}
		}
	}
	return false
}

// enumCompare: cond (de-negated) is `<load of fld> ==/!= <const>`; returns const value and whether op is EQL.
func enumCompare(v ssa.Value, isSubject func(ssa.Value) bool) (int64, bool, bool) {
	b, ok := v.(*ssa.BinOp)
	if !ok || (b.Op != token.EQL && b.Op != token.NEQ) {
		return 0, false, false
	}
	var c *ssa.Const
	if isSubject(b.X) {
		c, _ = stripConv(b.Y).(*ssa.Const)
	} else if isSubject(b.Y) {
		c, _ = stripConv(b.X).(*ssa.Const)
	}
	if c == nil || c.Value == nil {
		return 0, false, false
	}
	iv, ok := constant.Int64Val(c.Value)
	if !ok {
		return 0, false, false
	}
	return iv, b.Op == token.EQL, true
}

// caseSet: the set of constants some If in fn (or a switch lowered to Ifs) compares the subject with.
func caseSet(fn *ssa.Function, isSubject func(ssa.Value) bool) map[int64]bool {
	out := map[int64]bool{}
	for _, b := range fn.Blocks {
		i := blockIf(b)
		if i == nil {
			continue
		}
		v, _ := condBase(i.Cond)
		if iv, _, ok := enumCompare(v, isSubject); ok {
			out[iv] = true
		}
	}
	return out
}

// specCut specialises a function to "subject == val": every If comparing the subject with a constant
// loses the edge inconsistent with that.
func specCut(isSubject func(ssa.Value) bool, val int64) EdgeCut {
	return func(b *ssa.BasicBlock, succ int) bool {
		i := blockIf(b)
		if i == nil {
			return false
		}
		v, neg := condBase(i.Cond)
		iv, eql, ok := enumCompare(v, isSubject)
		if !ok {
			return false
		}
		holds := (iv == val) == eql // truth of the BinOp under the specialisation
		condVal := holds != neg     // truth of If.Cond
		if condVal {
			return succ == 1
		}
		return succ == 0
	}
}

func constNames(m map[int64]*types.Const, set map[int64]bool) string {
	var s []string
	for v := range set {
		if c := m[v]; c != nil {
			s = append(s, c.Name())
		} else {
			s = append(s, fmt.Sprint(v))
		}
	}
	sort.Strings(s)
	return strings.Join(s, ",")
}

// emittedTypes: LogRecordType constants handed to a log record constructor anywhere in non-test repo
// code, mapped to the functions that emit them.
func emittedTypes(w *World) map[int64][]*ssa.Function {
	a := w.A()
	enum := enumConsts(w, a.LogRecordType)
	byName := map[string]int64{}
	for v, c := range enum {
		byName[c.Name()] = v
	}
	out := map[int64][]*ssa.Function{}
	ctors := map[*types.Func]bool{a.NewLogRecordTxn: true, a.NewLogRecordInsertDelete: true, a.NewLogRecordUpdate: true, a.NewLogRecordNewPage: true}
	fixed := map[*types.Func]string{a.NewLogRecordDealloc: "DeallocatePage", a.NewLogRecordReuse: "ReusePage", a.NewLogRecordGraceful: "GracefulShutdown"}
	for _, fn := range w.RepoFuncs {
		if w.IsTestFunc(fn) {
			continue
		}
		EachCall(fn, func(c ssa.CallInstruction) {
			o := CalleeObj(c)
			if o == nil {
				return
			}
			if n, ok := fixed[o]; ok {
				out[byName[n]] = append(out[byName[n]], fn)
				return
			}
			if !ctors[o] {
				return
			}
			for _, arg := range c.Common().Args {
				if types.Identical(arg.Type(), a.LogRecordType) {
					vals, ok := constArgValues(w, fn, arg, 0)
					if !ok {
						fatalf("log record constructor called with a type that is neither a constant nor a parameter bound to constants at every call site, at %s (idiom not modelled)", w.InstrPos(c))
					}
					for _, cv := range vals {
						out[cv.val] = append(out[cv.val], cv.fn)
					}
				}
			}
		})
	}
	return out
}

func init() {
	reg("C01-R3", "every LogRecordType a constructor call in the tree can emit has a case in LogManager.AppendLogRecord (payload writer), LogRecovery.DeserializeLogRecord (payload reader) and Redo; header-only types need no payload case", func(w *World, r *Report) {
		a := w.A()
		enum := enumConsts(w, a.LogRecordType)
		typeFld := w.Field("recovery", "LogRecord", "LogRecordType")
		subj := func(v ssa.Value) bool { return fieldLoadOf(v, typeFld) }
		emitted := emittedTypes(w)
		r.Floor("emitted record types", len(emitted), 10)
		headerOnly := map[string]bool{"BEGIN": true, "COMMIT": true, "ABORT": true, "GracefulShutdown": true}
		writer := caseSet(w.Fn("recovery", "LogManager", "AppendLogRecord"), subj)
		reader := caseSet(w.Fn("recovery/log_recovery", "LogRecovery", "DeserializeLogRecord"), subj)
		redo := caseSet(w.Fn("recovery/log_recovery", "LogRecovery", "Redo"), subj)
		r.Floor("writer cases", len(writer), 8)
		r.Floor("reader cases", len(reader), 8)
		r.Floor("redo cases", len(redo), 9)
		var vals []int64
		for v := range emitted {
			vals = append(vals, v)
		}
		sort.Slice(vals, func(i, j int) bool { return vals[i] < vals[j] })
		for _, v := range vals {
			name := enum[v].Name()
			if !headerOnly[name] {
				r.Check(writer[v], "writer-case:"+name, "AppendLogRecord serialises the payload of "+name, "no `LogRecordType == "+name+"` case in LogManager.AppendLogRecord; emitted by "+funcKey(emitted[v][0]))
				r.Check(reader[v], "reader-case:"+name, "DeserializeLogRecord parses the payload of "+name, "no case for "+name+" in DeserializeLogRecord")
			}
			r.Check(redo[v], "redo-case:"+name, "Redo has a case for "+name, "LogRecovery.Redo has no `LogRecordType == "+name+"` case although "+funcKey(emitted[v][0])+" emits it")
		}
		// writer and reader handle the same payload-carrying set
		for v := range writer {
			r.Check(reader[v], "reader-covers-writer:"+enum[v].Name(), "every payload the writer serialises is parsed by the reader", "writer handles "+enum[v].Name()+" but reader does not")
		}
		for v := range reader {
			r.Check(writer[v], "writer-covers-reader:"+enum[v].Name(), "every payload the reader parses is serialised by the writer", "reader handles "+enum[v].Name()+" but writer does not")
		}
	})

	reg("C01-R4", "writer/reader agreement of log payloads: per record type, the ordered list of LogRecord fields serialised in AppendLogRecord equals the ordered list parsed in DeserializeLogRecord", func(w *World, r *Report) {
		a := w.A()
		enum := enumConsts(w, a.LogRecordType)
		typeFld := w.Field("recovery", "LogRecord", "LogRecordType")
		subj := func(v ssa.Value) bool { return fieldLoadOf(v, typeFld) }
		lr := w.Named("recovery", "LogRecord").Underlying().(*types.Struct)
		header := map[string]bool{"Size": true, "Lsn": true, "TxnID": true, "PrevLSN": true, "LogRecordType": true}
		wfn := w.Fn("recovery", "LogManager", "AppendLogRecord")
		rfn := w.Fn("recovery/log_recovery", "LogRecovery", "DeserializeLogRecord")
		// ordered payload fields touched under specialisation T: FieldAddr/Field of LogRecord in
		// blocks reachable only... = reachable under spec T but not under spec INVALID(0) (common code)
		payload := func(fn *ssa.Function, val int64) []string {
			base := (&PathQ{Fn: fn, Cut: []EdgeCut{specCut(subj, -12345)}}).ReachableInstrs()
			spec := (&PathQ{Fn: fn, Cut: []EdgeCut{specCut(subj, val)}}).ReachableInstrs()
			var seq []string
			for _, b := range fn.Blocks { // block order = source order for straight-line branches
				for _, in := range b.Instrs {
					if !spec[in] || base[in] {
						continue
					}
					fa, ok := in.(*ssa.FieldAddr)
					if !ok {
						continue
					}
					st, ok := derefStruct(fa.X.Type())
					if !ok || st != lr {
						continue
					}
					nm := st.Field(fa.Field).Name()
					if header[nm] {
						continue
					}
					if len(seq) == 0 || seq[len(seq)-1] != nm {
						seq = append(seq, nm)
					}
				}
			}
			return seq
		}
		n := 0
		for v := range caseSet(wfn, subj) {
			ws, rs := payload(wfn, v), payload(rfn, v)
			// collapse repeated mentions (size computations re-read a field already serialised)
			ws, rs = firstMentions(ws), firstMentions(rs)
			name := enum[v].Name()
			n++
			r.Check(strings.Join(ws, ",") == strings.Join(rs, ","), "payload-order:"+name, "writer and reader touch the same LogRecord payload fields in the same order", fmt.Sprintf("%s: writer serialises [%s], reader parses [%s]", name, strings.Join(ws, ","), strings.Join(rs, ",")))
			if name != "GracefulShutdown" {
				r.Check(len(ws) > 0, "payload-nonempty:"+name, "payload case serialises at least one field", name+": writer case touches no payload field")
			}
		}
		r.Floor("payload cases compared", n, 8)
	})
}

func firstMentions(s []string) []string {
	seen := map[string]bool{}
	var out []string
	for _, x := range s {
		if !seen[x] {
			seen[x] = true
			out = append(out, x)
		}
	}
	return out
}

// emitterOf: which TablePage mutator constructs records of which type (derived from the tree).
func tablePageEmitters(w *World) map[int64]*types.Func {
	a := w.A()
	out := map[int64]*types.Func{}
	for v, fns := range emittedTypes(w) {
		for _, fn := range fns {
			for _, o := range []*types.Func{a.TPInsert, a.TPUpdate, a.TPMarkDelete, a.TPApplyDelete, a.TPRollbackDelete, a.TPInit} {
				if w.Prog.FuncValue(o) == fn {
					if prev := out[v]; prev != nil && prev != o {
						fatalf("record type %d emitted by two TablePage mutators (%s, %s): idiom not modelled", v, prev.Name(), o.Name())
					}
					out[v] = o
				}
			}
		}
	}
	return out
}

func init() {
	reg("C02-R1", "LogRecovery.Redo: for every terminal record type (the types TransactionManager.Commit/Abort append through NewLogRecordTxn) the loop iteration for that type removes the transaction from activeTxn", func(w *World, r *Report) {
		a := w.A()
		enum := enumConsts(w, a.LogRecordType)
		typeFld := w.Field("recovery", "LogRecord", "LogRecordType")
		txnFld := w.Field("recovery", "LogRecord", "TxnID")
		actFld := w.Field("recovery/log_recovery", "LogRecovery", "activeTxn")
		subj := func(v ssa.Value) bool { return fieldLoadOf(v, typeFld) }
		redo := w.Fn("recovery/log_recovery", "LogRecovery", "Redo")
		// terminal types, derived
		term := map[int64]string{}
		for _, o := range []*types.Func{a.TMCommit, a.TMAbort} {
			EachCall(w.SSA(o), func(c ssa.CallInstruction) {
				if CalleeObj(c) != a.NewLogRecordTxn {
					return
				}
				for _, arg := range c.Common().Args {
					if types.Identical(arg.Type(), a.LogRecordType) {
						if cv, ok := constOf(arg); ok {
							iv, _ := constant.Int64Val(cv)
							term[iv] = o.Name()
						}
					}
				}
			})
		}
		r.Floor("terminal record types", len(term), 2)
		isActiveMap := func(v ssa.Value) bool { return fieldLoadOf(v, actFld) }
		isTxnKey := func(v ssa.Value) bool { return DependsOn(v, func(x ssa.Value) bool { return fieldLoadOf(x, txnFld) }) }
		isRegister := func(in ssa.Instruction) bool {
			mu, ok := in.(*ssa.MapUpdate)
			return ok && isActiveMap(mu.Map) && isTxnKey(mu.Key)
		}
		isRemove := func(in ssa.Instruction) bool {
			c, ok := in.(*ssa.Call)
			if !ok {
				return false
			}
			b, ok := c.Call.Value.(*ssa.Builtin)
			return ok && b.Name() == "delete" && isActiveMap(c.Call.Args[0]) && isTxnKey(c.Call.Args[1])
		}
		var regs []ssa.Instruction
		for _, b := range redo.Blocks {
			for _, in := range b.Instrs {
				if isRegister(in) {
					regs = append(regs, in)
				}
			}
		}
		r.Floor("activeTxn registrations in Redo", len(regs), 1)
		var vals []int64
		for v := range term {
			vals = append(vals, v)
		}
		sort.Slice(vals, func(i, j int) bool { return vals[i] < vals[j] })
		for _, v := range vals {
			name := enum[v].Name()
			q := &PathQ{Fn: redo, Cut: []EdgeCut{specCut(subj, v)}, Avoid: isRemove,
				Target: func(in ssa.Instruction) bool { return isReturn(in) || in == regs[0] }}
			wit := q.FromAfter(regs[:1])
			r.Check(wit == nil, "Redo:terminal-record-ends-txn:"+name, "a "+name+" record (appended last by TransactionManager."+term[v]+") removes its transaction from activeTxn, so Undo does not roll it back (again)", "for a record of type "+name+" the iteration ends without delete(activeTxn, TxnID): "+w.DescribeWitness(redo, wit))
		}
	})

	reg("C02-R2", "Redo re-executes, for each record type, the TablePage mutator that emits it; Undo executes the inverse mutator for every tuple-level type (INSERT<->ApplyDelete, MARKDELETE<->RollbackDelete, UPDATE<->UpdateTuple with the old image and isRollbackOrUndo=true)", func(w *World, r *Report) {
		a := w.A()
		enum := enumConsts(w, a.LogRecordType)
		typeFld := w.Field("recovery", "LogRecord", "LogRecordType")
		subj := func(v ssa.Value) bool { return fieldLoadOf(v, typeFld) }
		redo := w.Fn("recovery/log_recovery", "LogRecovery", "Redo")
		undo := w.Fn("recovery/log_recovery", "LogRecovery", "Undo")
		em := tablePageEmitters(w)
		r.Floor("record types emitted by TablePage mutators", len(em), 6)
		// algebraic inverses on a slotted page (frozen, 3 pairs): insert<->applyDelete,
		// markDelete<->rollbackDelete, update<->update(old image)
		inverse := map[*types.Func]*types.Func{a.TPInsert: a.TPApplyDelete, a.TPApplyDelete: a.TPInsert, a.TPMarkDelete: a.TPRollbackDelete, a.TPRollbackDelete: a.TPMarkDelete, a.TPUpdate: a.TPUpdate}
		mutators := []*types.Func{a.TPInsert, a.TPUpdate, a.TPMarkDelete, a.TPApplyDelete, a.TPRollbackDelete, a.TPInit}
		calledUnder := func(fn *ssa.Function, v int64) map[*types.Func][]*ssa.Call {
			reach := (&PathQ{Fn: fn, Cut: []EdgeCut{specCut(subj, v)}}).ReachableInstrs()
			out := map[*types.Func][]*ssa.Call{}
			for in := range reach {
				if c, ok := in.(*ssa.Call); ok {
					o := CalleeObj(c)
					for _, m := range mutators {
						if o == m {
							out[m] = append(out[m], c)
						}
					}
				}
			}
			return out
		}
		names := func(m map[*types.Func][]*ssa.Call) string {
			var s []string
			for o := range m {
				s = append(s, o.Name())
			}
			sort.Strings(s)
			return strings.Join(s, ",")
		}
		var vals []int64
		for v := range em {
			vals = append(vals, v)
		}
		sort.Slice(vals, func(i, j int) bool { return vals[i] < vals[j] })
		oldFld := w.Field("recovery", "LogRecord", "OldTuple")
		newFld := w.Field("recovery", "LogRecord", "NewTuple")
		for _, v := range vals {
			name, m := enum[v].Name(), em[v]
			rc := calledUnder(redo, v)
			r.Check(len(rc) == 1 && rc[m] != nil, "Redo:"+name+"->"+m.Name(), "Redo of "+name+" calls exactly the mutator that emitted it", fmt.Sprintf("Redo under type %s calls {%s}, expected {%s}", name, names(rc), m.Name()))
			if m == a.TPInit {
				uc := calledUnder(undo, v)
				r.Check(len(uc) == 0, "Undo:"+name+"->none", "page creation is not undone (pages are never freed by undo)", "Undo under "+name+" calls {"+names(uc)+"}")
				continue
			}
			inv := inverse[m]
			uc := calledUnder(undo, v)
			r.Check(len(uc) == 1 && uc[inv] != nil, "Undo:"+name+"->"+inv.Name(), "Undo of "+name+" calls exactly the inverse mutator", fmt.Sprintf("Undo under type %s calls {%s}, expected {%s}", name, names(uc), inv.Name()))
			if m == a.TPUpdate {
				// redo installs NewTuple, undo installs OldTuple with isRollbackOrUndo = true
				for _, c := range rc[m] {
					args := c.Call.Args // recv, newTuple, ...
					r.Check(DependsOn(args[1], func(x ssa.Value) bool { return isFieldAddrOf(x, newFld) }), "Redo:UPDATE-installs-new-image", "Redo passes the record's NewTuple as the tuple to install", "first tuple argument at "+w.InstrPos(c)+" is not logRecord.NewTuple")
				}
				for _, c := range uc[inv] {
					args := c.Call.Args
					r.Check(DependsOn(args[1], func(x ssa.Value) bool { return isFieldAddrOf(x, oldFld) }), "Undo:UPDATE-installs-old-image", "Undo passes the record's OldTuple as the tuple to install", "first tuple argument at "+w.InstrPos(c)+" is not logRecord.OldTuple")
					last := args[len(args)-1]
					cv, ok := constOf(last)
					r.Check(ok && constant.BoolVal(cv), "Undo:UPDATE-isRollbackOrUndo", "Undo calls UpdateTuple with isRollbackOrUndo=true (shrinking restores are allowed)", "isRollbackOrUndo argument at "+w.InstrPos(c)+" is not the constant true")
				}
			}
		}
		// every tuple-level mutation in Redo/Undo is followed by UnpinPage(dirty=true) of that page: C14 covers the pin,
		// here: the dirty flag must be the constant true, otherwise the recovered change is never flushed.
		for _, fn := range []*ssa.Function{redo, undo} {
			n := 0
			EachCall(fn, func(c ssa.CallInstruction) {
				if CalleeObj(c) != a.BPMUnpin {
					return
				}
				n++
				args := c.Common().Args
				cv, ok := constOf(args[len(args)-1])
				r.Check(ok && constant.BoolVal(cv), fn.Name()+":unpin-dirty"+ordinalIn(fn, c, a.BPMUnpin), "recovered pages are unpinned dirty", "UnpinPage at "+w.InstrPos(c)+" does not pass isDirty=true")
			})
			r.Floor(fn.Name()+" unpin sites", n, 5)
		}
	})

	reg("C20-R1", "Redo idempotence guard: for every tuple-level record type the page mutation is unreachable once the true edge of `page.GetLSN() < record.GetLSN()` is removed, and the page is stamped with the record LSN afterwards; Init in redo mode (constant isForRedo=true at the Redo call site) cannot reach the writes that reset tuple count / free-space pointer / next-page link", func(w *World, r *Report) {
		a := w.A()
		enum := enumConsts(w, a.LogRecordType)
		typeFld := w.Field("recovery", "LogRecord", "LogRecordType")
		lsnFld := w.Field("recovery", "LogRecord", "Lsn")
		subj := func(v ssa.Value) bool { return fieldLoadOf(v, typeFld) }
		redo := w.Fn("recovery/log_recovery", "LogRecovery", "Redo")
		em := tablePageEmitters(w)
		isRecLSN := func(v ssa.Value) bool { return fieldLoadOf(v, lsnFld) }
		// lsnOlderWhenTrue: v is a comparison between the page LSN and the record LSN (any spelling, possibly
		// negated); holds = "page LSN < record LSN" holds when v is true
		lsnOlderWhenTrue := func(v0 ssa.Value) (holds bool, ok bool) {
			v, neg := condBase(v0)
			bo, isBin := v.(*ssa.BinOp)
			if !isBin {
				return false, false
			}
			pageSide := func(x ssa.Value) bool { return DependsOn(x, IsCallTo(a.PageGetLSN)) }
			recSide := func(x ssa.Value) bool { return DependsOn(x, isRecLSN) }
			var holdsWhenTrue bool // does "page < rec" hold when the BinOp is true?
			switch {
			case bo.Op == token.LSS && pageSide(bo.X) && recSide(bo.Y): // page < rec
				holdsWhenTrue = true
			case bo.Op == token.GTR && recSide(bo.X) && pageSide(bo.Y): // rec > page
				holdsWhenTrue = true
			case bo.Op == token.GEQ && pageSide(bo.X) && recSide(bo.Y): // page >= rec
				holdsWhenTrue = false
			case bo.Op == token.LEQ && recSide(bo.X) && pageSide(bo.Y): // rec <= page
				holdsWhenTrue = false
			default:
				return false, false
			}
			return holdsWhenTrue != neg, true
		}
		// guard edge: the edge of a comparison between the page LSN and the record LSN on which
		// "page LSN < record LSN" holds, whatever the spelling (<, >, <=, >= and operand order)
		lsnGuard := func(b *ssa.BasicBlock, succ int) bool {
			i := blockIf(b)
			if i == nil {
				return false
			}
			holds, ok := lsnOlderWhenTrue(i.Cond)
			return ok && (succ == 0) == holds
		}
		var vals []int64
		for v := range em {
			vals = append(vals, v)
		}
		sort.Slice(vals, func(i, j int) bool { return vals[i] < vals[j] })
		n := 0
		for _, v := range vals {
			name, m := enum[v].Name(), em[v]
			isMut := func(in ssa.Instruction) bool {
				c, ok := in.(*ssa.Call)
				return ok && CalleeObj(c) == m
			}
			if m == a.TPInit {
				// Init(isForRedo=true) only rewrites the immutable id / prev-id header fields: idempotent by
				// construction. Init in format mode (isForRedo=false) wipes the page: it is allowed only where
				// page LSN < record LSN holds (a page that was never written, or an older incarnation of it), and the
				// page is then stamped with the record LSN.
				reach := (&PathQ{Fn: redo, Cut: []EdgeCut{specCut(subj, v)}}).ReachableInstrs()
				// a page older than the record (in particular one that was never written) is formatted: with
				// "page LSN < record LSN" assumed at every comparison of the two, no path reaches UnpinPage without an
				// Init call that can run in format mode
				assumeOlder0 := func(b *ssa.BasicBlock, succ int) bool {
					i := blockIf(b)
					if i == nil {
						return false
					}
					if _, ok := lsnOlderWhenTrue(i.Cond); !ok {
						return false
					}
					return !lsnGuard(b, succ)
				}
				isFormatInit := func(x ssa.Instruction) bool {
					if !isMut(x) {
						return false
					}
					cc := x.(*ssa.Call)
					cv, ok := constOf(cc.Call.Args[len(cc.Call.Args)-1])
					return !(ok && constant.BoolVal(cv))
				}
				witF := (&PathQ{Fn: redo, Cut: []EdgeCut{specCut(subj, v), assumeOlder0}, Avoid: isFormatInit, Target: InstrCallsObj(a.BPMUnpin)}).FromEntry()
				r.Check(witF == nil, "Redo:"+name+":older-page-is-formatted", "a page that is older than its "+name+" record (never written before the crash, or a former incarnation) is formatted by Redo", "path to UnpinPage on which the page is only initialised in redo mode (tuple count / free-space pointer keep whatever the data file had, zero for a page that was never written): "+w.DescribeWitness(redo, witF))
				for in := range reach {
					if !isMut(in) {
						continue
					}
					n++
					c := in.(*ssa.Call)
					arg := c.Call.Args[len(c.Call.Args)-1]
					key := "Redo:" + name + ":Init-in-redo-mode"
					if cv, ok := constOf(arg); ok && constant.BoolVal(cv) {
						r.Ok(key, "Redo calls TablePage.Init with the constant isForRedo=true")
						continue
					}
					site := in
					formatOnlyWhenOlder := false
					if cv, ok := constOf(arg); ok && !constant.BoolVal(cv) {
						// constant false: the call itself must sit behind the LSN guard
						wit := (&PathQ{Fn: redo, Cut: []EdgeCut{specCut(subj, v), lsnGuard}, Target: func(x ssa.Instruction) bool { return x == site }}).FromEntry()
						formatOnlyWhenOlder = wit == nil
					} else if holds, ok := lsnOlderWhenTrue(arg); ok {
						// isForRedo = !(page LSN < record LSN), in any spelling: format mode exactly when the page is older
						formatOnlyWhenOlder = !holds
					}
					r.Check(formatOnlyWhenOlder, key, "Redo formats the page (Init with isForRedo=false) only when page LSN < record LSN", "isForRedo argument at "+w.InstrPos(c)+" can be false although the page on the data file is not older than the record")
					// on the format path the page is stamped before it is unpinned
					isStamp := func(in ssa.Instruction) bool {
						c, ok := in.(*ssa.Call)
						return ok && CalleeObj(c) == a.PageSetLSN && DependsOn(c.Call.Args[len(c.Call.Args)-1], isRecLSN)
					}
					assumeOlder := func(b *ssa.BasicBlock, succ int) bool {
						i := blockIf(b)
						if i == nil {
							return false
						}
						if _, ok := lsnOlderWhenTrue(i.Cond); !ok {
							return false
						}
						return !lsnGuard(b, succ)
					}
					wit := (&PathQ{Fn: redo, Cut: []EdgeCut{specCut(subj, v), assumeOlder}, Avoid: isStamp, Target: InstrCallsObj(a.BPMUnpin)}).FromAfter([]ssa.Instruction{site})
					r.Check(wit == nil, "Redo:"+name+":stamp-LSN", "after formatting the page for a "+name+" record the page LSN becomes the record LSN before the page is unpinned", "path from Init to UnpinPage without SetLSN(record LSN) although the page was older: "+w.DescribeWitness(redo, wit))
				}
				continue
			}
			n++
			wit := (&PathQ{Fn: redo, Cut: []EdgeCut{specCut(subj, v), lsnGuard}, Target: isMut}).FromEntry()
			r.Check(wit == nil, "Redo:"+name+":LSN-guard", "the "+m.Name()+" of a "+name+" record is applied only when page LSN < record LSN", "mutation reachable without passing the LSN guard: "+w.DescribeWitness(redo, wit))
			// after the mutation the page LSN is set from the record LSN before the page is unpinned/any return
			var muts []ssa.Instruction
			for in := range (&PathQ{Fn: redo, Cut: []EdgeCut{specCut(subj, v)}}).ReachableInstrs() {
				if isMut(in) {
					muts = append(muts, in)
				}
			}
			isStamp := func(in ssa.Instruction) bool {
				c, ok := in.(*ssa.Call)
				if !ok || CalleeObj(c) != a.PageSetLSN {
					return false
				}
				return DependsOn(c.Call.Args[len(c.Call.Args)-1], isRecLSN)
			}
			wit = (&PathQ{Fn: redo, Cut: []EdgeCut{specCut(subj, v)}, Avoid: isStamp, Target: InstrCallsObj(a.BPMUnpin)}).FromAfter(muts)
			r.Check(wit == nil && len(muts) > 0, "Redo:"+name+":stamp-LSN", "after redoing a "+name+" record the page LSN becomes the record LSN before the page is unpinned", "path from mutation to UnpinPage without SetLSN(record LSN): "+w.DescribeWitness(redo, wit))
		}
		r.Floor("redoable types checked", n, 6)
		// Init honours isForRedo: with the parameter specialised to true, the reset writes are unreachable
		initFn := w.SSA(a.TPInit)
		var p *ssa.Parameter
		for _, x := range initFn.Params {
			if x.Name() == "isForRedo" {
				p = x
			}
		}
		if p == nil {
			fatalf("TablePage.Init has no isForRedo parameter")
		}
		paramTrue := CutWhen(func(v ssa.Value) bool { return resolveCell(v) == ssa.Value(p) }, false)
		for _, nm := range []string{"SetTupleCount", "SetFreeSpacePointer", "SetNextPageID"} {
			o := w.MethodObj("storage/access", "TablePage", nm)
			wit := (&PathQ{Fn: initFn, Cut: []EdgeCut{paramTrue}, Target: InstrCallsObj(o)}).FromEntry()
			r.Check(wit == nil, "Init(isForRedo):no-"+nm, "redo-mode Init never calls "+nm+" (would wipe rows already on the page)", "reachable with isForRedo=true: "+w.DescribeWitness(initFn, wit))
			wit = (&PathQ{Fn: initFn, Avoid: InstrCallsObj(o), Target: isReturn, Cut: []EdgeCut{CutWhen(func(v ssa.Value) bool { return resolveCell(v) == ssa.Value(p) }, true)}}).FromEntry()
			r.Check(wit == nil, "Init(fresh):calls-"+nm, "a freshly created page always gets "+nm, "path without it: "+w.DescribeWitness(initFn, wit))
		}
	})
}

func isFieldAddrOf(v ssa.Value, fld *types.Var) bool {
	fa, ok := v.(*ssa.FieldAddr)
	if !ok {
		return false
	}
	st, ok := derefStruct(fa.X.Type())
	return ok && st.Field(fa.Field) == fld
}

// sitesCalling lists the call instructions in fn naming any of objs.
func sitesCalling(fn *ssa.Function, objs ...*types.Func) []ssa.Instruction {
	m := InstrCallsObj(objs...)
	var out []ssa.Instruction
	for _, b := range fn.Blocks {
		for _, in := range b.Instrs {
			if m(in) {
				out = append(out, in)
			}
		}
	}
	return out
}

// mustPrecede: no path from entry to any `later` site avoids all `earlier` sites.
func mustPrecede(w *World, r *Report, fn *ssa.Function, key, desc string, earlier func(ssa.Instruction) bool, later func(ssa.Instruction) bool, cuts ...EdgeCut) {
	wit := (&PathQ{Fn: fn, Cut: cuts, Avoid: earlier, Target: later}).FromEntry()
	r.Check(wit == nil, key, desc, "path reaching the later site without the earlier one: "+w.DescribeWitness(fn, wit))
}

func init() {
	reg("C01-R5", "NewSamehadaDB start-up order: Redo precedes Undo precedes log truncation; logging, checkpoint thread, statistics thread and request manager start only after the recovered pages were flushed and the recovery transaction committed", func(w *World, r *Report) {
		a := w.A()
		fn := w.Fn("samehada", "", "NewSamehadaDB")
		redo := w.MethodObj("recovery/log_recovery", "LogRecovery", "Redo")
		undo := w.MethodObj("recovery/log_recovery", "LogRecovery", "Undo")
		isRedo, isUndo, isGC := InstrCallsObj(redo), InstrCallsObj(undo), InstrCallsObj(a.DMGCLogFile)
		r.Floor("Redo sites", len(sitesCalling(fn, redo)), 1)
		r.Floor("Undo sites", len(sitesCalling(fn, undo)), 1)
		r.Floor("GCLogFile sites", len(sitesCalling(fn, a.DMGCLogFile)), 1)
		mustPrecede(w, r, fn, "NewSamehadaDB:Redo-before-Undo", "Undo runs only after Redo", isRedo, isUndo)
		mustPrecede(w, r, fn, "NewSamehadaDB:Redo-before-GCLogFile", "the log is truncated only after Redo", isRedo, isGC)
		wit := (&PathQ{Fn: fn, Target: func(in ssa.Instruction) bool { return isRedo(in) || isUndo(in) }}).FromAfter(sitesCalling(fn, a.DMGCLogFile))
		r.Check(wit == nil, "NewSamehadaDB:no-recovery-after-GCLogFile", "neither Redo nor Undo runs after the log was truncated", "path: "+w.DescribeWitness(fn, wit))
		// recovery runs with logging off and in recovery phase
		mustPrecede(w, r, fn, "NewSamehadaDB:DeactivateLogging-before-Redo", "logging is switched off before Redo", InstrCallsObj(a.LMDeactivate), isRedo)
		setRec := w.MethodObj("storage/access", "Transaction", "SetIsRecoveryPhase")
		mustPrecede(w, r, fn, "NewSamehadaDB:recovery-phase-before-Redo", "the recovery transaction is marked recovery-phase before Redo", InstrCallsObj(setRec), isRedo)
		isFlushPages := InstrCallsObj(a.BPMFlushAll, a.BPMFlushAllDirty)
		isCommit := InstrCallsObj(a.TMCommit)
		starts := map[string]*types.Func{
			"ActivateLogging":       a.LMActivate,
			"StartCheckpointTh":     w.MethodObj("concurrency", "CheckpointManager", "StartCheckpointTh"),
			"StartStaticsUpdaterTh": w.MethodObj("concurrency", "StatisticsUpdater", "StartStaticsUpdaterTh"),
			"RequestManager.StartTh": w.MethodObj("samehada", "RequestManager", "StartTh"),
		}
		var names []string
		for n := range starts {
			names = append(names, n)
		}
		sort.Strings(names)
		for _, n := range names {
			r.Floor(n+" sites", len(sitesCalling(fn, starts[n])), 1)
			mustPrecede(w, r, fn, "NewSamehadaDB:flush-pages-before-"+n, "recovered pages are flushed before "+n, isFlushPages, InstrCallsObj(starts[n]))
			mustPrecede(w, r, fn, "NewSamehadaDB:commit-recovery-txn-before-"+n, "the recovery transaction is committed before "+n, isCommit, InstrCallsObj(starts[n]))
		}
		// no return without activating logging (a DB handed to the user always logs)
		wit = (&PathQ{Fn: fn, Avoid: InstrCallsObj(a.LMActivate), Target: isReturn}).FromEntry()
		r.Check(wit == nil, "NewSamehadaDB:returns-with-logging-on", "every returned database has logging activated", "path: "+w.DescribeWitness(fn, wit))
	})

	reg("C02-R4", "NewSamehadaDB skips Undo only through the flag that Redo clears exclusively in its GracefulShutdown case", func(w *World, r *Report) {
		a := w.A()
		fn := w.Fn("samehada", "", "NewSamehadaDB")
		redoObj := w.MethodObj("recovery/log_recovery", "LogRecovery", "Redo")
		undoObj := w.MethodObj("recovery/log_recovery", "LogRecovery", "Undo")
		// the only If between Redo and Undo that can bypass Undo must depend on Redo's 2nd result
		redoSites := sitesCalling(fn, redoObj)
		r.Floor("Redo sites", len(redoSites), 1)
		redoCall := redoSites[0].(*ssa.Call)
		isUndoNeeded := func(v ssa.Value) bool {
			e, ok := v.(*ssa.Extract)
			return ok && e.Tuple == ssa.Value(redoCall) && e.Index == 1
		}
		// cut the "undo not needed" edge; then no path Redo -> GCLogFile avoids Undo
		cut := CutWhen(func(v ssa.Value) bool { return isUndoNeeded(resolveCell(v)) }, false)
		wit := (&PathQ{Fn: fn, Cut: []EdgeCut{cut}, Avoid: InstrCallsObj(undoObj), Target: InstrCallsObj(a.DMGCLogFile)}).FromAfter(redoSites)
		r.Check(wit == nil, "NewSamehadaDB:Undo-skipped-only-by-isUndoNeeded", "between Redo and the log truncation, Undo is bypassed only when Redo's isUndoNeeded result is false", "path: "+w.DescribeWitness(fn, wit))
		// inside Redo: the value returned as 2nd result is false only when the GracefulShutdown case ran
		redo := w.SSA(redoObj)
		enum := enumConsts(w, a.LogRecordType)
		var gsVal int64 = -1
		for v, c := range enum {
			if c.Name() == "GracefulShutdown" {
				gsVal = v
			}
		}
		typeFld := w.Field("recovery", "LogRecord", "LogRecordType")
		subj := func(v ssa.Value) bool { return fieldLoadOf(v, typeFld) }
		// specialise to "no record is GracefulShutdown": then every returned 2nd result must be the constant true
		bad := ""
		n := 0
		reach := (&PathQ{Fn: redo, Cut: []EdgeCut{specCut(subj, -777)}}).ReachableInstrs()
		_ = gsVal
		for in := range reach {
			ret, ok := in.(*ssa.Return)
			if !ok {
				continue
			}
			n++
			// collect possible values of result 1 through phis restricted to reachable predecessors
			if !onlyConstTrue(ret.Results[1], reach, map[ssa.Value]bool{}) {
				bad = "Redo can return isUndoNeeded=false without having seen a GracefulShutdown record (return at " + w.InstrPos(ret) + ")"
			}
		}
		r.Floor("Redo returns", n, 1)
		r.Check(bad == "", "Redo:isUndoNeeded-false-only-on-GracefulShutdown", "Redo reports 'undo not needed' only after a GracefulShutdown record", bad)
	})

	reg("C20-R2", "NewSamehadaDB truncates the log (GCLogFile) only after the recovered pages have been flushed to the data file", func(w *World, r *Report) {
		a := w.A()
		fn := w.Fn("samehada", "", "NewSamehadaDB")
		r.Floor("GCLogFile sites", len(sitesCalling(fn, a.DMGCLogFile)), 1)
		mustPrecede(w, r, fn, "NewSamehadaDB:flush-pages-before-GCLogFile", "recovered pages reach the data file before the log that describes them is deleted", InstrCallsObj(a.BPMFlushAll, a.BPMFlushAllDirty), InstrCallsObj(a.DMGCLogFile))
	})

	reg("C20-R3", "after log truncation the reusable-page records are re-appended and the log flushed before logging is re-activated; the next LSN is restored from Redo's greatest LSN", func(w *World, r *Report) {
		a := w.A()
		fn := w.Fn("samehada", "", "NewSamehadaDB")
		gc := sitesCalling(fn, a.DMGCLogFile)
		r.Floor("GCLogFile sites", len(gc), 1)
		fs := a.flushSumm()
		wit := (&PathQ{Fn: fn, Avoid: fs.MustSite, Target: InstrCallsObj(a.LMActivate)}).FromAfter(gc)
		r.Check(wit == nil, "NewSamehadaDB:flush-log-after-GC-before-ActivateLogging", "the re-seeded log is flushed before normal operation starts", "path: "+w.DescribeWitness(fn, wit))
		wit = (&PathQ{Fn: fn, Avoid: InstrCallsObj(a.LMSetNextLSN), Target: InstrCallsObj(a.LMActivate)}).FromAfter(gc)
		r.Check(wit == nil, "NewSamehadaDB:SetNextLSN-after-GC", "the LSN counter is restored before normal operation starts", "path: "+w.DescribeWitness(fn, wit))
		redoObj := w.MethodObj("recovery/log_recovery", "LogRecovery", "Redo")
		for _, s := range sitesCalling(fn, a.LMSetNextLSN) {
			c := s.(*ssa.Call)
			r.Check(DependsOn(c.Call.Args[len(c.Call.Args)-1], IsCallTo(redoObj)), "NewSamehadaDB:SetNextLSN-from-Redo", "the restored LSN counter is computed from Redo's greatest LSN", "SetNextLSN argument at "+w.InstrPos(s)+" does not depend on Redo's result")
		}
		// re-append loop: an AppendLogRecord of a DeallocatePage record exists between GC and Activate, fed by GetReusablePageIDs
		getReusable := w.MethodObj("storage/buffer", "BufferPoolManager", "GetReusablePageIDs")
		aps := appendSitesOfType(w, fn, w.Const("recovery", "DeallocatePage"))
		r.Floor("DeallocatePage re-append sites", len(aps), 1)
		for _, s := range aps {
			c := s.(ssa.CallInstruction)
			rec := c.Common().Args[len(c.Common().Args)-1]
			r.Check(DependsOn(rec, IsCallTo(getReusable)), "NewSamehadaDB:reappend-reusable-ids", "the re-appended DeallocatePage records carry the ids recovered by Redo", "record at "+w.InstrPos(s)+" does not depend on GetReusablePageIDs()")
		}
		wit = (&PathQ{Fn: fn, Target: func(in ssa.Instruction) bool { return in == aps[0] }}).FromAfter(gc)
		r.Check(wit != nil, "NewSamehadaDB:reappend-after-GC", "the re-append happens after the truncation (not before it, where it would be deleted)", "no path from GCLogFile to the re-append")
	})
}

// onlyConstTrue: v (restricted to reachable defs) can only be the boolean constant true.
func onlyConstTrue(v ssa.Value, reach map[ssa.Instruction]bool, seen map[ssa.Value]bool) bool {
	if seen[v] {
		return true
	}
	seen[v] = true
	switch x := v.(type) {
	case *ssa.Const:
		return x.Value != nil && x.Value.Kind() == constant.Bool && constant.BoolVal(x.Value)
	case *ssa.Phi:
		for i, e := range x.Edges {
			pred := x.Block().Preds[i]
			// is the predecessor's terminator reachable?
			if len(pred.Instrs) > 0 && !reach[pred.Instrs[len(pred.Instrs)-1]] {
				continue
			}
			// is the edge pred -> block cut? (approximation: if the block itself is reachable only via
			// other preds the phi edge value is still considered; conservative)
			if !onlyConstTrue(e, reach, seen) {
				// edge may be infeasible under the specialisation if pred is the cut branch block
				if !blockReachable(pred, reach) {
					continue
				}
				return false
			}
		}
		return true
	case *ssa.UnOp:
		if x.Op == token.MUL {
			if al, ok := x.X.(*ssa.Alloc); ok {
				for _, st := range storesTo(al) {
					if !reach[st] {
						continue
					}
					if !onlyConstTrue(st.Val, reach, seen) {
						return false
					}
				}
				return true
			}
		}
	}
	return false
}

func blockReachable(b *ssa.BasicBlock, reach map[ssa.Instruction]bool) bool {
	for _, in := range b.Instrs {
		if reach[in] {
			return true
		}
	}
	return false
}

type constAt struct {
	val int64
	fn  *ssa.Function // the function that supplies the constant (the emitter, for helper parameters: the caller)
}

// constArgValues resolves an integer-typed argument to constants: directly, or — when it is a
// parameter of fn — through the constants passed at every call site of fn (depth <= 2).
func constArgValues(w *World, fn *ssa.Function, arg ssa.Value, depth int) ([]constAt, bool) {
	if cv, ok := constOf(arg); ok {
		if iv, ok := constant.Int64Val(cv); ok {
			return []constAt{{iv, fn}}, true
		}
		return nil, false
	}
	p, isParam := resolveCell(stripConv(arg)).(*ssa.Parameter)
	if !isParam || depth >= 2 {
		return nil, false
	}
	idx := -1
	for i, q := range fn.Params {
		if q == p {
			idx = i
		}
	}
	if idx < 0 {
		return nil, false
	}
	var out []constAt
	sites := w.Callers(fn)
	if len(sites) == 0 {
		return nil, false
	}
	for _, cs := range sites {
		if w.IsTestFunc(cs.Caller) {
			continue
		}
		args := cs.Instr.Common().Args
		if cs.Instr.Common().IsInvoke() || idx >= len(args) {
			return nil, false
		}
		vs, ok := constArgValues(w, cs.Caller, args[idx], depth+1)
		if !ok {
			return nil, false
		}
		out = append(out, vs...)
	}
	return out, len(out) > 0
}

func init() {
	reg("C01-R8", "LSN continuity across log truncation: in NewSamehadaDB, after GCLogFile and after the LSN counter was restored (SetNextLSN), a record with a real LSN (built by a numbered constructor, not the LSN-less DeallocatePage / ReusePage / GracefulShutdown kinds) is appended and flushed before logging is re-activated — otherwise a start during which nothing is logged leaves a log without numbered records and the next start restarts LSNs below the LSNs already on the pages", func(w *World, r *Report) {
		a := w.A()
		fn := w.Fn("samehada", "", "NewSamehadaDB")
		gc := sitesCalling(fn, a.DMGCLogFile)
		r.Floor("GCLogFile sites", len(gc), 1)
		isNumberedAppend := func(in ssa.Instruction) bool {
			c, ok := in.(ssa.CallInstruction)
			if !ok || CalleeObj(c) != a.LMAppend {
				return false
			}
			args := c.Common().Args
			return DependsOn(args[len(args)-1], IsCallTo(a.NewLogRecordTxn, a.NewLogRecordInsertDelete, a.NewLogRecordUpdate, a.NewLogRecordNewPage))
		}
		wit := (&PathQ{Fn: fn, Avoid: isNumberedAppend, Target: InstrCallsObj(a.LMActivate)}).FromAfter(gc)
		r.Check(wit == nil, "NewSamehadaDB:numbered-record-after-GC", "the truncated log receives a record with a real LSN before normal operation starts", "path from GCLogFile to ActivateLogging without appending a numbered record: "+w.DescribeWitness(fn, wit))
		// it is appended after the counter was restored, and flushed
		wit = (&PathQ{Fn: fn, Avoid: InstrCallsObj(a.LMSetNextLSN), Target: isNumberedAppend}).FromAfter(gc)
		r.Check(wit == nil, "NewSamehadaDB:numbered-record-after-SetNextLSN", "the record is numbered from the restored counter", "path: "+w.DescribeWitness(fn, wit))
		var aps []ssa.Instruction
		for _, b := range fn.Blocks {
			for _, in := range b.Instrs {
				if isNumberedAppend(in) {
					aps = append(aps, in)
				}
			}
		}
		fs := a.flushSumm()
		wit = (&PathQ{Fn: fn, Avoid: fs.MustSite, Target: InstrCallsObj(a.LMActivate)}).FromAfter(aps)
		r.Check(wit == nil && len(aps) > 0, "NewSamehadaDB:numbered-record-flushed", "the record reaches the log file before normal operation starts", "path: "+w.DescribeWitness(fn, wit))
	})
}

func init() {
	reg("C01-R9", "pages that were allocated and logged but never written before a crash are rebuilt: in Redo's NewTablePage case the FetchPage result is tested for nil and on the nil side the page is put on the data file (DiskManager.WritePage of the record's page id) and fetched again before TablePage.Init; the link from the previous page (not logged separately) is restored with SetNextPageID; DiskManagerImpl.WritePage moves nextPageID beyond a page written past it, so that the id is not handed out again", func(w *World, r *Report) {
		a := w.A()
		redo := w.Fn("recovery/log_recovery", "LogRecovery", "Redo")
		typeFld := w.Field("recovery", "LogRecord", "LogRecordType")
		pageIDFld := w.Field("recovery", "LogRecord", "PageID")
		prevIDFld := w.Field("recovery", "LogRecord", "PrevPageID")
		subj := func(v ssa.Value) bool { return fieldLoadOf(v, typeFld) }
		kv, _ := constant.Int64Val(w.Const("recovery", "NewTablePage").Val())
		spec := specCut(subj, kv)
		isRecPage := func(v ssa.Value) bool { return fieldLoadOf(v, pageIDFld) }
		isRecPrev := func(v ssa.Value) bool { return fieldLoadOf(v, prevIDFld) }
		reach := (&PathQ{Fn: redo, Cut: []EdgeCut{spec}}).ReachableInstrs()
		var fetches, inits, writes []ssa.Instruction
		dmWrite := w.family(a.DMWritePage)
		for in := range reach {
			c, ok := in.(ssa.CallInstruction)
			if !ok {
				continue
			}
			args := c.Common().Args
			o := CalleeObj(c)
			switch {
			case o == a.BPMFetch:
				if DependsOn(args[len(args)-1], isRecPage) {
					fetches = append(fetches, in)
				}
			case o == a.TPInit:
				inits = append(inits, in)
			case o != nil && (dmWrite[o] || dmWrite[o.Origin()]):
				if len(args) >= 2 && DependsOn(args[len(args)-2], isRecPage) {
					writes = append(writes, in)
				}
			}
		}
		r.Floor("FetchPage(record.PageID) sites in Redo's NewTablePage case", len(fetches), 1)
		r.Floor("TablePage.Init sites in Redo's NewTablePage case", len(inits), 1)
		isFetchRes := func(v ssa.Value) bool {
			return DependsOn(v, func(x ssa.Value) bool {
				c, ok := x.(*ssa.Call)
				return ok && CalleeObj(c) == a.BPMFetch
			})
		}
		isInit := InstrCallsObj(a.TPInit)
		isWrite := func(in ssa.Instruction) bool {
			for _, x := range writes {
				if x == in {
					return true
				}
			}
			return false
		}
		assumeNil := nilCompareCut(isFetchRes, false)
		wit := (&PathQ{Fn: redo, Cut: []EdgeCut{spec, assumeNil}, Avoid: isWrite, Target: isInit}).FromEntry()
		r.Check(wit == nil, "Redo:NewTablePage:missing-page-is-materialised", "when the page is not on the data file (FetchPage returned nil) it is written as an empty page before it is initialised", "with the fetched page assumed nil, TablePage.Init is reached without DiskManager.WritePage(record.PageID): "+w.DescribeWitness(redo, wit))
		wit = (&PathQ{Fn: redo, Cut: []EdgeCut{spec}, Avoid: InstrCallsObj(a.BPMFetch), Target: isInit}).FromAfter(writes)
		r.Check(wit == nil && len(writes) > 0, "Redo:NewTablePage:refetch-after-materialising", "the materialised page is fetched through the pool before it is initialised", "path from WritePage to Init without FetchPage: "+w.DescribeWitness(redo, wit))
		// relink
		setNext := w.MethodObj("storage/access", "TablePage", "SetNextPageID")
		isValid := w.MethodObj("types", "PageID", "IsValid")
		isRelink := func(in ssa.Instruction) bool {
			c, ok := in.(*ssa.Call)
			if !ok || CalleeObj(c) != setNext {
				return false
			}
			recvFromPrev := DependsOn(c.Call.Args[0], func(x ssa.Value) bool {
				cc, ok := x.(*ssa.Call)
				return ok && CalleeObj(cc) == a.BPMFetch && DependsOn(cc.Call.Args[len(cc.Call.Args)-1], isRecPrev)
			})
			argIsPage := DependsOn(c.Call.Args[1], func(x ssa.Value) bool {
				if isRecPage(x) {
					return true
				}
				cc, ok := x.(*ssa.Call)
				return ok && cc.Call.StaticCallee() != nil && cc.Call.StaticCallee().Name() == "GetPageID"
			})
			return recvFromPrev && argIsPage
		}
		prevValid := CutWhen(func(v ssa.Value) bool {
			c, ok := v.(*ssa.Call)
			return ok && CalleeObj(c) == isValid && DependsOn(c.Call.Args[0], isRecPrev)
		}, false)
		deser := w.MethodObj("recovery/log_recovery", "LogRecovery", "DeserializeLogRecord")
		readLog := w.family(w.MethodObj("storage/disk", "DiskManager", "ReadLog"))
		wit = (&PathQ{Fn: redo, Cut: []EdgeCut{spec, prevValid}, Avoid: isRelink, Target: func(in ssa.Instruction) bool {
			if isReturn(in) || InstrCallsObj(deser)(in) {
				return true
			}
			c, ok := in.(ssa.CallInstruction)
			return ok && CalleeObj(c) != nil && readLog[CalleeObj(c)]
		}}).FromAfter(inits)
		r.Check(wit == nil, "Redo:NewTablePage:previous-page-relinked", "the next-page link of the previous page is restored (it is written by TableHeap.InsertTuple without a log record of its own)", "path from Init to the next record without prev.SetNextPageID(page id): "+w.DescribeWitness(redo, wit))
		// disk manager
		wp := w.Fn("storage/disk", "DiskManagerImpl", "WritePage")
		next := w.Field("storage/disk", "DiskManagerImpl", "nextPageID")
		var idParam *ssa.Parameter
		for _, p := range wp.Params {
			if strings.HasSuffix(p.Type().String(), "types.PageID") {
				idParam = p
			}
		}
		n := 0
		for _, b := range wp.Blocks {
			for _, in := range b.Instrs {
				if st, ok := in.(*ssa.Store); ok && isFieldAddrOf(st.Addr, next) {
					if idParam != nil && DependsOn(st.Val, func(x ssa.Value) bool { return x == ssa.Value(idParam) }) {
						n++
					}
				}
			}
		}
		r.Check(n > 0, "DiskManagerImpl.WritePage:advances-nextPageID", "writing a page beyond nextPageID moves nextPageID past it", "no store to nextPageID derived from the pageID parameter in DiskManagerImpl.WritePage")
	})
}

func init() {
	reg("C01-R10", "a log record is decoded only when it lies completely inside the chunk that was read: in DeserializeLogRecord no payload decode (Tuple.DeserializeFrom, binary.Read behind the header) is reachable once the edge on which len(data) >= record size holds is removed; and Redo's chunk loop makes progress or stops: with the buffer offset assumed 0 after the inner loop, the next ReadLog is unreachable (a torn record at the tail of the log ends recovery instead of spinning)", func(w *World, r *Report) {
		a := w.A()
		_ = a
		de := w.Fn("recovery/log_recovery", "LogRecovery", "DeserializeLogRecord")
		sizeFld := w.Field("recovery", "LogRecord", "Size")
		var dataP *ssa.Parameter
		for _, p := range de.Params {
			if _, ok := p.Type().Underlying().(*types.Slice); ok {
				dataP = p
			}
		}
		if dataP == nil {
			fatalf("DeserializeLogRecord has no slice parameter")
		}
		isLenData := func(v ssa.Value) bool {
			return DependsOn(v, func(x ssa.Value) bool {
				c, ok := x.(*ssa.Call)
				if !ok {
					return false
				}
				b, ok := c.Call.Value.(*ssa.Builtin)
				return ok && b.Name() == "len" && c.Call.Args[0] == ssa.Value(dataP)
			})
		}
		isSize := func(v ssa.Value) bool { return DependsOn(v, func(x ssa.Value) bool { return fieldLoadOf(x, sizeFld) }) }
		// the edge on which "len(data) >= Size" holds
		complete := func(b *ssa.BasicBlock, succ int) bool {
			i := blockIf(b)
			if i == nil {
				return false
			}
			v, neg := condBase(i.Cond)
			bo, ok := v.(*ssa.BinOp)
			if !ok {
				return false
			}
			var enoughWhenTrue bool
			switch {
			case bo.Op == token.LSS && isLenData(bo.X) && isSize(bo.Y) && !isSize(bo.X): // len < size
				enoughWhenTrue = false
			case bo.Op == token.GTR && isSize(bo.X) && isLenData(bo.Y) && !isSize(bo.Y): // size > len
				enoughWhenTrue = false
			case bo.Op == token.GEQ && isLenData(bo.X) && isSize(bo.Y) && !isSize(bo.X): // len >= size
				enoughWhenTrue = true
			case bo.Op == token.LEQ && isSize(bo.X) && isLenData(bo.Y) && !isSize(bo.Y): // size <= len
				enoughWhenTrue = true
			default:
				return false
			}
			binTrue := (succ == 0) != neg
			return binTrue == enoughWhenTrue
		}
		r.Floor("record-fits-in-chunk tests in DeserializeLogRecord", countCutEdges(de, []EdgeCut{complete}), 1)
		desFrom := w.MethodObj("storage/tuple", "Tuple", "DeserializeFrom")
		isPayload := func(in ssa.Instruction) bool {
			c, ok := in.(*ssa.Call)
			if !ok {
				return false
			}
			if CalleeObj(c) == desFrom {
				return true
			}
			// binary.Read(bytes.NewBuffer(data[pos:]) …) with pos > 0
			if f := c.Call.StaticCallee(); f != nil && f.Pkg != nil && f.Pkg.Pkg.Path() == "bytes" && f.Name() == "NewBuffer" {
				if sl, ok := c.Call.Args[0].(*ssa.Slice); ok && sl.X == ssa.Value(dataP) && sl.Low != nil {
					return true
				}
			}
			return false
		}
		n := 0
		for _, b := range de.Blocks {
			for _, in := range b.Instrs {
				if isPayload(in) {
					n++
				}
			}
		}
		r.Floor("payload decodes in DeserializeLogRecord", n, 5)
		wit := (&PathQ{Fn: de, Cut: []EdgeCut{complete}, Target: isPayload}).FromEntry()
		r.Check(wit == nil, "DeserializeLogRecord:payload-decoded-only-from-a-complete-record", "the payload of a record is decoded only after the record was found to lie inside the data", "payload decode reachable without the test len(data) >= record size (a record crossing the end of the read buffer is decoded from a short slice): "+w.DescribeWitness(de, wit))
		// Redo: progress or stop
		redo := w.Fn("recovery/log_recovery", "LogRecovery", "Redo")
		deser := w.MethodObj("recovery/log_recovery", "LogRecovery", "DeserializeLogRecord")
		readLog := w.family(w.MethodObj("storage/disk", "DiskManager", "ReadLog"))
		var bufOff ssa.Value
		var dsites []ssa.Instruction
		for _, s := range sitesCalling(redo, deser) {
			dsites = append(dsites, s)
			c := s.(*ssa.Call)
			if sl, ok := c.Call.Args[1].(*ssa.Slice); ok && sl.Low != nil {
				bufOff = stripConv(sl.Low)
			}
		}
		r.Floor("DeserializeLogRecord calls in Redo", len(dsites), 1)
		assumeZero := func(b *ssa.BasicBlock, succ int) bool {
			i := blockIf(b)
			if i == nil || bufOff == nil {
				return false
			}
			v, neg := condBase(i.Cond)
			bo, ok := v.(*ssa.BinOp)
			if !ok || (bo.Op != token.EQL && bo.Op != token.NEQ && bo.Op != token.GTR) {
				return false
			}
			isOff := func(x ssa.Value) bool { return stripConv(x) == bufOff }
			isZero := func(x ssa.Value) bool {
				cv, ok := constOf(x)
				if !ok {
					return false
				}
				iv, ok := constant.Int64Val(constant.ToInt(cv))
				return ok && iv == 0
			}
			if !((isOff(bo.X) && isZero(bo.Y)) || (isOff(bo.Y) && isZero(bo.X) && bo.Op != token.GTR)) {
				return false
			}
			binTrue := (succ == 0) != neg
			zeroWhenTrue := bo.Op == token.EQL
			return binTrue != zeroWhenTrue // remove the non-zero edge
		}
		r.Floor("no-progress tests in Redo", countCutEdges(redo, []EdgeCut{assumeZero}), 1)
		// from the failing DeserializeLogRecord (loop exit) to the next ReadLog
		deserFalse := CutWhen(IsCallTo(deser), true)
		wit = (&PathQ{Fn: redo, Cut: []EdgeCut{assumeZero, deserFalse}, Target: func(in ssa.Instruction) bool {
			c, ok := in.(ssa.CallInstruction)
			return ok && CalleeObj(c) != nil && readLog[CalleeObj(c)]
		}}).FromAfter(dsites)
		r.Check(wit == nil, "Redo:chunk-loop-progresses-or-stops", "when no complete record was found in a chunk Redo stops reading", "with the buffer offset assumed 0 the next ReadLog is reached (same offset again: endless loop on a torn tail): "+w.DescribeWitness(redo, wit))
	})
}

func init() {
	reg("C02-R5", "Undo follows every loser's chain to its end: Redo records, for every record, lsnMapping[record LSN] = (offset given to ReadLog) + (offset of the record inside the chunk) and activeTxn[txn] = record LSN; Undo reads the log at lsnMapping[lsn], its inner loop variable is replaced by the record's PrevLSN on every iteration and the loop ends only at InvalidLSN; the outer loop ranges over activeTxn", func(w *World, r *Report) {
		redo := w.Fn("recovery/log_recovery", "LogRecovery", "Redo")
		undo := w.Fn("recovery/log_recovery", "LogRecovery", "Undo")
		mapFld := w.Field("recovery/log_recovery", "LogRecovery", "lsnMapping")
		actFld := w.Field("recovery/log_recovery", "LogRecovery", "activeTxn")
		lsnFld := w.Field("recovery", "LogRecord", "Lsn")
		prevFld := w.Field("recovery", "LogRecord", "PrevLSN")
		txnFld := w.Field("recovery", "LogRecord", "TxnID")
		deser := w.MethodObj("recovery/log_recovery", "LogRecovery", "DeserializeLogRecord")
		readLog := w.family(w.MethodObj("storage/disk", "DiskManager", "ReadLog"))
		isReadLog := func(in ssa.Instruction) (ssa.CallInstruction, bool) {
			c, ok := in.(ssa.CallInstruction)
			if !ok || CalleeObj(c) == nil || !(readLog[CalleeObj(c)] || readLog[CalleeObj(c).Origin()]) {
				return nil, false
			}
			return c, true
		}
		// Redo
		var rlOff, bufOff ssa.Value
		for _, b := range redo.Blocks {
			for _, in := range b.Instrs {
				if c, ok := isReadLog(in); ok {
					args := c.Common().Args
					rlOff = args[len(args)-2]
				}
				if c, ok := in.(*ssa.Call); ok && CalleeObj(c) == deser {
					if sl, ok := c.Call.Args[1].(*ssa.Slice); ok && sl.Low != nil {
						bufOff = sl.Low
					}
				}
			}
		}
		nMap, nAct := 0, 0
		for _, b := range redo.Blocks {
			for _, in := range b.Instrs {
				mu, ok := in.(*ssa.MapUpdate)
				if !ok {
					continue
				}
				switch {
				case fieldLoadOf(mu.Map, mapFld):
					nMap++
					keyOK := DependsOn(mu.Key, func(x ssa.Value) bool { return fieldLoadOf(x, lsnFld) })
					valOK := false
					if rlOff != nil && bufOff != nil {
						valOK = linForm(mu.Value, nil, 0).Equal(linForm(rlOff, nil, 0).Sub(LinForm{0, map[string]int64{}}.Sub(linForm(bufOff, nil, 0))))
					}
					r.Check(keyOK && valOK, "Redo:lsnMapping-is-record-start"+itoaOrd(nMap), "lsnMapping maps a record's LSN to the file offset at which the record starts", fmt.Sprintf("map update at %s: key from record LSN: %v; value = ReadLog offset + offset inside the chunk: %v", w.InstrPos(in), keyOK, valOK))
				case fieldLoadOf(mu.Map, actFld):
					nAct++
					keyOK := DependsOn(mu.Key, func(x ssa.Value) bool { return fieldLoadOf(x, txnFld) })
					valOK := DependsOn(mu.Value, func(x ssa.Value) bool { return fieldLoadOf(x, lsnFld) })
					r.Check(keyOK && valOK, "Redo:activeTxn-holds-latest-lsn"+itoaOrd(nAct), "activeTxn maps a transaction to the LSN of its latest record", "map update at "+w.InstrPos(in)+" does not store record.Lsn under record.TxnID")
				}
			}
		}
		r.Floor("lsnMapping updates in Redo", nMap, 1)
		r.Floor("activeTxn updates in Redo", nAct, 1)
		// the unconditional registration precedes the type dispatch: every record reaches both updates
		typeFld := w.Field("recovery", "LogRecord", "LogRecordType")
		isMapUpd := func(f *types.Var) func(ssa.Instruction) bool {
			return func(in ssa.Instruction) bool {
				mu, ok := in.(*ssa.MapUpdate)
				return ok && fieldLoadOf(mu.Map, f)
			}
		}
		var dsites []ssa.Instruction
		for _, s := range sitesCalling(redo, deser) {
			dsites = append(dsites, s)
		}
		isTypeTest := func(in ssa.Instruction) bool {
			i, ok := in.(*ssa.If)
			if !ok {
				return false
			}
			return DependsOn(i.Cond, func(x ssa.Value) bool { return fieldLoadOf(x, typeFld) })
		}
		deserTrue := CutWhen(IsCallTo(deser), false)
		for _, f := range []*types.Var{mapFld, actFld} {
			wit := (&PathQ{Fn: redo, Cut: []EdgeCut{deserTrue}, Avoid: isMapUpd(f), Target: isTypeTest}).FromAfter(dsites)
			r.Check(wit == nil, "Redo:"+f.Name()+"-registered-for-every-record", "every decoded record is registered in "+f.Name()+" before the dispatch on its type", "path from DeserializeLogRecord to the type dispatch without the update: "+w.DescribeWitness(redo, wit))
		}
		// Undo (the record read may sit in a private helper of Undo)
		nRL := 0
		impl := w.FuncAndHelpers(undo)
		for _, f := range impl {
			for _, b := range f.Blocks {
				for _, in := range b.Instrs {
					c, ok := isReadLog(in)
					if !ok {
						continue
					}
					nRL++
					args := c.Common().Args
					off := args[len(args)-2]
					fromMap := DependsOn(off, func(x ssa.Value) bool {
						l, ok := x.(*ssa.Lookup)
						return ok && fieldLoadOf(l.X, mapFld)
					})
					r.Check(fromMap, "Undo:reads-the-log-at-lsnMapping"+itoaOrd(nRL), "Undo reads the record of an LSN at the offset Redo stored for it", "ReadLog offset at "+w.InstrPos(in)+" does not come from lsnMapping")
				}
			}
		}
		r.Floor("ReadLog calls in Undo", nRL, 1)
		// inner loop: the phi that feeds the lsnMapping lookup has a back edge from record.PrevLSN and the exit test compares it with InvalidLSN
		var lsnPhi *ssa.Phi
		for _, f := range impl {
			for _, b := range f.Blocks {
				for _, in := range b.Instrs {
					l, ok := in.(*ssa.Lookup)
					if !ok || !fieldLoadOf(l.X, mapFld) {
						continue
					}
					idx := stripConv(l.Index)
					if f != undo {
						// the index is a parameter of the helper: take the argument at Undo's call site
						if prm, isParam := resolveCell(idx).(*ssa.Parameter); isParam {
							pi := -1
							for k, q := range f.Params {
								if q == prm {
									pi = k
								}
							}
							idx = nil
							EachCall(undo, func(c ssa.CallInstruction) {
								if c.Common().StaticCallee() == f && pi >= 0 && pi < len(c.Common().Args) {
									idx = stripConv(c.Common().Args[pi])
								}
							})
						} else {
							idx = nil
						}
					}
					if p, ok := idx.(*ssa.Phi); ok && p.Parent() == undo {
						lsnPhi = p
					}
				}
			}
		}
		if lsnPhi == nil {
			r.Bad("Undo:chain-walk", "the LSN looked up in lsnMapping is the loop variable of the chain walk", "the index of the lsnMapping lookup is not a loop variable")
		} else {
			fromPrev, fromActive := false, false
			for _, e := range lsnPhi.Edges {
				if DependsOn(e, func(x ssa.Value) bool { return fieldLoadOf(x, prevFld) }) {
					fromPrev = true
				}
				if DependsOn(e, func(x ssa.Value) bool {
					if rg, ok := x.(*ssa.Range); ok {
						return fieldLoadOf(rg.X, actFld)
					}
					return false
				}) {
					fromActive = true
				}
			}
			r.Check(fromPrev, "Undo:chain-advances-to-PrevLSN", "the chain walk continues with the record's PrevLSN", "the loop variable at "+w.Pos(lsnPhi.Pos())+" never takes record.PrevLSN")
			r.Check(fromActive, "Undo:chain-starts-at-activeTxn", "the chain walk starts from every entry of activeTxn", "the loop variable at "+w.Pos(lsnPhi.Pos())+" is not initialised from a range over activeTxn")
			// exit test
			invalid, _ := constant.Int64Val(w.Const("common", "InvalidLSN").Val())
			exitOK := false
			for _, b := range undo.Blocks {
				i := blockIf(b)
				if i == nil {
					continue
				}
				base, _ := condBase(i.Cond)
				bo, ok := base.(*ssa.BinOp)
				if !ok || (bo.Op != token.NEQ && bo.Op != token.EQL) {
					continue
				}
				isPhi := func(x ssa.Value) bool { return stripConv(x) == ssa.Value(lsnPhi) }
				isInv := func(x ssa.Value) bool {
					cv, ok := constOf(x)
					if !ok {
						return false
					}
					iv, ok := constant.Int64Val(constant.ToInt(cv))
					return ok && iv == invalid
				}
				if (isPhi(bo.X) && isInv(bo.Y)) || (isPhi(bo.Y) && isInv(bo.X)) {
					exitOK = true
				}
			}
			r.Check(exitOK, "Undo:chain-ends-at-InvalidLSN", "the chain walk ends when the LSN is InvalidLSN (and only then)", "no test of the loop variable against InvalidLSN")
			// no other exit from the inner loop: from the loop header, a path to the outer loop's Next without the exit test … the only
			// exits of the inner loop are the header's test (break/return statements inside would be additional exits)
			exits, _ := loopExtraExits(lsnPhi.Block())
			r.Check(exits == 0, "Undo:chain-walk-has-no-early-exit", "the chain walk cannot be left before InvalidLSN (no break / return inside it)", fmt.Sprintf("%d edges leave the inner loop from its body", exits))
		}
	})
}

func itoaOrd(n int) string { return "#" + itoa(n) }

// reachesBlock: to is reachable from from (forward CFG edges).
func reachesBlock(from, to *ssa.BasicBlock) bool {
	seen := map[*ssa.BasicBlock]bool{}
	var st []*ssa.BasicBlock
	st = append(st, from)
	for len(st) > 0 {
		b := st[len(st)-1]
		st = st[:len(st)-1]
		if b == to {
			return true
		}
		if seen[b] {
			continue
		}
		seen[b] = true
		st = append(st, b.Succs...)
	}
	return false
}
