package main

// rules_skiplist.go — C17-R4: the latch hand-over protocol of the skip list, checked against the
// contracts its functions document in their comments (a first step into the part DESIGN declared
// "trusted"): the functions that *consume* a hand-over are verified; FindNode's own latch coupling and
// validateNoChangeAndGetLock's internals stay trusted.

import (
	"go/constant"
	"go/types"
	"strings"

	"golang.org/x/tools/go/ssa"
)

func init() {
	reg("C17-R4", "skip-list hand-over contracts (latches): given the documented contracts of FindNode / FindNodeWithEntryIdxForItr (found node returned latched), validateNoChangeAndGetLock (success: receiver and corner nodes latched; failure: nothing held), SplitNode (new node returned latched), unlockAndUnpinNodes and SkipListBlockPage.Insert/Remove (release the receiver), the consumers — SkipListBlockPage.Insert/Remove, SkipList.GetValue/Insert/Remove, SkipListIterator.initRIDList — release every latch exactly once on every non-panicking path", func(w *World, r *Report) {
		skipListHandOver(w, r, false)
	})
	reg("C17-R4/pins", "skip-list hand-over contracts (pins): under the same contracts (each hand-over of a latched node carries exactly one pin of it) the consumers unpin every node exactly once on every non-panicking path", func(w *World, r *Report) {
		skipListHandOver(w, r, true)
	})
}

func skipListHandOver(w *World, r *Report, pins bool) {
	{
		lt := w.LockTable()
		a := w.A()
		fetchCast := w.FuncObj("storage/page/skip_list_page", "FetchAndCastToBlockPage")
		findNode := w.MethodObj("container/skip_list", "SkipList", "FindNode")
		findItr := w.MethodObj("container/skip_list", "SkipList", "FindNodeWithEntryIdxForItr")
		validate := w.FuncObj("storage/page/skip_list_page", "validateNoChangeAndGetLock")
		unlockAll := w.FuncObj("storage/page/skip_list_page", "unlockAndUnpinNodes")
		split := w.MethodObj("storage/page/skip_list_page", "SkipListBlockPage", "SplitNode")
		nodeIns := w.MethodObj("storage/page/skip_list_page", "SkipListBlockPage", "Insert")
		nodeRem := w.MethodObj("storage/page/skip_list_page", "SkipListBlockPage", "Remove")
		opGet, _ := constant.Int64Val(w.Const("container/skip_list", "SkipListOpGet").Val())
		extractOf := func(c *ssa.Call, idx int) ssa.Value {
			refs := c.Referrers()
			if refs == nil {
				return nil
			}
			for _, ref := range *refs {
				if e, ok := ref.(*ssa.Extract); ok && e.Index == idx {
					return e
				}
			}
			return nil
		}
		type target struct {
			fn       *ssa.Function
			recvHeld string // "" or the mode in which the receiver is latched on entry
		}
		targets := []target{
			{w.SSA(nodeIns), "W"},
			{w.SSA(nodeRem), "W"},
			{w.Fn("container/skip_list", "SkipList", "GetValue"), ""},
			{w.Fn("container/skip_list", "SkipList", "Insert"), ""},
			{w.Fn("container/skip_list", "SkipList", "Remove"), ""},
			{w.Fn("container/skip_list", "SkipListIterator", "initRIDList"), ""},
		}
		nContracts := 0
		for _, t := range targets {
			fn := t.fn
			recv := "p:" + fn.Params[0].Name()
			init := map[string]string{}
			if t.recvHeld != "" {
				init[recv] = t.recvHeld
				init[recv+"#pin"] = "W"
			}
			var issues []string
			// results of multi-value contract calls are named after the call (the Extract that unpacks them
			// executes later and must not count as a new definition of the latched object)
			var pathFn func(v ssa.Value) string
			pathFn = func(v ssa.Value) string {
				if e, ok := resolveCell(v).(*ssa.Extract); ok {
					if c, ok := e.Tuple.(*ssa.Call); ok {
						return "v:" + c.Name() + "#" + itoa(e.Index)
					}
				}
				if u, ok := resolveCell(v).(*ssa.UnOp); ok && trackedFieldLoad(u) {
					return "v:" + u.Name()
				}
				return lt.lockPath(v)
			}
			lw := &LockWalk{W: w, Fn: fn, Init: init, TrackFields: true, PathFn: pathFn}
			pinName := func(st *LState, p string) string { // release the second pin first
				p = strings.TrimSuffix(p, "#id")
				if st != nil {
					if _, ok := st.held[st.root(p)+"#pin2"]; ok {
						return p + "#pin2"
					}
				}
				return p + "#pin"
			}
			lw.Classify = func(c ssa.CallInstruction, st *LState) (lockOp, string) {
				switch CalleeObj(c) {
				case a.BPMUnpin:
					args := c.Common().Args
					return opUnlock, pinName(st, lockPathVia(lt, pathFn, args[len(args)-2]))
				case a.BPMDecPin:
					args := c.Common().Args
					return opUnlock, pinName(st, lockPathVia(lt, pathFn, args[len(args)-1]))
				case a.BPMIncPin:
					args := c.Common().Args
					return opLock, lockPathVia(lt, pathFn, args[len(args)-1]) + "#pin"
				case fetchCast:
					if v, ok := c.(ssa.Value); ok {
						return opLock, "v:" + v.Name() + "#pin"
					}
				}
				op, _ := lt.classify(c)
				if op == opNone {
					return opNone, ""
				}
				com := c.Common()
				var rv ssa.Value
				if com.IsInvoke() {
					rv = com.Value
				} else if len(com.Args) > 0 {
					rv = com.Args[0]
				}
				return op, lockPathVia(lt, pathFn, rv)
			}
			// results of contract calls whose success flag decides whether anything is held
			type pending struct {
				okVal ssa.Value
				names []string
			}
			pend := map[ssa.Value]pending{}
			lw.CallEffect = func(c ssa.CallInstruction, st *LState) (map[string]string, []string) {
				call, ok := c.(*ssa.Call)
				if !ok {
					return nil, nil
				}
				o := CalleeObj(c)
				switch o {
				case findNode, findItr:
					nContracts++
					node := extractOf(call, 1)
					if node == nil {
						return map[string]string{}, []string{}
					}
					mode := "W"
					if o == findItr {
						mode = "R"
					} else if cv, ok := constOf(call.Call.Args[len(call.Call.Args)-1]); ok {
						if iv, _ := constant.Int64Val(cv); iv == opGet {
							mode = "R"
						}
					} else {
						issues = append(issues, "FindNode called with a non-constant operation at "+w.InstrPos(c))
					}
					name := pathFn(node)
					if o == findNode { // isSuccess == false: all latches and pins were released by FindNode
						if okv := extractOf(call, 0); okv != nil {
							pend[okv] = pending{okv, []string{name, name + "#pin"}}
						}
					}
					return map[string]string{name: mode, name + "#pin": "W"}, []string{}
				case validate:
					nContracts++
					// success: the receiver (a member of checkNodes / the additional node) is latched again
					// success: the receiver is latched again and pinned a second time; failure: the callee released
					// everything including the receiver's original pin
					if okv := extractOf(call, 0); okv != nil {
						pend[okv] = pending{okv, []string{recv, recv + "#pin", recv + "#pin2"}}
					}
					if st.Holds(recv, false) {
						issues = append(issues, "validateNoChangeAndGetLock called at "+w.InstrPos(c)+" while the receiver is still latched (it latches the receiver itself: self-deadlock)")
						return map[string]string{}, []string{}
					}
					return map[string]string{recv: "W", recv + "#pin2": "W"}, []string{}
				case unlockAll:
					nContracts++
					var rel []string
					if st.Holds(recv, false) {
						rel = append(rel, recv)
					}
					if st.Holds(recv+"#pin2", false) {
						rel = append(rel, recv+"#pin2")
					} else if st.Holds(recv+"#pin", false) {
						rel = append(rel, recv+"#pin")
					}
					return map[string]string{}, rel
				case split:
					nContracts++
					if v, ok := c.(ssa.Value); ok {
						return map[string]string{"v:" + v.Name(): "W", "v:" + v.Name() + "#pin": "W"}, []string{}
					}
				case nodeIns, nodeRem:
					if call.Parent() != w.SSA(nodeIns) && call.Parent() != w.SSA(nodeRem) {
						nContracts++
						p := lockPathVia(lt, pathFn, call.Call.Args[0])
						return map[string]string{}, []string{p, p + "#pin"}
					}
				}
				return nil, nil
			}
			lw.OnEdge = func(b *ssa.BasicBlock, succ int, st *LState) bool {
				i := blockIf(b)
				if i == nil {
					return true
				}
				v, neg := condBase(i.Cond)
				for okv, p := range pend {
					if resolveCell(v) != okv {
						continue
					}
					okOnEdge := (succ == 0) != neg
					if !okOnEdge {
						for _, n := range p.names {
							delete(st.held, st.root(n))
						}
					}
				}
				return true
			}
			lw.OnReturn = func(ret *ssa.Return, st *LState) {
				for _, h := range st.HeldNames() {
					issues = append(issues, "returns at "+w.InstrPos(ret)+" holding "+h)
				}
			}
			lw.OnIssue = func(kind string, in ssa.Instruction, name string, st *LState) {
				issues = append(issues, kind+" "+name+" at "+w.InstrPos(in))
			}
			lw.Run()
			k := funcKey(fn)
			if lw.Truncated {
				r.Undecided(k+":hand-over-latches", "state space cap hit", "")
				continue
			}
			var mine []string
			for _, x := range uniq(issues) {
				if strings.Contains(x, "#pin") == pins {
					mine = append(mine, x)
				}
			}
			issues = mine
			if len(issues) > 6 {
				issues = append(issues[:6], "…")
			}
			if pins {
				r.Check(len(issues) == 0, k+":hand-over-pins", "under the documented hand-over contracts every pin is released exactly once on every path", strings.Join(issues, "; "))
			} else {
				r.Check(len(issues) == 0, k+":hand-over-latches", "under the documented hand-over contracts every latch is released exactly once on every path", strings.Join(issues, "; "))
			}
		}
		r.Floor("contract call sites interpreted", nContracts, 8)
	}
}

// lockPathVia: like LockTable.lockPath, but the innermost value is named by pathFn (used to give the
// components of a multi-value call result a stable name).
func lockPathVia(lt *LockTable, pathFn func(ssa.Value) string, v ssa.Value) string {
	for depth := 0; depth < 16; depth++ {
		v = resolveCell(v)
		if u, ok := v.(*ssa.UnOp); ok && trackedFieldLoad(u) {
			return "v:" + u.Name() // bound to the field's content at load time by the walker
		}
		switch x := v.(type) {
		case *ssa.FieldAddr:
			st, _ := derefStruct(x.X.Type())
			f := st.Field(x.Field)
			if f.Embedded() && f.Name() == "Page" {
				v = x.X
				continue
			}
			return lockPathVia(lt, pathFn, x.X) + "." + f.Name()
		case *ssa.UnOp:
			if x.Op.String() == "*" {
				v = x.X
				continue
			}
		case *ssa.ChangeType:
			v = x.X
			continue
		case *ssa.Convert:
			v = x.X
			continue
		case *ssa.Call:
			if o := CalleeObj(x); o != nil && o.Name() == "GetPageID" && len(x.Call.Args) == 1 {
				return lockPathVia(lt, pathFn, x.Call.Args[0]) + "#id"
			}
		}
		return pathFn(v)
	}
	return "?"
}

func init() {
	reg("C17-R5", "inclusive start bound of the skip-list range scan: FindEntryByKey returns found=true only together with the index whose key compared equal; FindNodeWithEntryIdxForItr forwards that pair; and in SkipListIterator.initRIDList the first entry read (when no node hop intervenes) is slot idx+0 when the start key was found and slot idx+1 (the entry after the nearest smaller key) when it was not — computed as a constant offset along every path", func(w *World, r *Report) {
		findItr := w.MethodObj("container/skip_list", "SkipList", "FindNodeWithEntryIdxForItr")
		findEntry := w.MethodObj("storage/page/skip_list_page", "SkipListBlockPage", "FindEntryByKey")
		keyAt := w.MethodObj("storage/page/skip_list_page", "SkipListBlockPage", "KeyAt")
		getEntry := w.MethodObj("storage/page/skip_list_page", "SkipListBlockPage", "GetEntry")
		fetchCast := w.FuncObj("storage/page/skip_list_page", "FetchAndCastToBlockPage")
		cmpEq := w.MethodObj("types", "Value", "CompareEquals")
		// (a) FindEntryByKey
		fe := w.SSA(findEntry)
		nTrue := 0
		for _, b := range fe.Blocks {
			ret, ok := b.Instrs[len(b.Instrs)-1].(*ssa.Return)
			if !ok || len(ret.Results) != 3 {
				continue
			}
			if !canBeBool(retOperand(ret, 0), true, map[ssa.Value]bool{}) {
				continue
			}
			nTrue++
			retIdx := linEval(retOperand(ret, 2), nil, 0)
			// nearest dominating true edge of a CompareEquals test
			okGuard := false
			why := "no dominating `key at index i equals the search key` test"
			child := b
			for d := b.Idom(); d != nil; child, d = d, d.Idom() {
				i := blockIf(d)
				if i == nil {
					continue
				}
				base, neg := condBase(i.Cond)
				c, isCall := base.(*ssa.Call)
				if !isCall || CalleeObj(c) != cmpEq {
					continue
				}
				// the return must lie on the equal side
				eqSucc := d.Succs[0]
				if neg {
					eqSucc = d.Succs[1]
				}
				if !(eqSucc == child || eqSucc.Dominates(child)) || len(eqSucc.Preds) != 1 {
					why = "the return at " + w.InstrPos(ret) + " is not on the equal side of the comparison at " + w.InstrPos(i)
					break
				}
				// index of the compared key
				var idxArg ssa.Value
				DependsOn(c.Call.Args[0], func(v ssa.Value) bool {
					cc, ok := v.(*ssa.Call)
					if ok && (CalleeObj(cc) == keyAt || CalleeObj(cc) == getEntry) && idxArg == nil {
						idxArg = cc.Call.Args[1]
						return true
					}
					return false
				})
				if idxArg == nil {
					why = "the compared key at " + w.InstrPos(i) + " is not read through KeyAt/GetEntry"
					break
				}
				k := linEval(idxArg, nil, 0)
				if k.OK && retIdx.OK && k.Base == retIdx.Base && k.Off == retIdx.Off {
					okGuard = true
				} else {
					why = "found=true is returned at " + w.InstrPos(ret) + " with an index other than the one whose key compared equal at " + w.InstrPos(i)
				}
				break
			}
			r.Check(okGuard, "FindEntryByKey:found-index-is-the-equal-slot"+ordinalInBlockReturns(fe, ret), "found=true is returned with the index of the slot whose key equals the search key", why)
		}
		r.Floor("found=true returns of FindEntryByKey", nTrue, 1)
		// (b) FindNodeWithEntryIdxForItr forwards (found, idx) of one FindEntryByKey call
		fi := w.SSA(findItr)
		nRet := 0
		for _, b := range fi.Blocks {
			ret, ok := b.Instrs[len(b.Instrs)-1].(*ssa.Return)
			if !ok || len(ret.Results) != 3 {
				continue
			}
			nRet++
			e0, ok0 := stripConv(retOperand(ret, 0)).(*ssa.Extract)
			e2, ok2 := stripConv(retOperand(ret, 2)).(*ssa.Extract)
			good := ok0 && ok2 && e0.Tuple == e2.Tuple && e0.Index == 0 && e2.Index == 2
			if good {
				c, isCall := e0.Tuple.(*ssa.Call)
				good = isCall && CalleeObj(c) == findEntry
			}
			r.Check(good, "FindNodeWithEntryIdxForItr:forwards-found-and-index", "found and index come unchanged from one FindEntryByKey call", "return at "+w.InstrPos(ret)+" does not forward (found, index) of a FindEntryByKey call")
		}
		r.Floor("returns of FindNodeWithEntryIdxForItr", nRet, 1)
		// (c) initRIDList
		it := w.Fn("container/skip_list", "SkipListIterator", "initRIDList")
		calls := sitesCalling(it, findItr)
		r.Floor("FindNodeWithEntryIdxForItr calls in initRIDList", len(calls), 1)
		for _, cs := range calls {
			c := cs.(*ssa.Call)
			var found, slot ssa.Value
			for _, ref := range *c.Referrers() {
				if e, ok := ref.(*ssa.Extract); ok {
					if e.Index == 0 {
						found = e
					} else if e.Index == 2 {
						slot = e
					}
				}
			}
			if found == nil || slot == nil {
				r.Bad("initRIDList:uses-found-and-index", "the iterator positions itself from (found, index)", "found or index result of the call at "+w.InstrPos(c)+" is unused")
				continue
			}
			stop := func(in ssa.Instruction) (ssa.Value, bool) {
				cc, ok := in.(*ssa.Call)
				if ok && CalleeObj(cc) == getEntry {
					return cc.Call.Args[1], true
				}
				return nil, false
			}
			hop := func(in ssa.Instruction) bool { return InstrCallsObj(fetchCast)(in) }
			isFound := func(v ssa.Value) bool { return v == found }
			for _, cse := range []struct {
				name  string
				truth bool
				off   int64
			}{{"found", true, 0}, {"not-found", false, 1}} {
				paths := LinPaths(it, cs, []EdgeCut{CutWhen(isFound, !cse.truth)}, stop, hop)
				var bad []string
				for _, p := range paths {
					if !(p.Val.OK && p.Val.Base == slot && p.Val.Off == cse.off) {
						desc := "a value not of the form index+const"
						if p.Val.OK && p.Val.Base == slot {
							desc = "index" + signed(p.Val.Off)
						} else if p.Val.OK && p.Val.Base == nil {
							desc = "constant " + itoa(int(p.Val.Off))
						}
						bad = append(bad, "first entry read at "+w.InstrPos(p.Stop)+" is slot "+desc+" (blocks "+intsJoin(p.Blocks)+")")
					}
				}
				r.Floor("initRIDList paths to the first entry read ("+cse.name+")", len(paths), 1)
				r.Check(len(bad) == 0, "initRIDList:first-entry-read:"+cse.name, "the scan starts at slot index"+signed(cse.off)+" when the start key was "+cse.name, strings.Join(uniq(bad), "; "))
			}
		}
	})
}

func signed(i int64) string {
	if i < 0 {
		return "-" + itoa(int(-i))
	}
	return "+" + itoa(int(i))
}

func intsJoin(xs []int) string {
	var s []string
	for _, x := range xs {
		s = append(s, itoa(x))
	}
	return strings.Join(s, ">")
}

// ordinalInBlockReturns numbers the returns of fn in block order ("#1", "#2", …).
func ordinalInBlockReturns(fn *ssa.Function, ret *ssa.Return) string {
	n := 0
	for _, b := range fn.Blocks {
		if x, ok := b.Instrs[len(b.Instrs)-1].(*ssa.Return); ok {
			n++
			if x == ret {
				return "#" + itoa(n)
			}
		}
	}
	return ""
}

func init() {
	reg("C17-R6", "optimistic validation sees every change: a skip-list node's update counter (page LSN) is the only thing validateNoChangeAndGetLock compares, so SkipListBlockPage.Insert / Remove bump the receiver's counter (SetLSN(GetLSN()+1), or SplitNode, which bumps every corner node) on every path on which they change the receiver's entries (InsertInner / RemoveInner / SetEntry) before the latch is released", func(w *World, r *Report) {
		a := w.A()
		pkg := "storage/page/skip_list_page"
		muts := []*types.Func{w.MethodObj(pkg, "SkipListBlockPage", "InsertInner"), w.MethodObj(pkg, "SkipListBlockPage", "RemoveInner"), w.MethodObj(pkg, "SkipListBlockPage", "SetEntry")}
		split := w.MethodObj(pkg, "SkipListBlockPage", "SplitNode")
		lt := w.LockTable()
		_ = lt
		n := 0
		for _, name := range []string{"Insert", "Remove"} {
			fn := w.Fn(pkg, "SkipListBlockPage", name)
			recv := ssa.Value(fn.Params[0])
			onRecv := func(v ssa.Value) bool {
				return DependsOn(v, func(x ssa.Value) bool { return x == recv })
			}
			isBump := func(in ssa.Instruction) bool {
				c, ok := in.(*ssa.Call)
				if !ok {
					return false
				}
				o := CalleeObj(c)
				if o == split && onRecv(c.Call.Args[0]) {
					return true
				}
				if o != a.PageSetLSN || !onRecv(c.Call.Args[0]) {
					return false
				}
				return DependsOn(c.Call.Args[1], func(x ssa.Value) bool {
					cc, ok := x.(*ssa.Call)
					return ok && CalleeObj(cc) == a.PageGetLSN && onRecv(cc.Call.Args[0])
				})
			}
			isUnlatchRecv := func(in ssa.Instruction) bool {
				c, ok := in.(*ssa.Call)
				if !ok || CalleeObj(c) == nil || CalleeObj(c).Name() != "WUnlatch" {
					return isReturn(in)
				}
				return onRecv(c.Call.Args[0])
			}
			for _, m := range muts {
				for _, s := range sitesCalling(fn, m) {
					c := s.(*ssa.Call)
					if !onRecv(c.Call.Args[0]) || DependsOn(c.Call.Args[0], IsCallTo(split)) {
						continue // another node (a node fresh from SplitNode is not yet known to any validator)
					}
					n++
					site := s
					before := (&PathQ{Fn: fn, Avoid: isBump, Target: func(x ssa.Instruction) bool { return x == site }}).FromEntry()
					var after *Witness
					if before != nil {
						after = (&PathQ{Fn: fn, Avoid: isBump, Target: isUnlatchRecv}).FromAfter([]ssa.Instruction{site})
					}
					r.Check(before == nil || after == nil, "SkipListBlockPage."+name+":counter-bumped-with-"+m.Name()+ordinalIn(fn, s, m), "the node's update counter changes whenever its entries change under the latch", "the entries are changed at "+w.InstrPos(s)+" and the latch is released without bumping the counter (a concurrent validate-and-relatch does not notice the change): "+w.DescribeWitness(fn, after))
				}
			}
		}
		r.Floor("entry mutations of the receiver in SkipListBlockPage.Insert/Remove", n, 3)
	})
}
