package main

// rules_c19.go — page-latch must-hold (C19-R2) and shared-field discovery (C19-R3).

import (
	"fmt"
	"go/types"
	"sort"
	"strings"

	"golang.org/x/tools/go/ssa"
)

func init() {
	reg("C19-R2", "page content is touched only under the page latch: every call of a TablePage content method outside TablePage itself and outside recovery has the receiver's WLatch (mutators) or any latch (readers) in the must-hold set; the pool reads a resident page's bytes for I/O only under a latch or b.mutex", func(w *World, r *Report) {
		a := w.A()
		mutators := map[*types.Func]bool{a.TPInsert: true, a.TPUpdate: true, a.TPMarkDelete: true, a.TPApplyDelete: true, a.TPRollbackDelete: true, a.TPInit: true,
			w.MethodObj("storage/access", "TablePage", "SetNextPageID"): true}
		readers := map[*types.Func]bool{a.TPGetTuple: true,
			w.MethodObj("storage/access", "TablePage", "GetNextTupleRID"):  true,
			w.MethodObj("storage/access", "TablePage", "GetTupleFirstRID"): true,
			w.MethodObj("storage/access", "TablePage", "GetNextPageID"):    true}
		// recovery-only functions: called only from NewSamehadaDB before ActivateLogging (single-threaded)
		recoveryOnly := map[string]string{
			"(*recovery/log_recovery.LogRecovery).Redo": "recovery: single-threaded, before any user transaction",
			"(*recovery/log_recovery.LogRecovery).Undo": "recovery: single-threaded, before any user transaction",
			"samehada.greatestLSNOfTablePages":          "start-up: walks the table heaps before logging is activated and before any other goroutine exists",
		}
		lt := w.LockTable()
		nCalls := 0
		var fns []*ssa.Function
		for _, fn := range w.RepoFuncs {
			if w.IsTestFunc(fn) || fn.Parent() != nil {
				continue
			}
			if fn.Signature.Recv() != nil && strings.HasSuffix(fn.Signature.Recv().Type().String(), "access.TablePage") {
				continue // TablePage's own methods run under the caller's latch
			}
			has := false
			EachCall(fn, func(c ssa.CallInstruction) {
				if o := CalleeObj(c); o != nil && (mutators[o] || readers[o]) {
					has = true
				}
			})
			if has {
				fns = append(fns, fn)
			}
		}
		for _, fn := range fns {
			k := funcKey(fn)
			if reason, ok := recoveryOnly[k]; ok {
				r.Note(k+":recovery-only", "page methods called without latch", reason)
				continue
			}
			var bad []string
			lw := &LockWalk{W: w, Fn: fn,
				OnInstr: func(in ssa.Instruction, st *LState) {
					c, ok := in.(*ssa.Call)
					if !ok {
						return
					}
					o := CalleeObj(c)
					if o == nil || !(mutators[o] || readers[o]) {
						return
					}
					nCalls++
					p := lt.lockPath(c.Call.Args[0])
					if !st.Holds(p, mutators[o]) {
						mode := "a latch"
						if mutators[o] {
							mode = "the write latch"
						}
						bad = append(bad, fmt.Sprintf("%s at %s without %s of the page (held: %v)", o.Name(), w.InstrPos(in), mode, st.HeldNames()))
					}
				}}
			lw.Run()
			if lw.Truncated {
				r.Undecided(k+":page-methods-under-latch", "state space cap hit", "")
				continue
			}
			bad = uniq(bad)
			r.Check(len(bad) == 0, k+":page-methods-under-latch", "TablePage content methods are called with the page latch held", strings.Join(bad, "; "))
		}
		r.Floor("functions calling TablePage content methods", len(fns), 10)
		r.Floor("TablePage content method calls examined", nCalls, 15)
		// recovery-only functions are called only from start-up / tests
		for k := range recoveryOnly {
			f := w.fnByKey(k)
			if f == nil {
				r.Note(k+":recovery-only-absent", "exempt function does not exist on this tree", "")
				continue
			}
			fo, _ := f.Object().(*types.Func)
			wmc(w, r, "start-up only: "+k, map[*types.Func]bool{fo: true}, map[string]string{"samehada.NewSamehadaDB": "start-up, before logging is activated"}, 1)
		}
		// pool I/O on resident pages: Data()/GetData() of a page inside package buffer needs b.mutex or the page latch
		hs := w.bpmHelpers()
		for _, fn := range w.methodsOf("storage/buffer", "BufferPoolManager") {
			mu := bpmRecvMutex(fn)
			init := map[string]string{}
			if hs[fn].EntryHeld {
				init[mu] = "W"
			}
			var bad []string
			n := 0
			lw := &LockWalk{W: w, Fn: fn, Init: init, CallEffect: w.bpmCallEffect(fn, hs, nil),
				OnInstr: func(in ssa.Instruction, st *LState) {
					c, ok := in.(*ssa.Call)
					if !ok {
						return
					}
					o := CalleeObj(c)
					if o != a.PageData && o != a.PageGetData {
						return
					}
					n++
					p := lt.lockPath(c.Call.Args[0])
					// a page object created in this call (page.New/NewEmpty) is not shared yet
					if DependsOn(c.Call.Args[0], func(v ssa.Value) bool {
						cc, ok := v.(*ssa.Call)
						if !ok {
							return false
						}
						f := cc.Call.StaticCallee()
						return f != nil && f.Pkg != nil && f.Pkg.Pkg.Path() == libMod+"/storage/page" && (f.Name() == "New" || f.Name() == "NewEmpty")
					}) {
						return
					}
					if !st.Holds(p, false) && !st.Holds(mu, false) {
						bad = append(bad, fmt.Sprintf("page bytes taken at %s with neither the page latch nor b.mutex held", w.InstrPos(in)))
					}
				}}
			lw.Run()
			if n == 0 {
				continue
			}
			bad = uniq(bad)
			r.Check(len(bad) == 0, "BPM."+fn.Name()+":page-bytes-under-latch-or-mutex", "the pool takes a resident page's bytes for I/O only under the page latch or the pool mutex", strings.Join(bad, "; "))
		}
	})

	reg("C19-R3", "discovery: every field of the shared engine structs that is written outside its constructor is guarded (appears in the guard table of C13-R1/C16-R3/C12-R4/C17-R2/C19-R1) or is on the reasoned exception list", func(w *World, r *Report) {
		type ty struct{ pkg, name string }
		structs := []ty{{"storage/access", "TableHeap"}, {"storage/buffer", "BufferPoolManager"}, {"recovery", "LogManager"}, {"storage/access", "LockManager"},
			{"catalog", "Catalog"}, {"storage/access", "TransactionManager"}, {"samehada", "RequestManager"},
			{"storage/index", "SkipListIndex"}, {"storage/index", "UniqSkipListIndex"}, {"storage/index", "BTreeIndex"}, {"storage/index", "LinearProbeHashTableIndex"},
			{"concurrency", "CheckpointManager"}, {"concurrency", "StatisticsUpdater"}, {"catalog", "TableMetadata"}}
		guardedBy := map[string]string{
			"BufferPoolManager.pageTable": "b.mutex (C13-R1)", "BufferPoolManager.freeList": "b.mutex (C13-R1)", "BufferPoolManager.pages": "b.mutex (C13-R1)",
			"BufferPoolManager.replacer": "b.mutex (C13-R1)", "BufferPoolManager.reUsablePageList": "b.mutex (C13-R1)",
			"LockManager.sharedLockTable": "mutex (C16-R3)", "LockManager.exclusiveLockTable": "mutex (C16-R3)",
			"LogManager.offset": "latch (C19-R1)", "LogManager.logBufferLSN": "latch (C19-R1)", "LogManager.nextLSN": "latch (C19-R1)", "LogManager.logBuffer": "latch (C19-R1)",
			"LogManager.flushBuffer": "wlogMutex (C19-R1)", "LogManager.persistentLSN": "wlogMutex (C19-R1)",
			"TransactionManager.nextTxnID": "mutex (C19-R1)",
			"Catalog.tableIDs": "tableIDsMutex (C19-R1)", "Catalog.tableNames": "tableNamesMutex (C19-R1)", "Catalog.nextTableID": "sync/atomic (C19-R1)",
			"RequestManager.execQue": "queMutex (C12-R4)", "RequestManager.curExectingReqNum": "queMutex (C12-R4)", "RequestManager.nextReqID": "queMutex (C12-R4)",
			"SkipListIndex.container": "updateMtx (C17-R2)", "UniqSkipListIndex.container": "updateMtx (C17-R2)", "BTreeIndex.container": "rwMtx (C17-R2)",
			"TableHeap.lastPageID": "sync/atomic (checked below)",
		}
		exceptions := map[string]string{
			"LogManager.isEnableLogging":            "switched only during single-threaded start-up / shutdown (NewSamehadaDB, tests)",
			"RequestManager.isExecutionActive":      "plain stop flag of the dispatcher goroutine (thread-control flag, not engine data)",
			"CheckpointManager.isCheckpointActive":  "plain stop flag of the checkpoint goroutine (thread-control flag, not engine data)",
			"StatisticsUpdater.isUpdaterActive":     "plain stop flag of the statistics goroutine (thread-control flag, not engine data)",
			"LinearProbeHashTableIndex.container":   "hash container synchronises itself with its table latch (no wrapper lock by design)",
			"TableMetadata.indexes":                 "written once in NewTableMetadata (constructor) — reported only if written elsewhere",
		}
		n := 0
		for _, t := range structs {
			st := w.Named(t.pkg, t.name).Underlying().(*types.Struct)
			for i := 0; i < st.NumFields(); i++ {
				f := st.Field(i)
				ws := w.fieldWriters(f, nil)
				var outside []string
				for k, sites := range ws {
					base := k
					if strings.Contains(base, ".New"+t.name) || strings.HasSuffix(base, ".New"+t.name) || strings.Contains(base, ".Init"+t.name) ||
						strings.Contains(base, "BootstrapCatalog") || strings.Contains(base, "RecoveryCatalogFromCatalogPage") || strings.Contains(base, "NewSamehadaInstance") {
						continue
					}
					outside = append(outside, k+" ("+strings.Join(sites, ",")+")")
				}
				if len(outside) == 0 {
					continue
				}
				n++
				sort.Strings(outside)
				key := t.name + "." + f.Name()
				if g, ok := guardedBy[key]; ok {
					r.Ok("shared-field:"+key, "written outside the constructor and guarded by "+g)
				} else if why, ok := exceptions[key]; ok {
					r.Note("shared-field:"+key, "written outside the constructor, unguarded, on the exception list", why)
				} else {
					r.Bad("shared-field:"+key, "every mutable field of a shared engine struct has a guard", "field "+key+" is written by "+strings.Join(outside, "; ")+" and has no entry in the guard table or the exception list")
				}
			}
		}
		r.Floor("mutable shared fields", n, 15)
		// TableHeap.lastPageID: atomic only
		last := w.Field("storage/access", "TableHeap", "lastPageID")
		cnt := 0
		for _, fn := range w.RepoFuncs {
			if w.IsTestFunc(fn) {
				continue
			}
			for _, b := range fn.Blocks {
				for _, in := range b.Instrs {
					fa, ok := in.(*ssa.FieldAddr)
					if !ok {
						continue
					}
					sst, ok := derefStruct(fa.X.Type())
					if !ok || sst.Field(fa.Field) != last {
						continue
					}
					k := funcKey(topFunc(fn))
					if strings.HasSuffix(k, "NewTableHeap") || strings.HasSuffix(k, "InitTableHeap") {
						continue
					}
					cnt++
					okAll := true
					for _, ref := range *fa.Referrers() {
						// address converted (unsafe cast to *int32) then passed to sync/atomic
						if !flowsOnlyToAtomic(ref) {
							okAll = false
						}
					}
					r.Check(okAll, "atomic-only:lastPageID:"+k+ordinalField(fn, in, last), "TableHeap.lastPageID (hint shared by concurrent inserters under different page latches) is accessed atomically", fmt.Sprintf("%s accesses t.lastPageID non-atomically at %s while other inserters write it under a different page latch", k, w.InstrPos(in)))
				}
			}
		}
		r.Floor("lastPageID accesses outside constructors", cnt, 2)
	})
}

func flowsOnlyToAtomic(in ssa.Instruction) bool {
	switch x := in.(type) {
	case *ssa.Call:
		o := CalleeObj(x)
		return o != nil && o.Pkg() != nil && o.Pkg().Path() == "sync/atomic"
	case *ssa.Convert, *ssa.ChangeType:
		v := in.(ssa.Value)
		refs := v.Referrers()
		if refs == nil || len(*refs) == 0 {
			return false
		}
		for _, r := range *refs {
			if !flowsOnlyToAtomic(r) {
				return false
			}
		}
		return true
	}
	return false
}

func ordinalField(fn *ssa.Function, in ssa.Instruction, f *types.Var) string {
	n := 0
	for _, b := range fn.Blocks {
		for _, x := range b.Instrs {
			if fa, ok := x.(*ssa.FieldAddr); ok {
				if sst, ok := derefStruct(fa.X.Type()); ok && sst.Field(fa.Field) == f {
					n++
					if x == in {
						return fmt.Sprintf("#%d", n)
					}
				}
			}
		}
	}
	return "#?"
}

func init() {
	reg("C19-R4", "FlushPage takes the read latch of the page it writes, so no caller may hold a page latch when it calls FlushPage / FlushAllPages / FlushAllDirtyPages (a write latch of the same page would dead-lock the caller on itself, a latch of another page inverts the order with the checkpoint): at every such call site outside package buffer no page latch acquired in the calling function is still held", func(w *World, r *Report) {
		a := w.A()
		lt := w.LockTable()
		targets := map[*types.Func]bool{a.BPMFlushPage: true, a.BPMFlushAll: true, a.BPMFlushAllDirty: true}
		n := 0
		for _, fn := range w.RepoFuncs {
			if w.IsTestFunc(fn) || fn.Pkg == nil || fn.Pkg.Pkg.Path() == libMod+"/storage/buffer" || fn.Synthetic != "" {
				continue
			}
			calls := false
			var latchPaths []string
			EachCall(fn, func(c ssa.CallInstruction) {
				o := CalleeObj(c)
				if o == nil {
					return
				}
				if targets[o] {
					calls = true
				}
				if op, ok := lt.ops[o]; ok && (op == opLock || op == opRLock) && (o == a.PageRLatch || o == a.PageWLatch) {
					latchPaths = append(latchPaths, lt.lockPath(c.Common().Args[0]))
				}
			})
			if !calls || fn.Parent() != nil {
				continue
			}
			var bad []string
			lw := &LockWalk{W: w, Fn: fn, OnInstr: func(in ssa.Instruction, st *LState) {
				c, ok := in.(ssa.CallInstruction)
				if !ok || !targets[CalleeObj(c)] {
					return
				}
				n++
				for _, p := range latchPaths {
					if st.Holds(p, false) {
						bad = append(bad, CalleeObj(c).Name()+" at "+w.InstrPos(in)+" while the latch of "+p+" is held")
					}
				}
			}}
			lw.Run()
			r.Check(len(bad) == 0 && !lw.Truncated, funcKey(fn)+":no-page-latch-held-at-flush", "the pool's flush functions are called without any page latch held", strings.Join(uniq(bad), "; "))
		}
		r.Floor("flush call sites outside package buffer", n, 4)
	})
}
